/-
  C06, PSD cone: the combined step satisfies the linearised complementarity equation
  `λ ∘ (WΔz + W⁻ᵀΔs) = −d` on the PSD model's own functions (`PsdTri.mulHs`, `dsFromDzOffset`,
  `mulW`, `mulWinv`, `circOp`, `affineDs`, `combinedDsShift`; C13), conditional on the LAPACK
  contract `R·R⁻¹ = I` and `λᵢ + λⱼ ≠ 0`.

  For the PSD cone the scaling operator `W : X ↦ RᵀXR` is not symmetric; the code uses `W`
  (shape `N`) and `Wᵀ : X ↦ RXRᵀ` (shape `T`): `mul_Hs = Wᵀ∘W`, `Δs_from_Δz_offset(d) = Wᵀ(λ\d)`,
  `step_z ← WΔz`, `step_s ← W⁻ᵀΔs`.  `symmetric_cone_complementarity_T` is the abstract
  statement with a separate transpose (for `Wᵀ = W` it is `symmetric_cone_complementarity`);
  `psd_matrix_step` instantiates it on dense matrices, `psd_step_general` /
  `psd_combined_step` carry it to the array functions.
-/
import ClarabelProofs.Lemmas.ConesPsdScaling
import Mathlib.Tactic.Abel
import Mathlib.Tactic.FieldSimp

namespace Clarabel.Lemmas

/-- **symmetric cones, abstract, nonsymmetric `W`**: `Wᵀ` additive with `Hs = Wᵀ∘W`,
`W⁻ᵀWᵀ = I`, `λ∘·` odd, `λ∘(λ\d) = d`, `Δs_from_Δz_offset(d) = Wᵀ(λ\d)`; then
`Δs = −(Hs Δz + offset)` satisfies `λ∘(WΔz + W⁻ᵀΔs) = −d`. -/
theorem symmetric_cone_complementarity_T {V : Type} [AddCommGroup V] (W Wt Winvt Hs : V → V)
    (circ : V → V → V) (invc off : V → V) (lam d dz : V)
    (hWt : ∀ a b, Wt (a + b) = Wt a + Wt b) (hWtneg : ∀ a, Wt (-a) = -Wt a)
    (hHs : ∀ x, Hs x = Wt (W x)) (hWi : ∀ x, Winvt (Wt x) = x)
    (hcn : ∀ a, circ lam (-a) = -circ lam a) (hci : circ lam (invc d) = d)
    (hoff : off d = Wt (invc d)) :
    circ lam (W dz + Winvt (-(Hs dz + off d))) = -d := by
  rw [hHs, hoff, ← hWt, ← hWtneg, hWi]
  have : W dz + -(W dz + invc d) = -invc d := by abel
  rw [this, hcn, hci]

end Clarabel.Lemmas

namespace Clarabel.PsdTri
open PsdIndex (triangularNumber triangularIndex)
open Matrix

/-! ## dense matrices -/

/-- the Jordan product `½(LX + XL)` on dense matrices -/
noncomputable def jordanM {n : Nat} (L X : Matrix (Fin n) (Fin n) ℝ) : Matrix (Fin n) (Fin n) ℝ :=
  (1 / 2 : ℝ) • (L * X + X * L)

/-- `diag(λ) ∘ (λ \ D) = D` when no `λᵢ + λⱼ` vanishes -/
theorem jordanM_lamInvM {n : Nat} (lam : Array ℝ) (D : Matrix (Fin n) (Fin n) ℝ)
    (hne : ∀ i j, i < n → j < n → lam.getD i 0 + lam.getD j 0 ≠ 0) :
    jordanM (Matrix.diagonal fun i : Fin n => lam.getD i 0) (lamInvM lam D) = D := by
  ext i j
  simp only [jordanM, Matrix.smul_apply, Matrix.add_apply, Matrix.diagonal_mul, Matrix.mul_diagonal,
    lamInvM, Matrix.of_apply, smul_eq_mul]
  have := hne i j i.2 j.2
  field_simp

/-- **PSD cone on dense matrices** (instance of `symmetric_cone_complementarity_T`):
`W X = RᵀXR`, `Wᵀ X = RXRᵀ`, `W⁻ᵀ X = R⁻¹XR⁻ᵀ`, `Hs = Wᵀ∘W`, `λ∘X = ½(ΛX + XΛ)`,
`λ\D = (2Dᵢⱼ/(λᵢ+λⱼ))`, `offset = Wᵀ(λ\D)`; then `λ∘(WΔZ + W⁻ᵀΔS) = −D` for
`ΔS = −(Hs ΔZ + offset)`. -/
theorem psd_matrix_step {n : Nat} (R Ri : Matrix (Fin n) (Fin n) ℝ) (lam : Array ℝ)
    (D DZ : Matrix (Fin n) (Fin n) ℝ) (hinv : R * Ri = 1)
    (hne : ∀ i j, i < n → j < n → lam.getD i 0 + lam.getD j 0 ≠ 0) :
    jordanM (Matrix.diagonal fun i : Fin n => lam.getD i 0)
        (Rᵀ * DZ * R + Ri * (-(R * (Rᵀ * DZ * R) * Rᵀ + R * lamInvM lam D * Rᵀ)) * Riᵀ) = -D := by
  have hinv' : Ri * R = 1 := mul_eq_one_comm.mp hinv
  refine Clarabel.Lemmas.symmetric_cone_complementarity_T (V := Matrix (Fin n) (Fin n) ℝ)
    (fun X => Rᵀ * X * R) (fun X => R * X * Rᵀ) (fun X => Ri * X * Riᵀ)
    (fun X => R * (Rᵀ * X * R) * Rᵀ) jordanM (lamInvM lam) (fun D => R * lamInvM lam D * Rᵀ)
    (Matrix.diagonal fun i : Fin n => lam.getD i 0) D DZ ?_ ?_ (fun _ => rfl) ?_ ?_
    (jordanM_lamInvM lam D hne) rfl
  · intro a b; simp only [Matrix.mul_add, Matrix.add_mul]
  · intro a; simp only [Matrix.mul_neg, Matrix.neg_mul]
  · intro X
    calc Ri * (R * X * Rᵀ) * Riᵀ = (Ri * R) * X * (Ri * R)ᵀ := by
          rw [Matrix.transpose_mul]; simp only [Matrix.mul_assoc]
      _ = X := by rw [hinv']; simp
  · intro a
    simp only [jordanM, Matrix.mul_neg, Matrix.neg_mul, ← neg_add, smul_neg]

/-! ## arrays: `svec_to_mat` is linear in the entries -/

theorem getD_axpby (a b : ℝ) (x y : Array ℝ) (h : x.size = y.size) (p : Nat) :
    (Vec.axpby a x b y).getD p 0 = a * x.getD p 0 + b * y.getD p 0 := by
  by_cases hp : p < x.size
  · have hp' : p < y.size := h ▸ hp
    simp [Vec.axpby, Array.getD_eq_getD_getElem?, hp, hp']
  · have hp' : ¬ p < y.size := h ▸ hp
    simp [Vec.axpby, Array.getD_eq_getD_getElem?, hp, hp']

theorem getD_waxpby (a b : ℝ) (x y : Array ℝ) (h : x.size = y.size) (p : Nat) :
    (Vec.waxpby a x b y).getD p 0 = a * x.getD p 0 + b * y.getD p 0 := by
  by_cases hp : p < x.size
  · have hp' : p < y.size := h ▸ hp
    simp [Vec.waxpby, Array.getD_eq_getD_getElem?, hp, hp']
  · have hp' : ¬ p < y.size := h ▸ hp
    simp [Vec.waxpby, Array.getD_eq_getD_getElem?, hp, hp']

theorem getD_negate (x : Array ℝ) (p : Nat) : (Vec.negate x).getD p 0 = -x.getD p 0 := by
  by_cases hp : p < x.size
  · simp [Vec.negate, Array.getD_eq_getD_getElem?, hp]
  · simp [Vec.negate, Array.getD_eq_getD_getElem?, hp]

theorem size_axpby (a b : ℝ) (x y : Array ℝ) (h : x.size = y.size) :
    (Vec.axpby a x b y).size = y.size := by
  simp [Vec.axpby, h]

theorem size_waxpby (a b : ℝ) (x y : Array ℝ) (h : x.size = y.size) :
    (Vec.waxpby a x b y).size = y.size := by
  simp [Vec.waxpby, h]

theorem size_negate (x : Array ℝ) : (Vec.negate x).size = x.size := by
  simp [Vec.negate]

/-- `mat(·)` of an entrywise linear combination -/
theorem toM_svecToMat_lin (n : Nat) (a b : ℝ) (x y w : Array ℝ)
    (hw : ∀ p, w.getD p 0 = a * x.getD p 0 + b * y.getD p 0) :
    toM n (svecToMat w) = a • toM n (svecToMat x) + b • toM n (svecToMat y) := by
  ext i j
  simp only [toM_apply, Matrix.add_apply, Matrix.smul_apply, smul_eq_mul, svecToMat, hw]
  split_ifs <;> ring

theorem toM_svecToMat_axpby (n : Nat) (a b : ℝ) (x y : Array ℝ) (h : x.size = y.size) :
    toM n (svecToMat (Vec.axpby a x b y)) = a • toM n (svecToMat x) + b • toM n (svecToMat y) :=
  toM_svecToMat_lin n a b x y _ (getD_axpby a b x y h)

theorem toM_svecToMat_waxpby (n : Nat) (a b : ℝ) (x y : Array ℝ) (h : x.size = y.size) :
    toM n (svecToMat (Vec.waxpby a x b y)) = a • toM n (svecToMat x) + b • toM n (svecToMat y) :=
  toM_svecToMat_lin n a b x y _ (getD_waxpby a b x y h)

theorem toM_svecToMat_negate (n : Nat) (x : Array ℝ) :
    toM n (svecToMat (Vec.negate x)) = -toM n (svecToMat x) := by
  ext i j
  simp only [toM_apply, Matrix.neg_apply, svecToMat, getD_negate]
  split_ifs <;> ring

/-- `mat(·)` of `scaled_unit_shift`: `mat(c) + a·I` -/
theorem toM_svecToMat_unitShift (n : Nat) (c : Array ℝ) (a : ℝ) :
    toM n (svecToMat (packed n fun r c' =>
        c.getD (triangularNumber c' + r) 0 + if r = c' then a else 0).toArray)
      = toM n (svecToMat c) + a • (1 : Matrix (Fin n) (Fin n) ℝ) := by
  ext i j
  simp only [toM_apply, Matrix.add_apply, Matrix.smul_apply, smul_eq_mul, svecToMat,
    Matrix.one_apply, Fin.ext_iff]
  by_cases h : (i : Nat) = j
  · simp only [h, if_true]
    rw [getD_packed _ (0 : ℝ) (Nat.le_refl _) j.2]
    simp
  · simp only [h, if_false]
    by_cases h2 : (i : Nat) < j
    · simp only [h2, if_true]
      rw [getD_packed _ (0 : ℝ) (Nat.le_of_lt h2) j.2]
      simp [h]
    · simp only [h2, if_false]
      have h3 : (j : Nat) < i := by omega
      rw [getD_packed _ (0 : ℝ) (Nat.le_of_lt h3) i.2]
      have h4 : ¬ (j : Nat) = i := by omega
      simp [h4]

/-! ## the PSD model's own functions -/

/-- **PSD, any right-hand side `d`**: with `h = mul_Hs(Δz)`, `c = Δs_from_Δz_offset(d)`,
`Δs = −1·c + (−1)·h` (the `axpby` of `DefaultKKTSystem::solve`), `p = WΔz` (`mul_W`, shape `N`),
`r = W⁻ᵀΔs` (`mul_Winv`, shape `T`): `λ ∘ (p + r) = −d`. -/
theorem psd_step_general (K : Cone ℝ) (d dz y y' : Array ℝ)
    (hR : K.R.size = K.n * K.n) (hRi : K.Rinv.size = K.n * K.n) (hl : K.lam.size = K.n)
    (hd : d.size = triangularNumber K.n) (hdz : dz.size = triangularNumber K.n)
    (hy : y.size = triangularNumber K.n) (hy' : y'.size = triangularNumber K.n)
    (hinv : toM K.n (matOf K.n K.R) * toM K.n (matOf K.n K.Rinv) = 1)
    (hne : ∀ i j, i < K.n → j < K.n → K.lam.getD i 0 + K.lam.getD j 0 ≠ 0) :
    ∃ h c p r, mulHs K dz = .ok h ∧ dsFromDzOffset K d = .ok c ∧
      mulW K false y dz 1 0 = .ok p ∧
      mulWinv K true y' (Vec.axpby (-1) c (-1) h) 1 0 = .ok r ∧
      circOp K.n (lamVec K.n K.lam) (Vec.waxpby 1 p 1 r) = .ok (Vec.negate d) := by
  obtain ⟨_, _, _, hC⟩ := dsFromDzOffset_eq K d hR hl hd
  have hH := mulHs_eq K dz hR hdz
  set Rm := toM K.n (matOf K.n K.R) with hRm
  set Rim := toM K.n (matOf K.n K.Rinv) with hRim
  set DZ := toM K.n (svecToMat dz) with hDZ
  set D := toM K.n (svecToMat d) with hD
  have symDZ : DZ.IsSymm := toM_svecToMat_isSymm K.n dz
  have symD : D.IsSymm := toM_svecToMat_isSymm K.n d
  have symH : (Rm * (Rmᵀ * DZ * Rm) * Rmᵀ).IsSymm := by
    simpa using conj_isSymm Rmᵀ _ (conj_isSymm Rm _ symDZ)
  have symC : (Rm * lamInvM K.lam D * Rmᵀ).IsSymm := by
    simpa using conj_isSymm Rmᵀ _ (lamInvM_isSymm K.lam symD)
  have hsz : (svecM (Rm * lamInvM K.lam D * Rmᵀ)).size
      = (svecM (Rm * (Rmᵀ * DZ * Rm) * Rmᵀ)).size := by rw [size_svecM, size_svecM]
  have hds : (Vec.axpby (-1) (svecM (Rm * lamInvM K.lam D * Rmᵀ)) (-1)
      (svecM (Rm * (Rmᵀ * DZ * Rm) * Rmᵀ))).size = triangularNumber K.n := by
    rw [size_axpby _ _ _ _ hsz, size_svecM]
  have hP := mulWx_ok false K.n K.R y dz 1 0 hR hdz hy
  have hRr := mulWx_ok true K.n K.Rinv y' _ 1 0 hRi hds hy'
  have hpr : (mulWxInner false K.n (matOf K.n K.R) y dz 1 0).size
      = (mulWxInner true K.n (matOf K.n K.Rinv) y' (Vec.axpby (-1)
          (svecM (Rm * lamInvM K.lam D * Rmᵀ)) (-1) (svecM (Rm * (Rmᵀ * DZ * Rm) * Rmᵀ))) 1 0).size := by
    rw [size_mulWxInner, size_mulWxInner]
  refine ⟨_, _, _, _, hH, hC, hP, hRr, ?_⟩
  rw [circOp_eq _ _ _ (size_lamVec _ _) (by rw [size_waxpby _ _ _ _ hpr, size_mulWxInner]),
    toM_svecToMat_lamVec, toM_svecToMat_waxpby _ _ _ _ _ hpr, toM_mulWxInner, toM_mulWxInner,
    toM_svecToMat_axpby _ _ _ _ _ hsz, toM_svecToMat_svecM _ symC, toM_svecToMat_svecM _ symH]
  congr 1
  rw [← svecM_toM_svecToMat K.n (Vec.negate d) (by rw [size_negate, hd]), toM_svecToMat_negate]
  congr 1
  have key := psd_matrix_step Rm Rim K.lam D DZ hinv hne
  unfold jordanM at key
  rw [← key]
  simp only [shapeM, Bool.false_eq_true, if_false, if_true, Matrix.transpose_transpose, one_smul,
    neg_smul, neg_add_rev]
  congr 3

theorem jordanM_isSymm {n : Nat} {A B : Matrix (Fin n) (Fin n) ℝ} (hA : A.IsSymm) (hB : B.IsSymm) :
    (jordanM A B).IsSymm := by
  unfold jordanM Matrix.IsSymm
  rw [Matrix.transpose_smul, Matrix.transpose_add, Matrix.transpose_mul, Matrix.transpose_mul,
    hA.eq, hB.eq, add_comm]

/-- **PSD, the combined step**: `rhs.s = d = 1·shift + 1·affine_ds` with
`(shift, step_z, step_s) = combined_ds_shift(Δzᵃ, Δsᵃ, σμ)` and `affine_ds = λ∘λ`; then, for
every `Δz`, the `Δs` of `DefaultKKTSystem::solve` satisfies `λ ∘ (WΔz + W⁻ᵀΔs) = −d`, and
`mat(d) = (W⁻ᵀΔsᵃ)∘(WΔzᵃ) − σμ·I + Λ²`. -/
theorem psd_combined_step (K : Cone ℝ) (dza dsa dz y y' : Array ℝ) (σμ : ℝ)
    (hR : K.R.size = K.n * K.n) (hRi : K.Rinv.size = K.n * K.n) (hl : K.lam.size = K.n)
    (hza : dza.size = triangularNumber K.n) (hsa : dsa.size = triangularNumber K.n)
    (hdz : dz.size = triangularNumber K.n)
    (hy : y.size = triangularNumber K.n) (hy' : y'.size = triangularNumber K.n)
    (hinv : toM K.n (matOf K.n K.R) * toM K.n (matOf K.n K.Rinv) = 1)
    (hne : ∀ i j, i < K.n → j < K.n → K.lam.getD i 0 + K.lam.getD j 0 ≠ 0) :
    ∃ sh wz ws aff h c p r,
      combinedDsShift K dza dsa σμ = .ok (sh, wz, ws) ∧
      affineDs K (triangularNumber K.n) = .ok aff ∧
      circOp K.n (lamVec K.n K.lam) (lamVec K.n K.lam) = .ok aff ∧
      mulHs K dz = .ok h ∧
      dsFromDzOffset K (Vec.axpby 1 sh 1 aff) = .ok c ∧
      mulW K false y dz 1 0 = .ok p ∧
      mulWinv K true y' (Vec.axpby (-1) c (-1) h) 1 0 = .ok r ∧
      circOp K.n (lamVec K.n K.lam) (Vec.waxpby 1 p 1 r)
        = .ok (Vec.negate (Vec.axpby 1 sh 1 aff)) ∧
      toM K.n (svecToMat (Vec.axpby 1 sh 1 aff))
        = jordanM (toM K.n (matOf K.n K.Rinv) * toM K.n (svecToMat dsa) * (toM K.n (matOf K.n K.Rinv))ᵀ)
            ((toM K.n (matOf K.n K.R))ᵀ * toM K.n (svecToMat dza) * toM K.n (matOf K.n K.R))
          - σμ • (1 : Matrix (Fin K.n) (Fin K.n) ℝ)
          + Matrix.diagonal (fun i : Fin K.n => K.lam.getD i 0)
            * Matrix.diagonal (fun i : Fin K.n => K.lam.getD i 0) := by
  obtain ⟨wz, ws, cz, _, _, hwz, hws, hcz, hsh⟩ := combinedDsShift_eq K dza dsa σμ hR hRi hza hsa
  have haff : affineDs K (triangularNumber K.n) = circOp K.n (lamVec K.n K.lam) (lamVec K.n K.lam) :=
    affineDs_eq K hl
  have hll := circOp_eq K.n (lamVec K.n K.lam) (lamVec K.n K.lam) (size_lamVec _ _) (size_lamVec _ _)
  rw [toM_svecToMat_lamVec] at hll
  set Λ := Matrix.diagonal (fun i : Fin K.n => K.lam.getD i 0) with hΛ
  set sh := (packed K.n fun r c' => cz.getD (triangularNumber c' + r) 0
    + if r = c' then -σμ else 0).toArray with hshd
  set aff := svecM ((1 / 2 : ℝ) • (Λ * Λ + Λ * Λ)) with haffd
  have ssz : sh.size = aff.size := by rw [hshd, size_packed, size_svecM]
  have hd : (Vec.axpby 1 sh 1 aff).size = triangularNumber K.n := by
    rw [size_axpby _ _ _ _ ssz, size_svecM]
  obtain ⟨h, c, p, r, e1, e2, e3, e4, e5⟩ :=
    psd_step_general K (Vec.axpby 1 sh 1 aff) dz y y' hR hRi hl hd hdz hy hy' hinv hne
  refine ⟨sh, wz, ws, aff, h, c, p, r, hsh, haff.trans hll, hll, e1, e2, e3, e4, e5, ?_⟩
  -- the matrix of `d`
  have symWZ : ((toM K.n (matOf K.n K.R))ᵀ * toM K.n (svecToMat dza)
      * toM K.n (matOf K.n K.R)).IsSymm := conj_isSymm _ _ (toM_svecToMat_isSymm K.n dza)
  have symWS : (toM K.n (matOf K.n K.Rinv) * toM K.n (svecToMat dsa)
      * (toM K.n (matOf K.n K.Rinv))ᵀ).IsSymm := by
    simpa using conj_isSymm (toM K.n (matOf K.n K.Rinv))ᵀ _ (toM_svecToMat_isSymm K.n dsa)
  have hcz' := hcz.symm.trans (circOp_eq K.n ws wz (by rw [hws, size_svecM]) (by rw [hwz, size_svecM]))
  injection hcz' with hcz'
  have symΛ : Λ.IsSymm := Matrix.isSymm_diagonal _
  have j1 := toM_svecToMat_svecM _ (jordanM_isSymm symWS symWZ)
  have j2 := toM_svecToMat_svecM _ (jordanM_isSymm symΛ symΛ)
  unfold jordanM at j1 j2
  rw [toM_svecToMat_axpby _ _ _ _ _ ssz, hshd, toM_svecToMat_unitShift, hcz', hws, hwz,
    toM_svecToMat_svecM _ symWS, toM_svecToMat_svecM _ symWZ, j1, haffd, j2]
  simp only [jordanM, one_smul, neg_smul]
  rw [← two_smul ℝ (Λ * Λ), smul_smul]
  norm_num
  abel

end Clarabel.PsdTri
