/-
  Round 4 (composition) — the INTERFACE between the pieces of the end-to-end theorems on the
  whole-solver model (`ClarabelModel/Solver/*.lean`):

  * `SizedSt S`     : the size part of the state invariant (C04's `Shapes` without the linear
                      solver object): every vector of the solver state has the problem's
                      dimension, the cone objects are sized consistently and cover the `m` rows.
  * `StepHyp st G`  : `G` (a predicate on the iterate, indexed by the cone layout) is preserved by
                      one ACCEPTED step of `solve()` — the step length comes from the model's own
                      `calcStepLength … .combined`, passed `strategy_checkpoint_small_step`, and the
                      new iterate from the model's own `addStep`; the direction is the one the
                      model's own `kktNumerics` computed.
  * `InitHyp st G`  : `default_start()` establishes `G`.
  * `SRec d p`      : the pass record `p` was written by a pass on the data `d` from a SIZED state:
                      `p.info` is what `topNumerics` (`residuals.update`, `info.update`) assigned
                      for the iterate `p.vars` (C03's `RecOK` + the sizes its composition with the
                      chain on the user's data needs).

  `Lemmas/SolverFullTraj.lean` proves the trajectory induction (every recorded iterate of a
  `solve()` satisfies `G` and is `SRec`); `Lemmas/StepKBridge.lean` instantiates `G` with the
  interior of the cone (C07's StepK theorems); `Lemmas/SolverFullZero.lean` with `s = 0` on the
  zero-cone rows.  All definitions are structural (any scalar type).
-/
import ClarabelProofs.Lemmas.SolverModelNoPanicDefs
import ClarabelProofs.Lemmas.SolverFullNew

namespace Clarabel.Solver
open Clarabel Info Residuals

set_option linter.unusedSectionVars false
set_option linter.unusedVariables false

variable {α : Type}

section
variable [Add α] [Sub α] [Mul α] [Div α] [Neg α] [OfNat α 0] [OfNat α 1] [OfNat α 2]
  [OfNat α 100] [OfNat α 1000] [LT α] [DecidableLT α] [LE α] [DecidableLE α] [BEq α] [FloatLike α]

/-- the size part of the state invariant of `solve()` -/
structure SizedSt (S : SolverSt α) : Prop where
  vars : VarsSized S.data.n S.data.m S.variables
  resid : ResidSized S.data.n S.data.m S.residuals
  stepLhs : VarsSized S.data.n S.data.m S.stepLhs
  stepRhs : VarsSized S.data.n S.data.m S.stepRhs
  prevVars : VarsSized S.data.n S.data.m S.prevVars
  numel : numelAll S.cones = S.data.m
  conesOk : ConesOk S.cones

/-- the cone layout (kinds and dimensions) of the solver state -/
def layout (S : SolverSt α) : List Composite.Spec := S.cones.map ConeSt.compSpec

/-- `G` is preserved by one accepted step of `solve()`.  `S` is the solver state after the top of
the pass and `scale_cones` (so `S.cones` are the freshly scaled cones, `S.variables` the current
iterate); `k` is what the KKT stage returned. -/
def StepHyp (st : Settings α) (G : List Composite.Spec → Vars α → Prop) : Prop :=
  ∀ (S : SolverSt α) (mu : α) (iter : Nat) (k : KktOut α) (a : α) (v' : Vars α),
    SizedSt S → G (layout S) S.variables →
    kktNumerics st S S.cones mu iter = .ok k → k.ok = true → SizedSt k.S →
    k.S.variables = S.variables → k.S.cones = S.cones →
    calcStepLength k.S.variables k.S.stepLhs S.cones st.maxValue st.maxStepFraction .combined = .ok a →
    ¬ a ≤ fmax 0 st.minTerminateStepLength →
    addStep k.S.variables k.S.stepLhs a = .ok v' →
    G (layout S) v'

/-- `default_start()` establishes `G` -/
def InitHyp (st : Settings α) (G : List Composite.Spec → Vars α → Prop) : Prop :=
  ∀ (S S0 : SolverSt α), SizedSt S → S.defaultStart st = .ok S0 → G (layout S0) S0.variables

theorem StepHyp.and {st : Settings α} {G1 G2 : List Composite.Spec → Vars α → Prop}
    (h1 : StepHyp st G1) (h2 : StepHyp st G2) : StepHyp st (fun l v => G1 l v ∧ G2 l v) :=
  fun S mu iter k a v' hS hG hk hok hkS e1 e2 ha hs hv =>
    ⟨h1 S mu iter k a v' hS hG.1 hk hok hkS e1 e2 ha hs hv,
     h2 S mu iter k a v' hS hG.2 hk hok hkS e1 e2 ha hs hv⟩

theorem InitHyp.and {st : Settings α} {G1 G2 : List Composite.Spec → Vars α → Prop}
    (h1 : InitHyp st G1) (h2 : InitHyp st G2) : InitHyp st (fun l v => G1 l v ∧ G2 l v) :=
  fun S S0 hS h => ⟨h1 S S0 hS h, h2 S S0 hS h⟩

/-- the record `p` was written by a pass of a loop on the data `d`, from a sized state -/
def SRec (d : ProblemData α) (p : PassRec α) : Prop :=
  ∃ (S0 : SolverSt α) (iter : Nat) (res : Resid α) (mu : α),
    S0.data = d ∧ S0.variables = p.vars ∧ SizedSt S0 ∧ topNumerics S0 iter = .ok (res, mu, p.info)
      ∧ p.dotBz = res.dot_bz ∧ p.dotQx = res.dot_qx

/-- `s = 0` on the rows of every zero cone (`s ∈ K` for `K = {0}`), on the flat vector cut along
the cone layout -/
def ZeroRows : List Composite.Spec → List α → Prop
  | [], _ => True
  | .zero n :: cs, s => (∀ x ∈ s.take n, x = 0) ∧ ZeroRows cs (s.drop n)
  | c :: cs, s => ZeroRows cs (s.drop c.numel)

/-- the iterate has `s = 0` on the zero-cone rows -/
def ZeroS (l : List Composite.Spec) (v : Vars α) : Prop := ZeroRows l v.s.toList

/-- the solver object `DefaultSolver::new` returns is sized -/
theorem SizedSt.of_anatomy {P : Csc α} {q : Array α} {A : Csc α} {b : Array α} {cones : List (ConeT α)}
    {st : Settings α} {S : Solver α} {d0 : ProblemData α} (h : NewAnatomy P q A b cones st S d0) :
    SizedSt S.st := by
  have hv : VarsSized S.st.data.n S.st.data.m (varsNew S.st.data.n S.st.data.m : Vars α) :=
    ⟨Array.size_replicate .., Array.size_replicate .., Array.size_replicate ..⟩
  refine ⟨?_, ?_, ?_, ?_, ?_, ?_, h.conesOk⟩
  · rw [h.variables]; exact hv
  · rw [h.residuals]
    exact ⟨Array.size_replicate .., Array.size_replicate .., Array.size_replicate ..,
      Array.size_replicate .., Array.size_replicate ..⟩
  · rw [h.stepLhs]; exact hv
  · rw [h.stepRhs]; exact hv
  · rw [h.prevVars]; exact hv
  · rw [h.numel, h.m]

theorem SizedSt.of_new {P : Csc α} {q : Array α} {A : Csc α} {b : Array α} {cones : List (ConeT α)}
    {st : Settings α} {perm : Array Nat} {S : Solver α} (h : Solver.new P q A b cones st perm = .ok S) :
    SizedSt S.st :=
  let ⟨_, hA⟩ := solverNew_anatomy h
  SizedSt.of_anatomy hA

/-- sizes travel along `SameShape` -/
theorem SizedSt.of_sameShape {S S' : SolverSt α} (h : SizedSt S) (hs : SameShape S S')
    (hc : ConesOk S'.cones) : SizedSt S' := by
  have hd := hs.data
  refine ⟨?_, ?_, ?_, ?_, ?_, ?_, hc⟩
  · rw [← hd]; exact h.vars.of_shape hs.variables
  · rw [← hd]
    exact ⟨hs.rx ▸ h.resid.rx, hs.rz ▸ h.resid.rz, hs.rx_inf ▸ h.resid.rx_inf, hs.rz_inf ▸ h.resid.rz_inf,
      hs.Px ▸ h.resid.Px⟩
  · rw [← hd]; exact h.stepLhs.of_shape hs.stepLhs
  · rw [← hd]; exact h.stepRhs.of_shape hs.stepRhs
  · rw [← hd]; exact h.prevVars.of_shape hs.prevVars
  · rw [← hd, ← hs.cones.numelAll]; exact h.numel

end

end Clarabel.Solver
