/-
  Clique-graph merge strategy: WHAT `update_strategy` DOES TO THE STRATEGY STATE
  (`CGStrategy.updateStrategy` of `ClarabelModel/Chordal/MergeCG.lean`, Rust
  `src/solver/chordal/merge/clique_graph.rs`), i.e. `UpdateStateSpec` of `ChordalCGSpecs.lean`.

  * the loops of `update_strategy` as `forIn` over lists with named step functions
    (`updateStrategy_eq_forIn`, no hypotheses);
  * `cgu_forIn_setEntry`: a batch of `set_entry`s, entry by entry (from `SetEntrySpec`);
  * `cgu_edges`: the edge matrix after the four batches + `dropzeros`;
  * `cgu_table`: the adjacency table after the insert loop, `remove` and `shift_remove`;
  * `updateStrategy_state : SetEntrySpec → DropzerosSpec → UpdateStateSpec`.
-/
import ClarabelProofs.Lemmas.ChordalCGSpecs
import ClarabelProofs.Lemmas.ChordalCGWeights

namespace Clarabel.Chordal
open Clarabel

/-! ## the loops of `update_strategy` -/

/-- body of `for e in neighbors { new_neighbors.shift_remove(e) }` -/
def cguStepRm (e : Nat) (nn : VSet) : MErr (ForInStep VSet) :=
  pure (ForInStep.yield (nn.shiftRemove e))

/-- body of the loop "recalculate edge values of all of c_1's neighbors" -/
def cguStepA (snode : Array VSet) (c1Ind cRemoved : Nat) (c1 : VSet) (nInd : Nat) (edges : IMat) :
    MErr (ForInStep IMat) :=
  if (nInd != cRemoved) = true then do
    let neighbor ← getE snode nInd "update_strategy"
    let val ← edgeMetric c1 neighbor
    let edges ← edges.setEntry (max c1Ind nInd) (min c1Ind nInd) val
    pure (ForInStep.yield edges)
  else pure (ForInStep.yield edges)

/-- body of the loop "point edges exclusive to removed clique to surviving clique 1" -/
def cguStepB (snode : Array VSet) (c1Ind : Nat) (c1 : VSet) (nInd : Nat) (edges : IMat) :
    MErr (ForInStep IMat) := do
  let neighbor ← getE snode nInd "update_strategy"
  let val ← edgeMetric c1 neighbor
  let edges ← edges.setEntry (max c1Ind nInd) (min c1Ind nInd) val
  pure (ForInStep.yield edges)

/-- body of `for row in c_removed+1..n { edges.set_entry((row, c_removed), 0) }` -/
def cguStepC (cRemoved : Nat) (row : Nat) (edges : IMat) : MErr (ForInStep IMat) := do
  let edges ← edges.setEntry row cRemoved 0
  pure (ForInStep.yield edges)

/-- body of `for col in 0..c_removed { edges.set_entry((c_removed, col), 0) }` -/
def cguStepD (cRemoved : Nat) (col : Nat) (edges : IMat) : MErr (ForInStep IMat) := do
  let edges ← edges.setEntry cRemoved col 0
  pure (ForInStep.yield edges)

/-- body of the loop "update adjacency table in a similar manner" -/
def cguStepE (c1Ind : Nat) (newNeighbor : Nat) (tb : HMap VSet) : MErr (ForInStep (HMap VSet)) := do
  let a1 ← tb.getP c1Ind "update_strategy"
  let an ← (tb.insert c1Ind (a1.insert newNeighbor)).getP newNeighbor "update_strategy"
  pure (ForInStep.yield ((tb.insert c1Ind (a1.insert newNeighbor)).insert newNeighbor
    (an.insert c1Ind)))

/-- [S] `update_strategy` (after a merge) with its seven loops as `forIn` over lists (no
hypotheses) -/
theorem updateStrategy_eq_forIn (s : CGStrategy) (t : SuperNodeTree) (c1Ind cRemoved : Nat) :
    s.updateStrategy t (c1Ind, cRemoved) true = (do
      let c1 ← getE t.snode c1Ind "update_strategy"
      let neighbors ← s.adjacencyTable.getP c1Ind "update_strategy"
      let newNeighbors ← s.adjacencyTable.getP cRemoved "update_strategy"
      let nn ← forIn neighbors.toList newNeighbors cguStepRm
      let eA ← forIn neighbors.toList s.edges (cguStepA t.snode c1Ind cRemoved c1)
      let eB ← forIn (nn.shiftRemove c1Ind).toList eA (cguStepB t.snode c1Ind c1)
      let eC ← forIn (List.range' (cRemoved + 1) (s.edges.n - (cRemoved + 1))) eB
        (cguStepC cRemoved)
      let eD ← forIn (List.range' 0 cRemoved) eC (cguStepD cRemoved)
      let edges ← eD.dropzeros
      let tb ← forIn (nn.shiftRemove c1Ind).toList s.adjacencyTable (cguStepE c1Ind)
      pure { s with edges := edges,
                    adjacencyTable := (tb.remove cRemoved).mapValues
                      (fun set => set.shiftRemove cRemoved) }) := by
  unfold CGStrategy.updateStrategy
  simp only [Std.Legacy.Range.forIn_eq_forIn_range', Std.Legacy.Range.size, Nat.sub_zero,
    Nat.add_sub_cancel, Nat.div_one, Bool.not_true, Bool.false_eq_true, if_false,
    ← Array.forIn_toList]
  rfl

/-! ## a batch of `set_entry`s -/

/-- [S] A BATCH OF `set_entry`s, ENTRY BY ENTRY: a loop whose pass `x` writes `val` at
`(row x, col x)` when `keep x` (and does nothing otherwise), all positions strictly lower and in
range.  No panic, `Good` and the dimensions are kept; an addressed entry holds `val` (a `0` only
over an entry that was there), every other entry is untouched. -/
theorem cgu_forIn_setEntry (hS : SetEntrySpec) {α : Type} (f : α → IMat → MErr (ForInStep IMat))
    (keep : α → Prop) (row col : α → Nat) (val : Nat → Nat → Int) (N : Nat) :
    ∀ (l : List α) (E : IMat), E.Good → E.n = N →
      (∀ x ∈ l, keep x → col x < row x ∧ row x < N) →
      (∀ x ∈ l, keep x → ∀ E' : IMat, f x E' =
        (E'.setEntry (row x) (col x) (val (row x) (col x))).bind
          (fun e => .ok (ForInStep.yield e))) →
      (∀ x ∈ l, ¬ keep x → ∀ E' : IMat, f x E' = .ok (ForInStep.yield E')) →
      ∃ E', forIn l E f = .ok E' ∧ E'.Good ∧ E'.m = E.m ∧ E'.n = N ∧
        (∀ r c, (∃ x ∈ l, keep x ∧ row x = r ∧ col x = c) →
          E'.entry r c = if val r c = 0 then (E.entry r c).map (fun _ => (0 : Int))
            else some (val r c)) ∧
        (∀ r c, (¬ ∃ x ∈ l, keep x ∧ row x = r ∧ col x = c) → E'.entry r c = E.entry r c) := by
  intro l
  induction l with
  | nil =>
    intro E hE hn _ _ _
    refine ⟨E, rfl, hE, rfl, hn, ?_, fun _ _ _ => rfl⟩
    rintro r c ⟨x, hx, _⟩
    simp at hx
  | cons x l ih =>
    intro E hE hn hpos hk hnk
    have hpos' : ∀ y ∈ l, keep y → col y < row y ∧ row y < N :=
      fun y hy => hpos y (List.mem_cons_of_mem _ hy)
    have hk' := fun y (hy : y ∈ l) => hk y (List.mem_cons_of_mem _ hy)
    have hnk' := fun y (hy : y ∈ l) => hnk y (List.mem_cons_of_mem _ hy)
    by_cases hx : keep x
    · obtain ⟨h1, h2⟩ := hpos x (List.mem_cons_self) hx
      obtain ⟨E1, e1, g1, m1, n1, ent1⟩ := hS E hE (row x) (col x) h1 (by omega)
        (val (row x) (col x))
      obtain ⟨E', e', g', m', n', hit', miss'⟩ := ih E1 g1 (by omega) hpos' hk' hnk'
      refine ⟨E', ?_, g', by omega, n', ?_, ?_⟩
      · rw [List.forIn_cons, hk x (List.mem_cons_self) hx E, e1]
        exact e'
      · rintro r c ⟨y, hy, hky, hr, hc⟩
        by_cases hl : ∃ y ∈ l, keep y ∧ row y = r ∧ col y = c
        · rw [hit' r c hl, ent1 r c]
          by_cases hv : val r c = 0
          · simp only [hv, if_true]
            by_cases hrc : r = row x ∧ c = col x
            · obtain ⟨rfl, rfl⟩ := hrc
              simp only [hv, and_self, if_true]
              cases E.entry (row x) (col x) <;> rfl
            · simp only [hrc, if_false]
          · simp only [hv, if_false]
        · have hyx : y = x := by
            rcases List.mem_cons.mp hy with h | h
            · exact h
            · exact absurd ⟨y, h, hky, hr, hc⟩ hl
          subst hyx
          subst hr; subst hc
          rw [miss' _ _ hl, ent1]
          simp
      · intro r c hno
        have hno' : ¬ ∃ y ∈ l, keep y ∧ row y = r ∧ col y = c := by
          rintro ⟨y, hy, h⟩
          exact hno ⟨y, List.mem_cons_of_mem _ hy, h⟩
        have hrc : ¬ (r = row x ∧ c = col x) := by
          rintro ⟨rfl, rfl⟩
          exact hno ⟨x, List.mem_cons_self, hx, rfl, rfl⟩
        rw [miss' r c hno', ent1 r c, if_neg hrc]
    · obtain ⟨E', e', g', m', n', hit', miss'⟩ := ih E hE hn hpos' hk' hnk'
      refine ⟨E', ?_, g', m', n', ?_, ?_⟩
      · rw [List.forIn_cons, hnk x (List.mem_cons_self) hx E]
        exact e'
      · rintro r c ⟨y, hy, hky, hr, hc⟩
        apply hit' r c
        rcases List.mem_cons.mp hy with h | h
        · subst h; exact absurd hky hx
        · exact ⟨y, h, hky, hr, hc⟩
      · intro r c hno
        apply miss' r c
        rintro ⟨y, hy, h⟩
        exact hno ⟨y, List.mem_cons_of_mem _ hy, h⟩

/-! ## the edge matrix after the four batches and `dropzeros` -/

/-- the weight `update_strategy` writes at `(r, c)` (one of `r`, `c` is `c1Ind`) -/
def cguW (snode : Array VSet) (c1Ind : Nat) (c1 : VSet) (r c : Nat) : Int :=
  edgeMetricVal c1 (snode.getD (if r = c1Ind then c else r) #[])

/-- [S] the other end of the position `(max c1 n, min c1 n)` -/
theorem cgu_other {c1 n : Nat} (h : n ≠ c1) :
    (if max c1 n = c1 then min c1 n else max c1 n) = n := by
  have := h
  split <;> omega

/-- [S] the value written at `(max c1 n, min c1 n)` -/
theorem cguW_at (snode : Array VSet) (c1Ind : Nat) (c1 : VSet) {n : Nat} (h : n ≠ c1Ind) :
    cguW snode c1Ind c1 (max c1Ind n) (min c1Ind n) = edgeMetricVal c1 (snode.getD n #[]) := by
  unfold cguW
  rw [cgu_other h]

/-- [S] a zeroed entry does not survive `dropzeros` -/
theorem cgu_filter_map_zero (o : Option Int) :
    (o.map (fun _ => (0 : Int))).filter (fun v => v != 0) = none := by
  cases o <;> simp

/-- [S] a non-zero entry survives `dropzeros` -/
theorem cgu_filter_of_nz {o : Option Int} (h : ∀ v, o = some v → v ≠ 0) :
    o.filter (fun v => v != 0) = o := by
  cases o with
  | none => rfl
  | some v => simp [h v rfl]

/-- [S] THE EDGE MATRIX AFTER `update_strategy`: the four batches of `set_entry` and `dropzeros`
do not panic; the result is `Good`, `N × N`, without stored zero; row and column `cRemoved` are
empty, the positions `{c1Ind, n}` for the neighbours `n` (of `c1Ind`, then the new ones) hold the
fresh non-zero weight, everything else is untouched. -/
theorem cgu_edges (hS : SetEntrySpec) (hD : DropzerosSpec) {N : Nat} {E0 : IMat}
    (hgood : E0.Good) (hn : E0.n = N) (hm : E0.m = N)
    (hlt : ∀ r c, (E0.entry r c).isSome = true → c < r ∧ r < N)
    (hnz : ∀ r c v, E0.entry r c = some v → v ≠ 0)
    (snode : Array VSet) {c1 cr : Nat} (c1set : VSet) (nb nn : List Nat)
    (hcr : cr < N) (hne : c1 ≠ cr) (hc1set : c1set ≠ #[])
    (hnb : ∀ n ∈ nb, n ≠ cr → n ≠ c1 ∧ n < N ∧ n < snode.size ∧ snode.getD n #[] ≠ #[])
    (hnn : ∀ n ∈ nn, n ≠ cr ∧ n ≠ c1 ∧ n < N ∧ n < snode.size ∧ snode.getD n #[] ≠ #[])
    (hc1 : c1 < N) :
    ∃ eA eB eC eD F, forIn nb E0 (cguStepA snode c1 cr c1set) = .ok eA ∧
      forIn nn eA (cguStepB snode c1 c1set) = .ok eB ∧
      forIn (List.range' (cr + 1) (N - (cr + 1))) eB (cguStepC cr) = .ok eC ∧
      forIn (List.range' 0 cr) eC (cguStepD cr) = .ok eD ∧
      eD.dropzeros = .ok F ∧ F.Good ∧ F.m = N ∧ F.n = N ∧
      (∀ r c v, F.entry r c = some v → v ≠ 0) ∧
      (∀ r c, (r = cr ∨ c = cr) → F.entry r c = none) ∧
      (∀ r c, r ≠ cr → c ≠ cr →
        (∃ n, (n ∈ nb ∨ n ∈ nn) ∧ n ≠ cr ∧ max c1 n = r ∧ min c1 n = c) →
        ∃ v, F.entry r c = some v) ∧
      (∀ r c, r ≠ cr → c ≠ cr →
        (¬ ∃ n, (n ∈ nb ∨ n ∈ nn) ∧ n ≠ cr ∧ max c1 n = r ∧ min c1 n = c) →
        F.entry r c = E0.entry r c) := by
  -- batch A
  obtain ⟨eA, hA, gA, mA, nA, hitA, missA⟩ :=
    cgu_forIn_setEntry hS (cguStepA snode c1 cr c1set) (fun n => n ≠ cr)
      (fun n => max c1 n) (fun n => min c1 n) (cguW snode c1 c1set) N nb E0 hgood hn
      (by
        intro n hx hk
        obtain ⟨h1, h2, _, _⟩ := hnb n hx hk
        constructor <;> omega)
      (by
        intro n hx hk E'
        obtain ⟨h1, h2, h3, _⟩ := hnb n hx hk
        have hb : (n != cr) = true := by simpa using hk
        simp only [cguStepA, hb, if_true, Kr.getE_ok snode n _ #[] h3, edgeMetric_eq, bind,
          Except.bind, pure, Except.pure, cguW_at snode c1 c1set h1])
      (by
        intro n hx hk E'
        have hb : (n != cr) = false := by simpa using hk
        simp only [cguStepA, hb, Bool.false_eq_true, if_false, pure, Except.pure])
  -- batch B
  obtain ⟨eB, hB, gB, mB, nB, hitB, missB⟩ :=
    cgu_forIn_setEntry hS (cguStepB snode c1 c1set) (fun _ => True)
      (fun n => max c1 n) (fun n => min c1 n) (cguW snode c1 c1set) N nn eA gA nA
      (by
        intro n hx _
        obtain ⟨_, h1, h2, _, _⟩ := hnn n hx
        constructor <;> omega)
      (by
        intro n hx _ E'
        obtain ⟨_, h1, h2, h3, _⟩ := hnn n hx
        simp only [cguStepB, Kr.getE_ok snode n _ #[] h3, edgeMetric_eq, bind,
          Except.bind, pure, Except.pure, cguW_at snode c1 c1set h1])
      (by intro n _ hk; exact absurd trivial hk)
  -- batch C
  obtain ⟨eC, hC, gC, mC, nC, hitC, missC⟩ :=
    cgu_forIn_setEntry hS (cguStepC cr) (fun _ => True)
      (fun row => row) (fun _ => cr) (fun _ _ => 0) N (List.range' (cr + 1) (N - (cr + 1))) eB gB nB
      (by
        intro row hx _
        simp only [List.mem_range'_1] at hx
        constructor <;> omega)
      (by
        intro row _ _ E'
        simp only [cguStepC, bind, Except.bind, pure, Except.pure])
      (by intro n _ hk; exact absurd trivial hk)
  -- batch D
  obtain ⟨eD, hDD, gD, mD, nD, hitD, missD⟩ :=
    cgu_forIn_setEntry hS (cguStepD cr) (fun _ => True)
      (fun _ => cr) (fun col => col) (fun _ _ => 0) N (List.range' 0 cr) eC gC nC
      (by
        intro col hx _
        simp only [List.mem_range'_1] at hx
        constructor <;> omega)
      (by
        intro col _ _ E'
        simp only [cguStepD, bind, Except.bind, pure, Except.pure])
      (by intro n _ hk; exact absurd trivial hk)
  obtain ⟨F, hF, gF, mF, nF, entF⟩ := hD eD gD
  -- positions outside row / column `cr` are not touched by C and D
  have offCD : ∀ r c, r ≠ cr → c ≠ cr → eD.entry r c = eB.entry r c := by
    intro r c hr hc
    rw [missD r c (by rintro ⟨x, _, _, h, _⟩; exact hr h.symm),
      missC r c (by rintro ⟨x, _, _, _, h⟩; exact hc h.symm)]
  -- A and B never address row / column `cr`
  have offAB : ∀ r c, (r = cr ∨ c = cr) → eB.entry r c = E0.entry r c := by
    intro r c hrc
    rw [missB r c, missA r c]
    · rintro ⟨n, hx, hk, h1, h2⟩
      obtain ⟨h3, _⟩ := hnb n hx hk
      rcases hrc with h | h <;> omega
    · rintro ⟨n, hx, _, h1, h2⟩
      obtain ⟨h0, h3, _⟩ := hnn n hx
      rcases hrc with h | h <;> omega
  -- the weights written by A and B are not zero
  have wnz : ∀ n, (n ∈ nb ∨ n ∈ nn) → n ≠ cr →
      cguW snode c1 c1set (max c1 n) (min c1 n) ≠ 0 := by
    intro n hx hk
    have : n ≠ c1 ∧ snode.getD n #[] ≠ #[] := by
      rcases hx with hx | hx
      · obtain ⟨h1, _, _, h4⟩ := hnb n hx hk; exact ⟨h1, h4⟩
      · obtain ⟨_, h1, _, _, h4⟩ := hnn n hx; exact ⟨h1, h4⟩
    rw [cguW_at snode c1 c1set this.1]
    exact edgeMetricVal_ne_zero hc1set this.2
  refine ⟨eA, eB, eC, eD, F, hA, hB, hC, hDD, hF, gF, by omega, by omega, ?_, ?_, ?_, ?_⟩
  · intro r c v hv
    rw [entF r c] at hv
    have := (Option.filter_eq_some_iff.mp hv).2
    simpa using this
  · intro r c hrc
    rw [entF r c]
    by_cases hDhit : ∃ x ∈ List.range' 0 cr, True ∧ cr = r ∧ x = c
    · rw [hitD r c hDhit]
      simp only [if_true]
      exact cgu_filter_map_zero _
    · rw [missD r c hDhit]
      by_cases hChit : ∃ x ∈ List.range' (cr + 1) (N - (cr + 1)), True ∧ x = r ∧ cr = c
      · rw [hitC r c hChit]
        simp only [if_true]
        exact cgu_filter_map_zero _
      · rw [missC r c hChit, offAB r c hrc]
        have : E0.entry r c = none := by
          cases he : E0.entry r c with
          | none => rfl
          | some v =>
            exfalso
            obtain ⟨h1, h2⟩ := hlt r c (by rw [he]; rfl)
            rcases hrc with h | h
            · subst h
              exact hDhit ⟨c, by simp only [List.mem_range'_1]; omega, trivial, rfl, rfl⟩
            · subst h
              exact hChit ⟨r, by simp only [List.mem_range'_1]; omega, trivial, rfl, rfl⟩
        rw [this]; rfl
  · rintro r c hr hc ⟨n, hx, hk, h1, h2⟩
    rw [entF r c, offCD r c hr hc]
    have hw := wnz n hx hk
    rw [h1, h2] at hw
    by_cases hBhit : ∃ x ∈ nn, True ∧ max c1 x = r ∧ min c1 x = c
    · rw [hitB r c hBhit, if_neg hw]
      exact ⟨_, Option.filter_eq_some_iff.mpr ⟨rfl, by simpa using hw⟩⟩
    · rw [missB r c hBhit]
      have hAhit : ∃ x ∈ nb, x ≠ cr ∧ max c1 x = r ∧ min c1 x = c := by
        rcases hx with hx | hx
        · exact ⟨n, hx, hk, h1, h2⟩
        · exact absurd ⟨n, hx, trivial, h1, h2⟩ hBhit
      rw [hitA r c hAhit, if_neg hw]
      exact ⟨_, Option.filter_eq_some_iff.mpr ⟨rfl, by simpa using hw⟩⟩
  · intro r c hr hc hno
    rw [entF r c, offCD r c hr hc,
      missB r c (by rintro ⟨n, hx, _, h1, h2⟩; exact hno ⟨n, .inr hx, (hnn n hx).1, h1, h2⟩),
      missA r c (by rintro ⟨n, hx, hk, h1, h2⟩; exact hno ⟨n, .inl hx, hk, h1, h2⟩)]
    exact cgu_filter_of_nz (hnz r c)

/-! ## the adjacency table -/

/-- [S] `get` after `insert` -/
theorem cgu_get_insert {β : Type} (h : HMap β) (k j : Nat) (v : β) :
    (h.insert k v).get? j = if j = k then some v else h.get? j := by
  unfold HMap.insert HMap.get?
  by_cases hk : k < h.slots.size
  · simp only [hk, if_true, Array.getElem?_setIfInBounds]
    by_cases hj : j = k
    · subst hj; simp
    · have : ¬ k = j := fun e => hj e.symm
      simp [hj, this]
  · simp only [hk, if_false]
    by_cases hj : j = k
    · subst hj
      have : (h.slots ++ Array.replicate (j - h.slots.size) none).size = j := by
        simp; omega
      rw [Array.getElem?_push, this]
      simp
    · simp only [hj, if_false]
      rw [Array.getElem?_push]
      have hs : (h.slots ++ Array.replicate (k - h.slots.size) none).size = k := by
        simp; omega
      rw [hs, if_neg hj, Array.getElem?_append]
      by_cases hjs : j < h.slots.size
      · simp [hjs]
      · simp only [hjs, if_false, Array.getElem?_eq_none (show h.slots.size ≤ j by omega)]
        by_cases hjk : j - h.slots.size < k - h.slots.size
        · simp [hjk]
        · simp [hjk]

/-- [S] `get` after `remove` -/
theorem cgu_get_remove {β : Type} (h : HMap β) (k j : Nat) :
    (h.remove k).get? j = if j = k then none else h.get? j := by
  unfold HMap.remove HMap.get?
  simp only [Array.getElem?_setIfInBounds]
  by_cases hj : j = k
  · subst hj
    by_cases hk : j < h.slots.size <;> simp [hk]
  · have : ¬ k = j := fun e => hj e.symm
    simp [hj, this]

/-- [S] `get` after `values_mut` -/
theorem cgu_get_mapValues {β : Type} (h : HMap β) (f : β → β) (j : Nat) :
    (h.mapValues f).get? j = (h.get? j).map f := by
  unfold HMap.mapValues HMap.get?
  simp only [Array.getElem?_map]
  cases h.slots[j]? with
  | none => rfl
  | some o => cases o <;> rfl

/-- [S] `contains_key` after `insert` -/
theorem cgu_containsKey_insert {β : Type} (h : HMap β) (k j : Nat) (v : β) :
    (h.insert k v).containsKey j = if j = k then true else h.containsKey j := by
  unfold HMap.containsKey
  rw [cgu_get_insert]
  split <;> rfl

/-- [S] the adjacency set after `insert` -/
theorem cgu_nbrs_insert (h : HMap VSet) (k j : Nat) (v : VSet) :
    (h.insert k v).nbrs j = if j = k then v else h.nbrs j := by
  unfold HMap.nbrs
  rw [cgu_get_insert]
  split <;> rfl

/-- [S] looking up a key that is there -/
theorem cgu_getP_ok (h : HMap VSet) (k : Nat) (site : String) (hk : h.containsKey k = true) :
    h.getP k site = .ok (h.nbrs k) := by
  unfold HMap.containsKey at hk
  unfold HMap.getP HMap.nbrs
  cases hg : h.get? k with
  | none => rw [hg] at hk; simp at hk
  | some v => rfl

/-- [S] the loop `for e in neighbors { new_neighbors.shift_remove(e) }` -/
theorem cgu_forIn_rm : ∀ (l : List Nat) (nn : VSet), ∃ nn', forIn l nn cguStepRm = .ok nn' ∧
    (∀ x, x ∈ nn'.toList ↔ x ∈ nn.toList ∧ x ∉ l) := by
  intro l
  induction l with
  | nil => intro nn; exact ⟨nn, rfl, by simp⟩
  | cons e l ih =>
    intro nn
    obtain ⟨nn', h1, h2⟩ := ih (nn.shiftRemove e)
    refine ⟨nn', ?_, ?_⟩
    · rw [List.forIn_cons]
      exact h1
    · intro x
      rw [h2 x, VSet.mem_shiftRemove, List.mem_cons]
      constructor
      · rintro ⟨⟨a, b⟩, c⟩
        exact ⟨a, fun h => h.elim b c⟩
      · rintro ⟨a, b⟩
        exact ⟨⟨a, fun h => b (.inl h)⟩, fun h => b (.inr h)⟩

/-- [S] one pass of the adjacency-table loop: `new_neighbor` and `c_1` become neighbours -/
theorem cgu_stepE_ok (c1 n : Nat) (tb : HMap VSet) (h1 : tb.containsKey c1 = true)
    (hn : tb.containsKey n = true) (hnd : ∀ a, (tb.nbrs a).toList.Nodup) :
    ∃ tb2, cguStepE c1 n tb = .ok (ForInStep.yield tb2) ∧
      (∀ a, tb2.containsKey a = tb.containsKey a) ∧
      (∀ a b, b ∈ (tb2.nbrs a).toList ↔
        (b ∈ (tb.nbrs a).toList ∨ (a = c1 ∧ b = n) ∨ (b = c1 ∧ a = n))) ∧
      (∀ a, (tb2.nbrs a).toList.Nodup) := by
  have hn1 : (tb.insert c1 ((tb.nbrs c1).insert n)).containsKey n = true := by
    rw [cgu_containsKey_insert]; split
    · rfl
    · exact hn
  refine ⟨(tb.insert c1 ((tb.nbrs c1).insert n)).insert n
    (((tb.insert c1 ((tb.nbrs c1).insert n)).nbrs n).insert c1), ?_, ?_, ?_, ?_⟩
  · simp only [cguStepE, cgu_getP_ok tb c1 _ h1, cgu_getP_ok _ n _ hn1, bind, Except.bind, pure,
      Except.pure]
  · intro a
    rw [cgu_containsKey_insert, cgu_containsKey_insert]
    by_cases e1 : a = n
    · subst e1; simp [hn]
    · by_cases e2 : a = c1
      · subst e2; simp [h1]
      · simp [e1, e2]
  · intro a b
    simp only [cgu_nbrs_insert]
    split <;> split <;> (try simp only [VSet.mem_insert]) <;> grind
  · intro a
    have hnd1 : ∀ a, ((tb.insert c1 ((tb.nbrs c1).insert n)).nbrs a).toList.Nodup := by
      intro a
      rw [cgu_nbrs_insert]
      split
      · exact VSet.nodup_insert _ _ (hnd c1)
      · exact hnd a
    rw [cgu_nbrs_insert]
    split
    · exact VSet.nodup_insert _ _ (hnd1 n)
    · exact hnd1 a

/-- [S] THE ADJACENCY-TABLE LOOP: every new neighbour becomes a neighbour of `c_1` and vice versa;
no panic, the keys stay, the sets stay duplicate-free -/
theorem cgu_forIn_stepE (c1 : Nat) : ∀ (l : List Nat) (tb : HMap VSet),
    tb.containsKey c1 = true → (∀ n ∈ l, tb.containsKey n = true) →
    (∀ a, (tb.nbrs a).toList.Nodup) →
    ∃ tb', forIn l tb (cguStepE c1) = .ok tb' ∧
      (∀ a, tb'.containsKey a = tb.containsKey a) ∧
      (∀ a b, b ∈ (tb'.nbrs a).toList ↔
        (b ∈ (tb.nbrs a).toList ∨ (a = c1 ∧ b ∈ l) ∨ (b = c1 ∧ a ∈ l))) ∧
      (∀ a, (tb'.nbrs a).toList.Nodup) := by
  intro l
  induction l with
  | nil =>
    intro tb _ _ hnd
    exact ⟨tb, rfl, fun _ => rfl, by simp, hnd⟩
  | cons n l ih =>
    intro tb h1 hl hnd
    obtain ⟨tb2, e2, k2, m2, nd2⟩ := cgu_stepE_ok c1 n tb h1 (hl n List.mem_cons_self) hnd
    obtain ⟨tb', e', k', m', nd'⟩ := ih tb2 (by rw [k2]; exact h1)
      (fun x hx => by rw [k2]; exact hl x (List.mem_cons_of_mem _ hx)) nd2
    refine ⟨tb', ?_, fun a => (k' a).trans (k2 a), ?_, nd'⟩
    · rw [List.forIn_cons, e2]
      exact e'
    · intro a b
      rw [m' a b, m2 a b]
      simp only [List.mem_cons]
      constructor
      · rintro ((h | ⟨h, h'⟩ | ⟨h, h'⟩) | ⟨h, h'⟩ | ⟨h, h'⟩)
        · exact .inl h
        · exact .inr (.inl ⟨h, .inl h'⟩)
        · exact .inr (.inr ⟨h, .inl h'⟩)
        · exact .inr (.inl ⟨h, .inr h'⟩)
        · exact .inr (.inr ⟨h, .inr h'⟩)
      · rintro (h | ⟨h, h' | h'⟩ | ⟨h, h' | h'⟩)
        · exact .inl (.inl h)
        · exact .inl (.inr (.inl ⟨h, h'⟩))
        · exact .inr (.inl ⟨h, h'⟩)
        · exact .inl (.inr (.inr ⟨h, h'⟩))
        · exact .inr (.inr ⟨h, h'⟩)

/-- [S] `contains_key` after `remove` + `values_mut` -/
theorem cgu_containsKey_final (tb : HMap VSet) (cr a : Nat) :
    ((tb.remove cr).mapValues (fun set => set.shiftRemove cr)).containsKey a = true ↔
      (tb.containsKey a = true ∧ a ≠ cr) := by
  unfold HMap.containsKey
  rw [cgu_get_mapValues, cgu_get_remove]
  by_cases h : a = cr
  · simp [h]
  · simp [h]

/-- [S] the adjacency set after `remove` + `values_mut` -/
theorem cgu_nbrs_final (tb : HMap VSet) (cr a : Nat) :
    ((tb.remove cr).mapValues (fun set => set.shiftRemove cr)).nbrs a =
      if a = cr then #[] else (tb.nbrs a).shiftRemove cr := by
  unfold HMap.nbrs
  rw [cgu_get_mapValues, cgu_get_remove]
  by_cases h : a = cr
  · simp [h]
  · simp only [h, if_false]
    cases tb.get? a with
    | none => rfl
    | some v => rfl

/-! ## the merged tree, the invariant by coordinates, and the main theorem -/

/-- [S] `insert` never shrinks a set -/
theorem cgu_insert_size (s : VSet) (v : Nat) : s.size ≤ (s.insert v).size := by
  unfold VSet.insert
  split
  · exact Nat.le_refl _
  · simp

/-- [S] `extend` never shrinks a set -/
theorem cgu_extend_size : ∀ (l : List Nat) (s : VSet), s.size ≤ (s.extend l).size := by
  intro l
  induction l with
  | nil => intro s; exact Nat.le_refl _
  | cons v l ih =>
    intro s
    unfold VSet.extend
    rw [List.foldl_cons]
    exact Nat.le_trans (cgu_insert_size s v) (ih (s.insert v))

/-- [S] `extend` of a non-empty set is not empty -/
theorem cgu_extend_ne (l : List Nat) {s : VSet} (h : s ≠ #[]) : s.extend l ≠ #[] := by
  have h1 := Array.size_pos_iff.2 h
  have h2 := cgu_extend_size l s
  exact Array.size_pos_iff.1 (by omega)

/-- [S] the supernodes after `merge_two_cliques` (clique-graph strategy) -/
theorem cgu_merge_snode (s : CGStrategy) (t t' : SuperNodeTree) {c1 cr : Nat} (hne : c1 ≠ cr)
    (h1 : c1 < t.snode.size) (h2 : cr < t.snode.size)
    (h : s.mergeTwoCliques t (c1, cr) = .ok t') :
    t'.snode = (t.snode.setIfInBounds c1
      ((t.snode.getD c1 #[]).extend (t.snode.getD cr #[]).toList)).setIfInBounds cr #[] := by
  unfold CGStrategy.mergeTwoCliques at h
  simp only [setUnionIntoIndexed_ok t.snode c1 cr hne h1 h2, bind, Except.bind,
    Kr.setE_ok _ cr #[] _ (show cr < (t.snode.setIfInBounds c1 _).size by simpa using h2)] at h
  by_cases h0 : (t.nCliques == 0) = true
  · simp [h0, throw, throwThe, MonadExceptOf.throw] at h
  · simp only [h0, Bool.false_eq_true, if_false, pure, Except.pure] at h
    injection h with h
    rw [← h]

/-- [S] after the merge every clique but the removed one that was live is still non-empty, and
the removed one is stored -/
theorem cgu_merge_live (s : CGStrategy) (t t' : SuperNodeTree) {c1 cr : Nat} (hne : c1 ≠ cr)
    (h1 : c1 < t.snode.size) (h2 : cr < t.snode.size)
    (h : s.mergeTwoCliques t (c1, cr) = .ok t') :
    t'.snode.size = t.snode.size ∧
      ∀ n, CGLive t n → n ≠ cr → t'.snode.getD n #[] ≠ #[] := by
  have e := cgu_merge_snode s t t' hne h1 h2 h
  refine ⟨by rw [e]; simp, ?_⟩
  intro n hl hn
  rw [e]
  have hncr : cr ≠ n := fun x => hn x.symm
  simp only [Array.getD_eq_getD_getElem?, Array.getElem?_setIfInBounds, hncr, if_false]
  by_cases e1 : c1 = n
  · subst e1
    simp only [if_true, h1]
    have := cgu_extend_ne (t.snode.getD cr #[]).toList hl.2
    simpa [Array.getD_eq_getD_getElem?] using this
  · simp only [e1, if_false]
    have := hl.2
    simpa [Array.getD_eq_getD_getElem?] using this

/-- [S] the two ends of an edge are live -/
theorem cgu_adj_live {N nv : Nat} {s : CGStrategy} {t : SuperNodeTree} (inv : CGInv N nv s t)
    {a b : Nat} (h : s.edges.Adj a b) : CGLive t a ∧ CGLive t b := by
  obtain ⟨h1, h2⟩ := inv.edge_live _ _ h
  rcases Nat.le_total a b with hab | hab
  · rw [Nat.max_eq_right hab] at h1; rw [Nat.min_eq_left hab] at h2; exact ⟨h2, h1⟩
  · rw [Nat.max_eq_left hab] at h1; rw [Nat.min_eq_right hab] at h2; exact ⟨h1, h2⟩

/-- [S] stored entries of the edge matrix are strictly lower and in range -/
theorem cgu_entry_lt {N nv : Nat} {s : CGStrategy} {t : SuperNodeTree} (inv : CGInv N nv s t)
    {r c : Nat} (h : (s.edges.entry r c).isSome = true) : c < r ∧ r < N := by
  have hc : c < s.edges.n := by
    rw [inv.en, ← inv.sz]; exact (inv.edge_live r c h).2.1
  obtain ⟨v, hv⟩ := Option.isSome_iff_exists.mp h
  obtain ⟨k, hk, e1, e2, _⟩ := (entry_eq_some_iff inv.good.wfe inv.good.lower hc v).mp hv
  have := inv.good.lower.lower k hk
  have := inv.good.wfe.rows k hk
  have := inv.en
  omega

/-- [S] no stored weight is `0`, by coordinates -/
theorem cgu_entry_nz {N nv : Nat} {s : CGStrategy} {t : SuperNodeTree} (inv : CGInv N nv s t)
    {r c : Nat} {v : Int} (h : s.edges.entry r c = some v) : v ≠ 0 := by
  have hc : c < s.edges.n := by
    rw [inv.en, ← inv.sz]; exact (inv.edge_live r c (by rw [h]; rfl)).2.1
  obtain ⟨k, hk, _, _, e3⟩ := (entry_eq_some_iff inv.good.wfe inv.good.lower hc v).mp h
  rw [← e3]
  exact inv.nz k (by rw [inv.good.wfe.nnz_val]; exact hk)

/-- [S] no stored weight is `0`: from coordinates back to positions -/
theorem cgu_nz_of_entry {F : IMat} (g : F.Good) (h : ∀ r c v, F.entry r c = some v → v ≠ 0) :
    ∀ k, k < F.nzval.size → F.nzval.getD k 0 ≠ 0 := by
  intro k hk
  rw [g.wfe.nnz_val] at hk
  exact h _ _ _ ((entry_eq_some_iff g.wfe g.lower (colIdx_spec g.wfe hk).1 _).mpr
    ⟨k, hk, rfl, rfl, rfl⟩)

/-- [S] the two ends from `max` and `min` -/
theorem cgu_ends {a b c n : Nat} (h1 : max c n = max a b) (h2 : min c n = min a b) :
    (a = c ∧ b = n) ∨ (a = n ∧ b = c) := by
  omega

/-- [S] WHAT `update_strategy` DOES TO THE STRATEGY (`UpdateStateSpec`), given the specifications
of `set_entry` and `dropzeros` -/
theorem updateStrategy_state (hS : SetEntrySpec) (hD : DropzerosSpec) : UpdateStateSpec := by
  intro N nv s t inv c1 cr hent t' hmerge
  -- the two cliques
  obtain ⟨hl1, hlr⟩ := inv.edge_live c1 cr hent
  obtain ⟨hcrc1, hc1N⟩ := cgu_entry_lt inv hent
  have hcrN : cr < N := by omega
  have hne : c1 ≠ cr := by omega
  have hadj0 : s.edges.Adj c1 cr := by
    unfold IMat.Adj
    rw [Nat.max_eq_left (by omega), Nat.min_eq_right (by omega)]; exact hent
  -- the merged tree
  obtain ⟨hsz', hlive'⟩ := cgu_merge_live s t t' hne hl1.1 hlr.1 hmerge
  have hszN : t'.snode.size = N := by rw [hsz', inv.sz]
  have hc1set : t'.snode.getD c1 #[] ≠ #[] := hlive' c1 hl1 hne
  -- the adjacency table on entry
  have hk1 : s.adjacencyTable.containsKey c1 = true := (inv.adj_key c1).mpr hl1
  have hkr : s.adjacencyTable.containsKey cr = true := (inv.adj_key cr).mpr hlr
  obtain ⟨nn1, hrm, mem1⟩ := cgu_forIn_rm (s.adjacencyTable.nbrs c1).toList
    (s.adjacencyTable.nbrs cr)
  have memnn : ∀ x, x ∈ (nn1.shiftRemove c1).toList ↔
      (x ∈ (s.adjacencyTable.nbrs cr).toList ∧ x ∉ (s.adjacencyTable.nbrs c1).toList ∧ x ≠ c1) := by
    intro x
    rw [VSet.mem_shiftRemove, mem1 x, and_assoc]
  have hnb : ∀ n ∈ (s.adjacencyTable.nbrs c1).toList, n ≠ cr →
      n ≠ c1 ∧ n < N ∧ n < t'.snode.size ∧ t'.snode.getD n #[] ≠ #[] := by
    intro n hn hncr
    obtain ⟨ha, hd⟩ := (inv.adj_iff c1 n hl1).mp hn
    have hln := (cgu_adj_live inv ha).2
    have : n < N := inv.sz ▸ hln.1
    exact ⟨fun e => hd e.symm, this, by omega, hlive' n hln hncr⟩
  have hnn : ∀ n ∈ (nn1.shiftRemove c1).toList,
      n ≠ cr ∧ n ≠ c1 ∧ n < N ∧ n < t'.snode.size ∧ t'.snode.getD n #[] ≠ #[] := by
    intro n hn
    obtain ⟨h1, _, h3⟩ := (memnn n).mp hn
    obtain ⟨ha, hd⟩ := (inv.adj_iff cr n hlr).mp h1
    have hln := (cgu_adj_live inv ha).2
    have : n < N := inv.sz ▸ hln.1
    exact ⟨fun e => hd e.symm, h3, this, by omega, hlive' n hln (fun e => hd e.symm)⟩
  -- the edge matrix
  obtain ⟨eA, eB, eC, eD, F, hA, hB, hC, hDD, hF, gF, mF, nF, nzF, rowcol, hitF, missF⟩ :=
    cgu_edges hS hD inv.good inv.en inv.em (fun r c h => cgu_entry_lt inv h)
      (fun r c v h => cgu_entry_nz inv h) t'.snode (t'.snode.getD c1 #[])
      (s.adjacencyTable.nbrs c1).toList (nn1.shiftRemove c1).toList hcrN hne hc1set hnb hnn hc1N
  -- the adjacency table
  obtain ⟨tb', hE, keyE, memE, ndE⟩ := cgu_forIn_stepE c1 (nn1.shiftRemove c1).toList
    s.adjacencyTable hk1
    (by
      intro n hn
      obtain ⟨h1, _, _⟩ := (memnn n).mp hn
      obtain ⟨ha, _⟩ := (inv.adj_iff cr n hlr).mp h1
      exact (inv.adj_key n).mpr (cgu_adj_live inv ha).2)
    inv.adj_nodup
  refine ⟨{ s with edges := F,
                     adjacencyTable := ((tb'.remove cr).mapValues
                       (fun set => set.shiftRemove cr)) }, ?_, rfl, rfl, gF, mF, nF, cgu_nz_of_entry gF nzF,
    ?_, ?_, ?_, ?_⟩
  · rw [updateStrategy_eq_forIn]
    simp only [Kr.getE_ok t'.snode c1 _ #[] (by omega), cgu_getP_ok _ c1 _ hk1,
      cgu_getP_ok _ cr _ hkr, bind, Except.bind, hrm, hA, hB, inv.en, hC, hDD, hF, hE, pure,
      Except.pure]
  · -- the graph of the new edge matrix
    intro a b
    show (F.entry (max a b) (min a b)).isSome = true ↔ _
    constructor
    · intro hab
      have hrc : max a b ≠ cr ∧ min a b ≠ cr := by
        constructor
        · intro e; rw [rowcol _ _ (.inl e)] at hab; simp at hab
        · intro e; rw [rowcol _ _ (.inr e)] at hab; simp at hab
      refine ⟨by omega, by omega, ?_⟩
      by_cases hT : ∃ n, (n ∈ (s.adjacencyTable.nbrs c1).toList ∨
          n ∈ (nn1.shiftRemove c1).toList) ∧ n ≠ cr ∧ max c1 n = max a b ∧ min c1 n = min a b
      · obtain ⟨n, hn, hncr, h1, h2⟩ := hT
        rcases hn with hn | hn
        · left
          have := ((inv.adj_iff c1 n hl1).mp hn).1
          unfold IMat.Adj at this ⊢
          rw [← h1, ← h2]; exact this
        · right
          obtain ⟨h3, _, h5⟩ := (memnn n).mp hn
          have h6 := ((inv.adj_iff cr n hlr).mp h3).1
          rcases cgu_ends h1 h2 with ⟨rfl, rfl⟩ | ⟨rfl, rfl⟩
          · exact .inl ⟨rfl, h6, h5⟩
          · exact .inr ⟨rfl, h6, h5⟩
      · left
        rw [missF _ _ hrc.1 hrc.2 hT] at hab
        exact hab
    · rintro ⟨hacr, hbcr, hcase⟩
      have hr : max a b ≠ cr := by omega
      have hc : min a b ≠ cr := by omega
      have key : (∃ n, (n ∈ (s.adjacencyTable.nbrs c1).toList ∨
          n ∈ (nn1.shiftRemove c1).toList) ∧ n ≠ cr ∧ max c1 n = max a b ∧ min c1 n = min a b) ∨
          s.edges.Adj a b := by
        rcases hcase with h | ⟨rfl, h, hb1⟩ | ⟨rfl, h, ha1⟩
        · exact .inr h
        · by_cases hb : b ∈ (s.adjacencyTable.nbrs a).toList
          · exact .inr ((inv.adj_iff a b hl1).mp hb).1
          · left
            refine ⟨b, .inr ((memnn b).mpr ⟨(inv.adj_iff cr b hlr).mpr ⟨h, fun e => hbcr e.symm⟩,
              hb, hb1⟩), hbcr, rfl, rfl⟩
        · by_cases ha : a ∈ (s.adjacencyTable.nbrs b).toList
          · exact .inr ((inv.adj_iff b a hl1).mp ha).1.symm
          · left
            refine ⟨a, .inr ((memnn a).mpr ⟨(inv.adj_iff cr a hlr).mpr ⟨h, fun e => hacr e.symm⟩,
              ha, ha1⟩), hacr, Nat.max_comm _ _, Nat.min_comm _ _⟩
      by_cases hT : ∃ n, (n ∈ (s.adjacencyTable.nbrs c1).toList ∨
          n ∈ (nn1.shiftRemove c1).toList) ∧ n ≠ cr ∧ max c1 n = max a b ∧ min c1 n = min a b
      · obtain ⟨v, hv⟩ := hitF _ _ hr hc hT
        rw [hv]; rfl
      · rw [missF _ _ hr hc hT]
        rcases key with h | h
        · exact absurd h hT
        · exact h
  · -- the keys
    intro a
    show ((tb'.remove cr).mapValues (fun set => set.shiftRemove cr)).containsKey a = true ↔ _
    rw [cgu_containsKey_final, keyE a]
  · -- the adjacency sets
    intro a b hacr hka
    show b ∈ (((tb'.remove cr).mapValues (fun set => set.shiftRemove cr)).nbrs a).toList ↔ _
    have hla : CGLive t a := (inv.adj_key a).mp hka
    rw [cgu_nbrs_final, if_neg hacr, VSet.mem_shiftRemove, memE a b, memnn b, memnn a]
    constructor
    · rintro ⟨h | ⟨rfl, h1, _, h3⟩ | ⟨rfl, h1, _, h3⟩, hbcr⟩
      · exact ⟨hbcr, .inl h⟩
      · exact ⟨hbcr, .inr (.inl ⟨rfl, h1, h3⟩)⟩
      · exact ⟨hbcr, .inr (.inr ⟨rfl, h1, h3⟩)⟩
    · rintro ⟨hbcr, h | ⟨rfl, h1, h3⟩ | ⟨rfl, h1, h3⟩⟩
      · exact ⟨.inl h, hbcr⟩
      · by_cases hb : b ∈ (s.adjacencyTable.nbrs a).toList
        · exact ⟨.inl hb, hbcr⟩
        · exact ⟨.inr (.inl ⟨rfl, h1, hb, h3⟩), hbcr⟩
      · by_cases ha : a ∈ (s.adjacencyTable.nbrs b).toList
        · obtain ⟨h5, h6⟩ := (inv.adj_iff b a hl1).mp ha
          exact ⟨.inl ((inv.adj_iff a b hla).mpr ⟨h5.symm, fun e => h6 e.symm⟩), hbcr⟩
        · exact ⟨.inr (.inr ⟨rfl, h1, ha, h3⟩), hbcr⟩
  · -- no repetition
    intro a
    show (((tb'.remove cr).mapValues (fun set => set.shiftRemove cr)).nbrs a).toList.Nodup
    rw [cgu_nbrs_final]
    split
    · simp
    · exact VSet.nodup_shiftRemove _ _ (ndE a)


/-! ## a concrete run -/

namespace CGUExample

/-- three cliques `{0,1,2}`, `{1,5}`, `{2,6}`; clique `0` has just been merged into clique `1` -/
def tree' : SuperNodeTree :=
  { snode := #[#[], #[1, 5, 0, 2], #[2, 6]], snodePost := #[], snodeParent := #[],
    snodeChildren := #[], post := #[], separators := #[], nblk := none, nCliques := 2 }

/-- the strategy before the merge: edges `(1,0)` and `(2,0)` of weight `8 + 27 - 64 = -29` -/
def strat : CGStrategy :=
  { stop := false,
    edges := { m := 3, n := 3, colptr := #[0, 2, 2, 2], rowval := #[1, 2], nzval := #[-29, -29] },
    p := #[0, 0],
    adjacencyTable := ⟨#[some #[1, 2], some #[0], some #[0]]⟩ }

/-- what `update_strategy` returns on the example (`none` on a panic) -/
def run : Option (Array Nat × Array Nat × Array Int × Array (Option VSet)) :=
  (strat.updateStrategy tree' (1, 0) true).toOption.map
    (fun s' => (s'.edges.colptr, s'.edges.rowval, s'.edges.nzval, s'.adjacencyTable.slots))

-- sanity of `UpdateStateSpec` on a concrete run (evaluated, not a theorem): clique `2`, a
-- neighbour of the removed clique `0` only, is re-attached to clique `1` with the weight
-- `64 + 8 - 125 = -53`; row and column `0` are dropped; the key `0` and every mention of `0`
-- leave the adjacency table
#guard run == some (#[0, 0, 1, 1], #[2], #[-53], #[none, some #[2], some #[1]])

end CGUExample

end Clarabel.Chordal
