/-
  C05 — a 1×1 problem over `ℚ` used by the non-vacuity examples of `Props/C05Equiv.lean`:
      min x² − x   s.t.   x + s = 1,  s ≥ 0        (optimal: x = ½, s = ½, z = 0).
-/
import ClarabelProofs.Lemmas.EquivKkt
import Mathlib.Tactic.NormNum
import Mathlib.Algebra.Order.Field.Rat

namespace Clarabel.Lemmas.EquivExample
open Clarabel.Lemmas Matrix

/-- `min x² − x  s.t.  x + s = 1, s ≥ 0`: optimal `x = ½, s = ½, z = 0` -/
def P : Matrix (Fin 1) (Fin 1) ℚ := fun _ _ => 2
def A : Matrix (Fin 1) (Fin 1) ℚ := fun _ _ => 1
def q : Fin 1 → ℚ := fun _ => -1
def b : Fin 1 → ℚ := fun _ => 1

theorem P_sym : Pᵀ = P := by ext i j; rfl
theorem P_psd : ∀ d : Fin 1 → ℚ, 0 ≤ d ⬝ᵥ P *ᵥ d := by
  intro d
  simp only [dotProduct, Matrix.mulVec, Finset.univ_unique, Finset.sum_singleton, P]
  nlinarith [sq_nonneg (d default)]

theorem optimal : IsOptimal P q A b nnOrthant nnOrthant (fun _ => 1/2) (fun _ => 1/2) (fun _ => 0) := by
  refine ⟨?_, ?_, ?_, ?_, ?_⟩
  · funext i
    simp only [Pi.add_apply, Matrix.mulVec, dotProduct, Finset.univ_unique, Finset.sum_singleton, A, b]
    norm_num
  · funext i
    simp only [Pi.add_apply, Pi.zero_apply, Matrix.mulVec, dotProduct, Finset.univ_unique,
      Finset.sum_singleton, Matrix.transpose_apply, A, P, q]
    norm_num
  · intro i; norm_num
  · intro i; norm_num
  · simp [dotProduct]

end Clarabel.Lemmas.EquivExample
