/-
  Solving twice on the whole-solver model WITH NONSYMMETRIC CONES (`ClarabelModel/SolverNS/*`, C05) —
  the single-run frame of the cone objects: a whole `solve()` keeps the SHAPE of every cone object
  (`ConeShape` / `ConesShape` of `SolverNSStaleDefs.lean`: the static parameters — dimensions, the
  `sparse` some/none and the lengths of the symmetric cones, the exponent of a power cone, the
  exponents, `dim2` and `ψ` of a generalised power cone) and their consistent sizing (`ConeFull` /
  `ConesFull` of `SolverNSNoPanicDefs.lean`).

  Counterpart of the cone part of `SolverStaleFrame.lean` (`updateScaling1_shape`,
  `updateScaling_shape`, `setIdentityScaling_shape`, `pass_sameShape`, `solve_sameShape`,
  `solve_conesOk`).  All statements are single-run: hypotheses of the form `f … = .ok r`.

  All structural ([S]): no law of the scalar type is used.
-/
import ClarabelProofs.Lemmas.SolverNSStaleDefs
import ClarabelProofs.Lemmas.SolverNSNoPanicConesA

namespace Clarabel.SolverNS
open Clarabel Info Residuals
open Clarabel.Solver (ListRel bind_ok_inv bind_ok_of OkAnd)

set_option linter.unusedSectionVars false
set_option linter.unusedVariables false

variable {α : Type}

/-! ### `ConeShape` / `ConesShape` are reflexive and transitive -/

/-- [S] a cone object has its own shape -/
theorem coneShape_refl (c : ConeSt α) : ConeShape c c := by
  cases c with
  | sym c0 => exact Solver.ConeShape.rfl' c0
  | exp K => exact True.intro
  | pow a K => exact Eq.refl a
  | genpow al d2 ψ K => exact ⟨rfl, rfl, rfl⟩

/-- [S] `ConeShape` is transitive -/
theorem coneShape_trans {a b c : ConeSt α} (h1 : ConeShape a b) (h2 : ConeShape b c) :
    ConeShape a c := by
  cases a with
  | sym a0 =>
    cases b with
    | sym b0 =>
      cases c with
      | sym c0 => exact Solver.ConeShape.trans (a := a0) (b := b0) (c := c0) h1 h2
      | exp _ => exact False.elim h2
      | pow _ _ => exact False.elim h2
      | genpow _ _ _ _ => exact False.elim h2
    | exp _ => exact False.elim h1
    | pow _ _ => exact False.elim h1
    | genpow _ _ _ _ => exact False.elim h1
  | exp Ka =>
    cases b with
    | sym _ => exact False.elim h1
    | exp Kb =>
      cases c with
      | sym _ => exact False.elim h2
      | exp _ => exact True.intro
      | pow _ _ => exact False.elim h2
      | genpow _ _ _ _ => exact False.elim h2
    | pow _ _ => exact False.elim h1
    | genpow _ _ _ _ => exact False.elim h1
  | pow aa Ka =>
    cases b with
    | sym _ => exact False.elim h1
    | exp _ => exact False.elim h1
    | pow ab Kb =>
      cases c with
      | sym _ => exact False.elim h2
      | exp _ => exact False.elim h2
      | pow ac Kc => exact Eq.trans (b := ab) h1 h2
      | genpow _ _ _ _ => exact False.elim h2
    | genpow _ _ _ _ => exact False.elim h1
  | genpow ala da ψa Ka =>
    cases b with
    | sym _ => exact False.elim h1
    | exp _ => exact False.elim h1
    | pow _ _ => exact False.elim h1
    | genpow alb db ψb Kb =>
      cases c with
      | sym _ => exact False.elim h2
      | exp _ => exact False.elim h2
      | pow _ _ => exact False.elim h2
      | genpow alc dc ψc Kc =>
        obtain ⟨a1, a2, a3⟩ := h1
        obtain ⟨b1, b2, b3⟩ := h2
        exact ⟨a1.trans b1, a2.trans b2, a3.trans b3⟩

/-- [S] a cone list has its own shape -/
theorem conesShape_refl (cs : List (ConeSt α)) : ConesShape cs cs :=
  Solver.ListRel.refl_of (R := ConeShape) coneShape_refl cs

/-- [S] `ConesShape` is transitive -/
theorem conesShape_trans {a b c : List (ConeSt α)} (h1 : ConesShape a b) (h2 : ConesShape b c) :
    ConesShape a c :=
  Solver.ListRel.trans_of (R := ConeShape) (fun _ _ _ g1 g2 => coneShape_trans g1 g2) h1 h2

/-! ### `rng_cones`: whatever `cutE` returns has the cones' lengths -/

/-- [S] the slices `cutE.go` returns — when it succeeds — have the cones' dimensions (no hypothesis
on the length of the vector: a range past its end is the panic) -/
theorem cutE_go_forall2 (v : Array α) (site : String) :
    ∀ (cones : List (ConeSt α)) (start : Nat) (ps : List (Array α)),
      cutE.go v site cones start = .ok ps →
      List.Forall₂ (fun c (p : Array α) => p.size = c.numel) cones ps := by
  intro cones
  induction cones with
  | nil =>
    intro start ps h
    unfold cutE.go at h
    cases h
    exact .nil
  | cons c rest ih =>
    intro start ps h
    unfold cutE.go at h
    split at h
    · cases h
    · rename_i hg
      obtain ⟨tl, htl, h⟩ := bind_ok_inv h
      cases h
      refine .cons ?_ (ih _ _ htl)
      simp only [Array.size_extract]
      omega

/-- [S] the slices `cutE` returns — when it succeeds — have the cones' dimensions -/
theorem cutE_forall2 {cones : List (ConeSt α)} {v : Array α} {site : String} {ps : List (Array α)}
    (h : cutE cones v site = .ok ps) :
    List.Forall₂ (fun c (p : Array α) => p.size = c.numel) cones ps :=
  cutE_go_forall2 v site cones 0 ps h

section
variable [Add α] [Sub α] [Mul α] [Div α] [Neg α] [LT α] [LE α] [DecidableLT α] [DecidableLE α]
  [BEq α] [OfNat α 0] [OfNat α 1] [OfNat α 2] [OfNat α 3] [OfNat α 4] [OfNat α 100] [OfNat α 1000]
  [OfScientific α] [FloatLike α]

/-! ### `update_scaling` -/

/-- [S] `update_scaling` of one cone on slices of the cone's dimension keeps the shape of the cone
object and its consistent sizing — on success and when the cone refuses the update -/
theorem updateScaling1_shape1 {c : ConeSt α} {s z : Array α} {mu : α} {dual : Bool}
    {r : Bool × ConeSt α} (hc : ConeFull c) (hs : s.size = c.numel) (hz : z.size = c.numel)
    (h : updateScaling1 c s z mu dual = .ok r) : ConeShape c r.2 ∧ ConeFull r.2 := by
  cases c with
  | sym c0 =>
    unfold updateScaling1 at h
    dsimp only at h
    obtain ⟨⟨ok, c1⟩, h1, h⟩ := bind_ok_inv h
    cases h
    obtain ⟨r', hr', f1, _, _⟩ := Solver.updateScaling1_full (c := c0) hc hs hz
    rw [h1] at hr'
    cases hr'
    exact ⟨(Solver.updateScaling1_shape (Solver.ConeFull.ok hc) h1).1, f1⟩
  | exp K =>
    unfold updateScaling1 at h
    dsimp only at h
    obtain ⟨sv, _, h⟩ := bind_ok_inv h
    obtain ⟨zv, _, h⟩ := bind_ok_inv h
    obtain ⟨K', _, h⟩ := bind_ok_inv h
    cases h
    exact ⟨True.intro, True.intro⟩
  | pow a K =>
    unfold updateScaling1 at h
    dsimp only at h
    obtain ⟨sv, _, h⟩ := bind_ok_inv h
    obtain ⟨zv, _, h⟩ := bind_ok_inv h
    cases h
    exact ⟨Eq.refl a, True.intro⟩
  | genpow al d2 ψ K =>
    unfold updateScaling1 at h
    dsimp only at h
    obtain ⟨⟨ok, K'⟩, h1, h⟩ := bind_ok_inv h
    cases h
    obtain ⟨r', hr', f1⟩ := genpow_updateScaling_ok ψ mu hc hz
    rw [h1] at hr'
    cases hr'
    exact ⟨⟨rfl, rfl, rfl⟩, f1⟩

/-- [S] the cone-by-cone recursion of `CompositeCone::update_scaling` on slices of the cones'
dimensions: the cones it has updated, the cone that refused and the cones it has not reached all
keep their shape and sizing -/
theorem updateScaling_go_shape1 (mu : α) (dual : Bool) :
    ∀ (cs : List (ConeSt α)) (ss zs : List (Array α)) (r : Bool × List (ConeSt α)),
    ConesFull cs → List.Forall₂ (fun c (p : Array α) => p.size = c.numel) cs ss →
    List.Forall₂ (fun c (p : Array α) => p.size = c.numel) cs zs →
    updateScaling.go mu dual cs ss zs = .ok r → ConesShape cs r.2 ∧ ConesFull r.2 := by
  intro cs
  induction cs with
  | nil =>
    intro ss zs r hf _ _ h
    unfold updateScaling.go at h
    cases h
    exact ⟨.nil, hf⟩
  | cons c cs ih =>
    intro ss zs r hf hs hz h
    cases hs with
    | @cons _ si _ ss' hsi hss =>
    cases hz with
    | @cons _ zi _ zs' hzi hzs =>
    unfold updateScaling.go at h
    obtain ⟨⟨ok, c1⟩, h1, h⟩ := bind_ok_inv h
    obtain ⟨hn1, hn2⟩ := updateScaling1_shape1 hf.head hsi hzi h1
    cases ok with
    | false =>
      cases h
      exact ⟨.cons hn1 (conesShape_refl cs), ConesFull.cons hn2 hf.tail⟩
    | true =>
      dsimp only [Bool.not_true, Bool.false_eq_true, ↓reduceIte] at h
      obtain ⟨⟨ok2, cs2⟩, h2, h⟩ := bind_ok_inv h
      cases h
      obtain ⟨g1, g2⟩ := ih ss' zs' _ hf.tail hss hzs h2
      exact ⟨.cons hn1 g1, ConesFull.cons hn2 g2⟩

/-- [S] `CompositeCone::update_scaling` keeps the shape of every cone object and their consistent
sizing — also on the failure path, where some cones are updated and some are not.  No hypothesis on
the lengths of `s`, `z`: the slices of `rng_cones` have the cones' lengths whenever the cut
succeeds. -/
theorem updateScaling_shape1 {cs : List (ConeSt α)} {s z : Array α} {mu : α} {dual : Bool}
    {r : Bool × List (ConeSt α)} (hf : ConesFull cs) (h : updateScaling cs s z mu dual = .ok r) :
    ConesShape cs r.2 ∧ ConesFull r.2 := by
  unfold updateScaling at h
  obtain ⟨ss, hss, h⟩ := bind_ok_inv h
  obtain ⟨zs, hzs, h⟩ := bind_ok_inv h
  exact updateScaling_go_shape1 mu dual cs ss zs r hf (cutE_forall2 hss) (cutE_forall2 hzs) h

/-! ### `set_identity_scaling` -/

/-- [S] `CompositeCone::set_identity_scaling` (it succeeds on symmetric composites only) keeps the
shape of every cone object and their consistent sizing -/
theorem setIdentityScaling_shape1 : ∀ {cs cs1 : List (ConeSt α)}, ConesFull cs →
    setIdentityScaling cs = .ok cs1 → ConesShape cs cs1 ∧ ConesFull cs1 := by
  intro cs
  induction cs with
  | nil =>
    intro cs1 hf h
    unfold setIdentityScaling at h
    simp only [List.mapM_nil] at h
    cases h
    exact ⟨.nil, ConesFull.nil⟩
  | cons c cs ih =>
    intro cs1 hf h
    unfold setIdentityScaling at h
    simp only [List.mapM_cons] at h
    obtain ⟨c1, hc1, h⟩ := bind_ok_inv h
    obtain ⟨tl, htl, h⟩ := bind_ok_inv h
    cases h
    obtain ⟨g1, g2⟩ := ih (cs1 := tl) hf.tail (by unfold setIdentityScaling; exact htl)
    cases c with
    | sym c0 =>
      cases hc1
      have hc0 : Solver.ConeFull c0 := hf.head
      exact ⟨.cons (Solver.setIdentityScaling1_shape c0 (Solver.ConeFull.ok hc0)).1 g1,
        ConesFull.cons (Solver.setIdentityScaling1_full c0 hc0).1 g2⟩
    | exp K => cases hc1
    | pow a K => cases hc1
    | genpow al d2 ψ K => cases hc1

/-! ### frames: the stages of a pass that touch / do not touch `cones` -/

/-- [S] `scale_cones` is `update_scaling` on `(s, z)` of the iterate -/
theorem scaleCones_shape1 {v : Vars α} {cs : List (ConeSt α)} {mu : α} {dual : Bool}
    {r : Bool × List (ConeSt α)} (hf : ConesFull cs) (h : scaleCones v cs mu dual = .ok r) :
    ConesShape cs r.2 ∧ ConesFull r.2 :=
  updateScaling_shape1 hf h

/-- [S] the KKT stage of a pass does not touch `cones` -/
theorem kktNumerics_cones {st : Settings α} {S : SolverSt α} {cones : List (ConeSt α)} {mu : α}
    {iter : Nat} {sc : Loop.Scaling} {k : KktOut α} (h : kktNumerics st S cones mu iter sc = .ok k) :
    k.S.cones = S.cones := by
  unfold kktNumerics at h
  dsimp only at h
  repeat (first | (obtain ⟨_, _, h⟩ := bind_ok_inv h) | (split at h) | (dsimp only at h))
  all_goals (cases h; rfl)

/-- [S] the final `save_scalars` / `info.post_process` do not touch `cones` -/
theorem finishInfo_cones (st : Settings α) (L : LoopSt α) : (finishInfo st L).cones = L.S.cones := by
  unfold finishInfo
  dsimp only
  split <;> rfl

/-! ### one pass, the loop, `default_start`, `solve()` -/

/-- [S] one pass of the loop keeps the shape of the cone objects and their consistent sizing
(the only stage that writes `cones` is `scale_cones`) -/
theorem pass_cones {st : Settings α} {L L' : LoopSt α} {c : Bool} (hp : pass st L = .ok (c, L'))
    (hf : ConesFull L.S.cones) : ConesShape L.S.cones L'.S.cones ∧ ConesFull L'.S.cones := by
  have hrefl : ConesShape L.S.cones L.S.cones ∧ ConesFull L.S.cones := ⟨conesShape_refl _, hf⟩
  unfold pass at hp
  obtain ⟨⟨residuals, mu, info1⟩, htop, hp⟩ := bind_ok_inv hp
  try dsimp only at hp
  split at hp
  · -- isdone
    split at hp
    · cases hp
      exact hrefl
    · obtain ⟨vrs, _, hp⟩ := bind_ok_inv hp
      try dsimp only at hp
      split at hp
      · cases hp
        exact hrefl
      · cases hp
        exact hrefl
  · obtain ⟨sc, hsc, hp⟩ := bind_ok_inv hp
    have hsc' : ConesShape L.S.cones sc.2 ∧ ConesFull sc.2 := scaleCones_shape1 hf hsc
    try dsimp only at hp
    split at hp
    · cases hp
      exact hsc'
    · obtain ⟨k, hk, hp⟩ := bind_ok_inv hp
      have hkc : k.S.cones = sc.2 := kktNumerics_cones hk
      have key : ConesShape L.S.cones k.S.cones ∧ ConesFull k.S.cones := by rw [hkc]; exact hsc'
      try dsimp only at hp
      split at hp
      · split at hp
        · cases hp
          exact key
        · cases hp
          exact key
      · obtain ⟨⟨a, nbt⟩, _, hp⟩ := bind_ok_inv hp
        try dsimp only at hp
        split at hp
        · cases hp
          exact key
        · split at hp
          · cases hp
            exact key
          · obtain ⟨pv, _, hp⟩ := bind_ok_inv hp
            cases hp
            exact key

/-- [S] the loop keeps the shape of the cone objects and their consistent sizing -/
theorem runLoop_cones (st : Settings α) : ∀ (fuel : Nat) (L Lf : LoopSt α),
    runLoop st fuel L = .ok Lf → ConesFull L.S.cones →
    ConesShape L.S.cones Lf.S.cones ∧ ConesFull Lf.S.cones
  | 0, _, _, h, _ => by
    unfold runLoop at h
    cases h
  | fuel + 1, L, Lf, h, hf => by
    unfold runLoop at h
    obtain ⟨r, hp, h⟩ := bind_ok_inv h
    obtain ⟨g1, g2⟩ := pass_cones (c := r.1) (L' := r.2) (by rw [hp]) hf
    by_cases hc : r.1 = true
    · rw [if_pos hc] at h
      obtain ⟨k1, k2⟩ := runLoop_cones st fuel r.2 Lf h g2
      exact ⟨conesShape_trans g1 k1, k2⟩
    · rw [if_neg hc] at h
      cases h
      exact ⟨g1, g2⟩

/-- [S] `default_start` keeps the shape of the cone objects and their consistent sizing: the
symmetric branch replaces `cones` by what `set_identity_scaling` returns, the nonsymmetric branch
does not touch them -/
theorem defaultStart_cones {S S' : SolverSt α} {st : Settings α} (h : S.defaultStart st = .ok S')
    (hf : ConesFull S.cones) : ConesShape S.cones S'.cones ∧ ConesFull S'.cones := by
  unfold SolverSt.defaultStart at h
  split at h
  · obtain ⟨cones, hcs, h⟩ := bind_ok_inv h
    obtain ⟨⟨_, kkt1⟩, _, h⟩ := bind_ok_inv h
    try dsimp only at h
    obtain ⟨⟨_, v1, kkt2⟩, _, h⟩ := bind_ok_inv h
    try dsimp only at h
    obtain ⟨v2, _, h⟩ := bind_ok_inv h
    cases h
    exact setIdentityScaling_shape1 hf hcs
  · obtain ⟨v, _, h⟩ := bind_ok_inv h
    cases h
    exact ⟨conesShape_refl _, hf⟩

/-- [S] `info.reset`, `default_start` and the loop keep the shape of the cone objects and their
consistent sizing -/
theorem runSolve_cones {S : SolverSt α} {st : Settings α} {L : LoopSt α} (h : S.runSolve st = .ok L)
    (hf : ConesFull S.cones) : ConesShape S.cones L.S.cones ∧ ConesFull L.S.cones := by
  unfold SolverSt.runSolve at h
  dsimp only at h
  obtain ⟨S1, hd, h⟩ := bind_ok_inv h
  obtain ⟨g1, g2⟩ := defaultStart_cones hd hf
  obtain ⟨k1, k2⟩ := runLoop_cones st _ _ L h g2
  exact ⟨conesShape_trans g1 k1, k2⟩

/-- **[S] A whole `solve()` keeps the shape of the cone objects and their consistent sizing**
(model with nonsymmetric cones): the cone list of the solver object it returns is `ConesShape`-related
to the one it started from, and again `ConesFull`. -/
theorem solve_conesShape {S : Solver α} {st : Settings α} {r : SolveResult α} (h : S.solve st = .ok r)
    (hc : ConesFull S.st.cones) : ConesShape S.st.cones r.S.st.cones ∧ ConesFull r.S.st.cones := by
  unfold Solver.solve at h
  obtain ⟨L, hL, h⟩ := bind_ok_inv h
  obtain ⟨p, hp, h⟩ := bind_ok_inv h
  obtain ⟨dN, hdN, h⟩ := bind_ok_inv h
  cases h
  unfold finish at hp
  obtain ⟨u, hu, hp⟩ := bind_ok_inv hp
  cases hp
  show ConesShape S.st.cones (finishInfo st L).cones ∧ ConesFull (finishInfo st L).cones
  rw [finishInfo_cones]
  exact runSolve_cones hL hc

end

end Clarabel.SolverNS
