/-
  `get_block_indices` of `augment_compact.rs`: the sorted list of block entries of a clique is
  the column-major enumeration of the upper triangle of the sorted clique; an entry is flagged
  as an overlap iff both of its vertices are in the separator.
-/
import ClarabelProofs.Lemmas.ChordalCompactBasics
import Mathlib.Data.List.Sort

namespace Clarabel.Chordal

/-- column-major upper triangle of the vertex list `C` (column `j` outer, rows `i ≤ j` inner),
each entry tagged with `flag i j` -/
def triPairs (C : List Nat) (flag : Nat → Nat → Bool) : List (Nat × Nat × Bool) :=
  C.flatMap (fun j => (C.filter (fun i => decide (i ≤ j))).map (fun i => (i, j, flag i j)))

/-- the sort key `x.1 * nv + x.0` of `get_block_indices` -/
def bkey (nv : Nat) (e : Nat × Nat × Bool) : Nat := e.2.1 * nv + e.1

theorem triPairs_mem (C : List Nat) (flag : Nat → Nat → Bool) (e : Nat × Nat × Bool) :
    e ∈ triPairs C flag ↔ e.2.1 ∈ C ∧ e.1 ∈ C ∧ e.1 ≤ e.2.1 ∧ e.2.2 = flag e.1 e.2.1 := by
  obtain ⟨a, b, f⟩ := e
  unfold triPairs
  simp only [List.mem_flatMap, List.mem_map, List.mem_filter, decide_eq_true_eq, Prod.mk.injEq]
  constructor
  · rintro ⟨j, hj, i, ⟨hi, hij⟩, rfl, rfl, rfl⟩
    exact ⟨hj, hi, hij, rfl⟩
  · rintro ⟨hj, hi, hij, hf⟩
    exact ⟨b, hj, a, ⟨hi, hij⟩, rfl, rfl, hf.symm⟩

theorem triPairs_sorted (C : List Nat) (flag : Nat → Nat → Bool) (nv : Nat)
    (hC : C.Pairwise (· < ·)) (hlt : ∀ v ∈ C, v < nv) :
    (triPairs C flag).Pairwise (fun x y => bkey nv x < bkey nv y) := by
  unfold triPairs
  rw [List.pairwise_flatMap]
  constructor
  · intro j _
    rw [List.pairwise_map]
    refine (hC.sublist (List.filter_sublist)).imp ?_
    intro a b hab
    unfold bkey
    simp only
    omega
  · refine hC.imp_of_mem ?_
    intro j j' hj hj' hjj' x hx y hy
    simp only [List.mem_map, List.mem_filter, decide_eq_true_eq] at hx hy
    obtain ⟨i, ⟨hi, hij⟩, rfl⟩ := hx
    obtain ⟨i', ⟨hi', hij'⟩, rfl⟩ := hy
    unfold bkey
    simp only
    have h1 := hlt i hi
    have h2 := Nat.mul_le_mul_right nv (show j + 1 ≤ j' by omega)
    rw [Nat.succ_mul] at h2
    omega

theorem bkey_inj_of_sorted (nv : Nat) (l : List (Nat × Nat × Bool))
    (h : l.Pairwise (fun x y => bkey nv x < bkey nv y)) :
    ∀ x ∈ l, ∀ y ∈ l, bkey nv x = bkey nv y → x = y := by
  have hp : l.Pairwise (fun x y => bkey nv x = bkey nv y → x = y) :=
    h.imp (fun hxy he => absurd he (Nat.ne_of_lt hxy))
  have hp' : l.Pairwise (flip (fun x y => bkey nv x = bkey nv y → x = y)) :=
    h.imp (fun hxy he => absurd he.symm (Nat.ne_of_lt hxy))
  intro x hx y hy
  exact List.Pairwise.forall_of_forall_of_flip (R := fun x y => bkey nv x = bkey nv y → x = y)
    (fun a _ _ => rfl) hp hp' hx hy

theorem triPairs_nodup (C : List Nat) (flag : Nat → Nat → Bool) (hC : C.Pairwise (· < ·)) :
    (triPairs C flag).Nodup := by
  -- use the key with `nv` larger than every vertex
  have hs := triPairs_sorted C flag (C.foldr max 0 + 1) hC (by
    intro v hv
    have : v ≤ C.foldr max 0 := by
      clear hC
      induction C with
      | nil => cases hv
      | cons a t ih =>
        simp only [List.foldr_cons]
        rcases List.mem_cons.1 hv with rfl | h
        · exact Nat.le_max_left _ _
        · exact Nat.le_trans (ih h) (Nat.le_max_right _ _)
    omega)
  exact hs.imp (fun hxy he => by rw [he] at hxy; exact Nat.lt_irrefl _ hxy)

private theorem nodup_of_pairwise_lt {l : List Nat} (h : l.Pairwise (· < ·)) : l.Nodup :=
  h.imp (fun hab he => by rw [he] at hab; exact Nat.lt_irrefl _ hab)

/-- the unsorted list built by `get_block_indices` -/
def blockIndicesRaw (N S : List Nat) : List (Nat × Nat × Bool) :=
  (S.flatMap (fun j => (S.filter (fun i => decide (i ≤ j))).map (fun i => (i, j, true))) ++
   N.flatMap (fun j => (N.filter (fun i => decide (i ≤ j))).map (fun i => (i, j, false)))) ++
   N.flatMap (fun i => S.map (fun j => (min i j, max i j, false)))

private theorem cross_mem (N S : List Nat) (e : Nat × Nat × Bool) :
    e ∈ N.flatMap (fun i => S.map (fun j => (min i j, max i j, false))) ↔
      ∃ i ∈ N, ∃ j ∈ S, e = (min i j, max i j, false) := by
  simp only [List.mem_flatMap, List.mem_map]
  constructor
  · rintro ⟨i, hi, j, hj, rfl⟩; exact ⟨i, hi, j, hj, rfl⟩
  · rintro ⟨i, hi, j, hj, rfl⟩; exact ⟨i, hi, j, hj, rfl⟩

private theorem cross_nodup (N S : List Nat) (hN : N.Nodup) (hS : S.Nodup)
    (hdisj : ∀ v, v ∈ N → v ∉ S) :
    (N.flatMap (fun i => S.map (fun j => (min i j, max i j, false)))).Nodup := by
  rw [List.nodup_flatMap]
  constructor
  · intro i hi
    refine hS.map_on ?_
    intro j hj j' hj' he
    simp only [Prod.mk.injEq, and_true] at he
    have hij : i ≠ j := fun h => hdisj i hi (h ▸ hj)
    have hij' : i ≠ j' := fun h => hdisj i hi (h ▸ hj')
    omega
  · refine hN.pairwise_of_forall_ne ?_
    intro i hi i' hi' hne
    show List.Disjoint _ _
    rw [List.disjoint_left]
    intro e he he'
    simp only [List.mem_map] at he he'
    obtain ⟨j, hj, rfl⟩ := he
    obtain ⟨j', hj', he'⟩ := he'
    simp only [Prod.mk.injEq, and_true] at he'
    have h1 : i ≠ j := fun h => hdisj i hi (h ▸ hj)
    have h2 : i' ≠ j' := fun h => hdisj i' hi' (h ▸ hj')
    have h3 : i ≠ j' := fun h => hdisj i hi (h ▸ hj')
    have h4 : i' ≠ j := fun h => hdisj i' hi' (h ▸ hj)
    omega

private theorem triPairs_eq (C : List Nat) (f : Bool) :
    C.flatMap (fun j => (C.filter (fun i => decide (i ≤ j))).map (fun i => (i, j, f))) =
      triPairs C (fun _ _ => f) := rfl

theorem blockIndicesRaw_mem (N S : List Nat) (e : Nat × Nat × Bool) :
    e ∈ blockIndicesRaw N S ↔
      (e.2.1 ∈ S ∧ e.1 ∈ S ∧ e.1 ≤ e.2.1 ∧ e.2.2 = true) ∨
      (e.2.1 ∈ N ∧ e.1 ∈ N ∧ e.1 ≤ e.2.1 ∧ e.2.2 = false) ∨
      (∃ i ∈ N, ∃ j ∈ S, e = (min i j, max i j, false)) := by
  unfold blockIndicesRaw
  rw [List.mem_append, List.mem_append, triPairs_eq, triPairs_eq, triPairs_mem, triPairs_mem,
    cross_mem, or_assoc]

theorem blockIndicesRaw_nodup (N S : List Nat) (hN : N.Pairwise (· < ·)) (hS : S.Pairwise (· < ·))
    (hdisj : ∀ v, v ∈ N → v ∉ S) : (blockIndicesRaw N S).Nodup := by
  unfold blockIndicesRaw
  rw [triPairs_eq, triPairs_eq]
  rw [List.nodup_append]
  refine ⟨?_, cross_nodup N S (nodup_of_pairwise_lt hN) (nodup_of_pairwise_lt hS) hdisj, ?_⟩
  · rw [List.nodup_append]
    refine ⟨triPairs_nodup S _ hS, triPairs_nodup N _ hN, ?_⟩
    intro a ha b hb hab
    rw [triPairs_mem] at ha hb
    subst hab
    rw [ha.2.2.2] at hb
    exact absurd hb.2.2.2 (by decide)
  · intro a ha b hb hab
    subst hab
    rw [cross_mem] at hb
    obtain ⟨i, hi, j, hj, rfl⟩ := hb
    rcases List.mem_append.1 ha with ha | ha
    · rw [triPairs_mem] at ha
      exact absurd ha.2.2.2 (by simp)
    · rw [triPairs_mem] at ha
      simp only at ha
      -- one of min/max is `j ∈ S`, but both are in `N`
      rcases Nat.le_total i j with h | h
      · rw [Nat.max_eq_right h] at ha
        exact hdisj j ha.1 hj
      · rw [Nat.min_eq_right h] at ha
        exact hdisj j ha.2.1 hj

/-- **`get_block_indices`**: for duplicate-free disjoint supernode / separator lists (sorted, as
the code sorts them) and the sorted clique `C = N ∪ S` with vertices `< nv`, the result is the
column-major upper triangle of `C`, flagged "overlap" iff both vertices are in the separator -/
theorem getBlockIndices_eq (N S : Array Nat) (nv : Nat) (C : List Nat)
    (hN : N.toList.Pairwise (· < ·)) (hS : S.toList.Pairwise (· < ·))
    (hdisj : ∀ v, v ∈ N.toList → v ∉ S.toList)
    (hC : C.Pairwise (· < ·)) (hmem : ∀ v, v ∈ C ↔ v ∈ N.toList ∨ v ∈ S.toList)
    (hlt : ∀ v ∈ C, v < nv) :
    getBlockIndices N S nv =
      triPairs C (fun a b => decide (a ∈ S.toList) && decide (b ∈ S.toList)) := by
  have hraw : getBlockIndices N S nv = (blockIndicesRaw N.toList S.toList).mergeSort
      (fun x y => decide (bkey nv x ≤ bkey nv y)) := rfl
  rw [hraw]
  have hsorted := triPairs_sorted C (fun a b => decide (a ∈ S.toList) && decide (b ∈ S.toList)) nv hC hlt
  have hperm : (blockIndicesRaw N.toList S.toList).Perm
      (triPairs C (fun a b => decide (a ∈ S.toList) && decide (b ∈ S.toList))) := by
    rw [List.perm_ext_iff_of_nodup (blockIndicesRaw_nodup _ _ hN hS hdisj) (triPairs_nodup C _ hC)]
    intro e
    obtain ⟨a, b, f⟩ := e
    rw [blockIndicesRaw_mem, triPairs_mem]
    simp only [hmem]
    constructor
    · rintro (⟨h1, h2, h3, h4⟩ | ⟨h1, h2, h3, h4⟩ | ⟨i, hi, j, hj, he⟩)
      · exact ⟨Or.inr h1, Or.inr h2, h3, by simp [h1, h2, h4]⟩
      · refine ⟨Or.inl h1, Or.inl h2, h3, ?_⟩
        have := hdisj a h2
        simp [this, h4]
      · simp only [Prod.mk.injEq] at he
        obtain ⟨rfl, rfl, rfl⟩ := he
        have hni := hdisj i hi
        rcases Nat.le_total i j with h | h
        · rw [Nat.min_eq_left h, Nat.max_eq_right h]
          exact ⟨Or.inr hj, Or.inl hi, h, by simp [hni]⟩
        · rw [Nat.min_eq_right h, Nat.max_eq_left h]
          exact ⟨Or.inl hi, Or.inr hj, h, by simp [hni]⟩
    · rintro ⟨hb, ha, hab, hf⟩
      rcases ha with ha | ha <;> rcases hb with hb | hb
      · right; left
        have := hdisj a ha
        exact ⟨hb, ha, hab, by simp [hf, this]⟩
      · right; right
        refine ⟨a, ha, b, hb, ?_⟩
        have := hdisj a ha
        rw [Nat.min_eq_left hab, Nat.max_eq_right hab]
        simp [hf, this]
      · right; right
        refine ⟨b, hb, a, ha, ?_⟩
        have := hdisj b hb
        rw [Nat.min_eq_right hab, Nat.max_eq_left hab]
        simp [hf, this]
      · left
        exact ⟨hb, ha, hab, by simp [hf, ha, hb]⟩
  refine List.Perm.eq_of_pairwise (le := fun x y => decide (bkey nv x ≤ bkey nv y) = true) ?_
    (List.pairwise_mergeSort ?_ ?_ _) (hsorted.imp (fun h => by simpa using Nat.le_of_lt h))
    ((List.mergeSort_perm _ _).trans hperm)
  · intro x y hx hy h1 h2
    have hx' : x ∈ triPairs C (fun a b => decide (a ∈ S.toList) && decide (b ∈ S.toList)) :=
      hperm.subset ((List.mergeSort_perm _ _).subset hx)
    simp only [decide_eq_true_eq] at h1 h2
    exact bkey_inj_of_sorted nv _ hsorted x hx' y hy (Nat.le_antisymm h1 h2)
  · intro a b c h1 h2
    simp only [decide_eq_true_eq] at *
    omega
  · intro a b
    simp only [Bool.or_eq_true, decide_eq_true_eq]
    omega

/-! ### positions inside `triPairs` -/

private theorem filter_le_eq_take (C : List Nat) (hC : C.Pairwise (· < ·)) (y : Nat) (hy : y < C.length) :
    C.filter (fun i => decide (i ≤ C[y])) = C.take (y + 1) := by
  induction C generalizing y with
  | nil => simp at hy
  | cons a t ih =>
    rw [List.pairwise_cons] at hC
    cases y with
    | zero =>
      simp only [List.getElem_cons_zero, List.filter_cons, Nat.le_refl, decide_true, ↓reduceIte,
        Nat.zero_add, List.take_succ_cons, List.take_zero]
      congr 1
      rw [List.filter_eq_nil_iff]
      intro b hb
      have := hC.1 b hb
      simp only [decide_eq_true_eq]
      omega
    | succ y =>
      simp only [List.getElem_cons_succ, List.take_succ_cons]
      have hy' : y < t.length := by simpa using hy
      have hay : a < t[y] := hC.1 _ (List.getElem_mem hy')
      rw [List.filter_cons, if_pos (by simp only [decide_eq_true_eq]; omega)]
      rw [ih hC.2 y hy']

/-- the entries of `triPairs C flag` by position: the pair of clique positions `x ≤ y` sits at
index `triangularNumber y + x` -/
theorem triPairs_eq_range (C : List Nat) (flag : Nat → Nat → Bool) (hC : C.Pairwise (· < ·)) :
    triPairs C flag = (List.range C.length).flatMap (fun y =>
      (List.range (y + 1)).map (fun x => (C.getD x 0, C.getD y 0, flag (C.getD x 0) (C.getD y 0)))) := by
  unfold triPairs
  have hCr : C = (List.range C.length).map (fun y => C.getD y 0) := by
    apply List.ext_getElem
    · simp
    · intro i h1 h2
      simp [List.getD_eq_getElem?_getD, List.getElem?_eq_getElem h1]
  conv_lhs => rw [hCr]
  rw [List.flatMap_map]
  apply List.flatMap_congr
  intro y hy
  rw [List.mem_range] at hy
  have hyy : C.getD y 0 = C[y] := by simp [List.getD_eq_getElem?_getD, List.getElem?_eq_getElem hy]
  rw [← hCr, hyy, filter_le_eq_take C hC y hy]
  apply List.ext_getElem
  · simp; omega
  · intro i h1 h2
    simp only [List.length_map, List.length_take] at h1
    have hi : i < C.length := by omega
    simp [List.getD_eq_getElem?_getD, List.getElem?_eq_getElem hi]

private theorem tri_flatMap_length {β : Type} (F : Nat → Nat → β) (n : Nat) :
    ((List.range n).flatMap (fun y => (List.range (y + 1)).map (fun x => F x y))).length =
      triangularNumber n := by
  induction n with
  | zero => rfl
  | succ n ih =>
    rw [List.range_succ, List.flatMap_append, List.length_append, ih, triangularNumber_succ]
    simp
    omega

private theorem tri_flatMap_getElem? {β : Type} (F : Nat → Nat → β) (n x y : Nat) (hxy : x ≤ y) (hy : y < n) :
    ((List.range n).flatMap (fun y => (List.range (y + 1)).map (fun x => F x y)))[triangularNumber y + x]? =
      some (F x y) := by
  induction n with
  | zero => omega
  | succ n ih =>
    rw [List.range_succ, List.flatMap_append]
    rcases Nat.lt_or_ge y n with h | h
    · rw [List.getElem?_append_left]
      · exact ih h
      · rw [tri_flatMap_length]
        have := triangularNumber_mono (show y + 1 ≤ n from h)
        rw [triangularNumber_succ] at this
        omega
    · have : y = n := by omega
      subst this
      rw [List.getElem?_append_right (by rw [tri_flatMap_length]; omega), tri_flatMap_length]
      simp only [List.flatMap_cons, List.flatMap_nil, List.append_nil]
      rw [show triangularNumber y + x - triangularNumber y = x by omega]
      rw [List.getElem?_map, List.getElem?_range (by omega)]
      rfl

theorem triPairs_length (C : List Nat) (flag : Nat → Nat → Bool) (hC : C.Pairwise (· < ·)) :
    (triPairs C flag).length = triangularNumber C.length := by
  rw [triPairs_eq_range C flag hC, tri_flatMap_length]

/-- position `coord_to_upper_triangular_index (x, y)` of `triPairs C flag` holds the pair of the
`x`-th and `y`-th clique vertex -/
theorem triPairs_getElem? (C : List Nat) (flag : Nat → Nat → Bool) (hC : C.Pairwise (· < ·))
    (x y : Nat) (hxy : x ≤ y) (hy : y < C.length) :
    (triPairs C flag)[coordToUpperTriangularIndex (x, y)]? =
      some (C.getD x 0, C.getD y 0, flag (C.getD x 0) (C.getD y 0)) := by
  rw [triPairs_eq_range C flag hC, coord_to_index_of_le hxy]
  exact tri_flatMap_getElem? (fun x y => (C.getD x 0, C.getD y 0, flag (C.getD x 0) (C.getD y 0)))
    C.length x y hxy hy

/-- conversely every position of `triPairs C flag` is such a pair -/
theorem triPairs_getElem?_inv (C : List Nat) (flag : Nat → Nat → Bool) (hC : C.Pairwise (· < ·))
    (q : Nat) (hq : q < (triPairs C flag).length) :
    ∃ x y, x ≤ y ∧ y < C.length ∧ q = coordToUpperTriangularIndex (x, y) ∧
      (triPairs C flag)[q]? = some (C.getD x 0, C.getD y 0, flag (C.getD x 0) (C.getD y 0)) := by
  rw [triPairs_length C flag hC] at hq
  obtain ⟨c, h1, h2⟩ := exists_column q
  have hc : c < C.length := by
    rcases Nat.lt_or_ge c C.length with h | h
    · exact h
    · have := triangularNumber_mono h; omega
  rw [triangularNumber_succ] at h2
  refine ⟨q - triangularNumber c, c, by omega, hc, ?_, ?_⟩
  · rw [coord_to_index_of_le (by omega)]; omega
  · have := triPairs_getElem? C flag hC (q - triangularNumber c) c (by omega) hc
    rw [coord_to_index_of_le (by omega)] at this
    rwa [show triangularNumber c + (q - triangularNumber c) = q by omega] at this

end Clarabel.Chordal
