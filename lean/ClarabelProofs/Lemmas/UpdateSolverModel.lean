/-
  C08 on the whole-solver model: the invariant `UInv` of a solver object along any history of
  `update_P / update_q / update_A / update_b / update_data` (accepted or rejected, every argument
  form) and `solve()`, relative to the object `S0` that `DefaultSolver::new` built.

  `UInv st S0 S pk ak`:
    * the data of `S` differs from the data of `S0` in the values of `P, q, A, b` and the norm caches
      only (`DFrame`) — in particular the equilibration is FROZEN;
    * all vectors have the lengths they had in `S0`, the cone objects the same shapes (`Sh`);
    * the linear-solver object has the structure of `S0`'s, satisfies C12's history invariant, and
      both of its value copies hold the ghost arrays `pk`, `ak` at the `P` / `A` positions (`KSync`):
      `pk`, `ak` are the values of the last ACCEPTED `update_P` / `update_A` (those of `S0` before).
  `UInv.consistent`: `pk = data.P.nzval ∧ ak = data.A.nzval` — true after accepted updates, lost by a
  REJECTED partial `update_P` / `update_A` (the data has changed, the KKT copy has not).
-/
import ClarabelProofs.Lemmas.UpdateSolverShape
import ClarabelProofs.Lemmas.UpdateSolverKSync

namespace Clarabel.Solver
open Clarabel Clarabel.Update
open Clarabel.Lemmas.KktSpec (KktInputs)

set_option linter.unusedSectionVars false
set_option linter.unusedVariables false

variable {α : Type}

section
variable [Add α] [Sub α] [Mul α] [Div α] [Neg α] [OfNat α 0] [OfNat α 1] [OfNat α 2]
  [OfNat α 100] [OfNat α 1000] [LT α] [DecidableLT α] [LE α] [DecidableLE α] [BEq α] [FloatLike α]

/-- what the theorems need of the object a history starts from.  Every object `DefaultSolver::new`
builds on well-formed input has it (`base_of_new`). -/
structure Base (st : Settings α) (perm : Array Nat) (S0 : Solver α) : Prop where
  ofData : SolverSt.ofData S0.st.data st perm = .ok S0.st
  dataOK : DataOK S0.st.data
  numel : numelAll S0.st.cones = S0.st.data.m
  full : ConesFull S0.st.cones
  kktIn : KktInputs S0.st.data.P S0.st.data.A (S0.st.cones.map ConeSt.kktSpec)
  maps : MapFacts S0.st.kktsystem.kktsolver
  kinv : KInv S0.st.kktsystem.kktsolver
  fit : S0.st.kktsystem.kktsolver.map.sparse_maps.size ≤ nSp S0.st.cones
  conesOk : ConesOk S0.st.cones
  wellSized : WellSized S0.st
  workx : WorkxSized S0.st
  noPre : S0.st.data.presolver = none → S0.solution.s.size = S0.st.data.m ∧ S0.solution.z.size = S0.st.data.m
  solx : S0.solution.x.size = S0.st.data.n
  mapPsz : S0.st.kktsystem.kktsolver.map.P.size = S0.st.data.P.nzval.size
  mapAsz : S0.st.kktsystem.kktsolver.map.A.size = S0.st.data.A.nzval.size

/-- the invariant of a solver object along a history (see the header) -/
structure UInv (st : Settings α) (S0 S : Solver α) (pk ak : Array α) : Prop where
  frame : DFrame S0.st.data S.st.data
  sh : Sh S0.st S.st
  conesOk : ConesOk S.st.cones
  kinv : KInv S.st.kktsystem.kktsolver
  ksync : KSync st.lin S0.st.kktsystem.kktsolver S.st.kktsystem.kktsolver pk ak
  solx : S.solution.x.size = S0.solution.x.size
  sols : S.solution.s.size = S0.solution.s.size
  solz : S.solution.z.size = S0.solution.z.size
  pksz : pk.size = S0.st.data.P.nzval.size
  aksz : ak.size = S0.st.data.A.nzval.size

/-- the KKT copy is synchronised with the CURRENT data -/
def Consistent (S : Solver α) (pk ak : Array α) : Prop :=
  pk = S.st.data.P.nzval ∧ ak = S.st.data.A.nzval

/-! ### `DefaultSolver::new` establishes the base facts and the invariant -/

theorem base_of_new {P : Csc α} {q : Array α} {A : Csc α} {b : Array α} {cones : List (ConeT α)}
    {st : Settings α} {perm : Array Nat} (hin : InputOK P q A b cones) (hn : 0 < P.n)
    (hperm : PermForU P q A b cones st perm) {S0 : Solver α}
    (h : Solver.new P q A b cones st perm = .ok S0) : Base st perm S0 := by
  obtain ⟨hd, hof, hsol⟩ := solverNew_ofData h
  obtain ⟨hki, hKs, hdok, hnum, hfull, hK⟩ := solverNew_kktInputs hin h
  obtain ⟨_, hdn, _⟩ := internalData_dataOK hin hd
  obtain ⟨hrow, _⟩ := internalData_rows hin hd
  have hko := kktSolverNew_kinvU hki hdok (hperm _ _ hd hK).2
    (by rw [hdn, hin.A_n]; omega) hKs
  have hfr := solverNew_frame h
  have hmaps := (solverNew_own_maps hin h false).1
  refine ⟨hof, hdok, hnum, hfull, hki, mapFacts_of_new hKs hki, hko.1, ?_, hfr.1, hfr.2,
    solverNew_workxSized h, ?_, ?_, hmaps.sizeP, hmaps.sizeA⟩
  · rw [hko.2, nSp_eq_expansionU hfull]
  · intro hp
    have hpm : presolveMap S0.st.data = none := by
      unfold presolveMap; rw [hp]
    rw [hsol]
    exact ⟨by show (Array.replicate A.m (0 : α)).size = _; rw [Array.size_replicate, hrow hpm],
      by show (Array.replicate A.m (0 : α)).size = _; rw [Array.size_replicate, hrow hpm]⟩
  · rw [hsol]
    show (Array.replicate A.n (0 : α)).size = _
    rw [Array.size_replicate, hdn]

theorem UInv.init {st : Settings α} {perm : Array Nat} {S0 : Solver α} (hb : Base st perm S0) :
    UInv st S0 S0 S0.st.data.P.nzval S0.st.data.A.nzval ∧
      Consistent S0 S0.st.data.P.nzval S0.st.data.A.nzval := by
  obtain ⟨_, _, hKs, _⟩ := ofData_parts hb.ofData
  exact ⟨⟨DFrame.rfl' _, Sh.rfl' _, hb.conesOk, hb.kinv, ksync_of_new hKs hb.kktIn, rfl, rfl, rfl, rfl, rfl⟩,
    rfl, rfl⟩

/-! ### the guard -/

theorem UInv.dataWf {st : Settings α} {perm : Array Nat} {S0 S : Solver α} {pk ak : Array α}
    (hb : Base st perm S0) (h : UInv st S0 S pk ak) : dataWf S.st.data = true :=
  dataWf_of_frame h.frame (dataWf_of_dataOK hb.dataOK)

/-! ### data-only changes -/

/-- replacing the data by data in the same frame keeps the invariant (and the ghost values) -/
theorem UInv.setData {st : Settings α} {S0 S : Solver α} {pk ak : Array α} (h : UInv st S0 S pk ak)
    {d : ProblemData α} (hd : DFrame S0.st.data d) : UInv st S0 (S.setData d) pk ak :=
  ⟨hd, h.sh.setData d, h.conesOk, h.kinv, h.ksync, h.solx, h.sols, h.solz, h.pksz, h.aksz⟩

/-- replacing data and linear-solver object -/
theorem UInv.setBoth {st : Settings α} {S0 S : Solver α} {pk ak pk' ak' : Array α} (h : UInv st S0 S pk ak)
    {d : ProblemData α} (hd : DFrame S0.st.data d) {K' : KktSolver α} (hk : KInv K')
    (hs : KSync st.lin S0.st.kktsystem.kktsolver K' pk' ak') (hp : pk'.size = S0.st.data.P.nzval.size)
    (ha : ak'.size = S0.st.data.A.nzval.size) : UInv st S0 ((S.setData d).setKktSolver K') pk' ak' :=
  ⟨hd, (h.sh.setData d).setKkt K', h.conesOk, hk, hs, h.solx, h.sols, h.solz, hp, ha⟩

theorem solver_setData_self (S : Solver α) : S.setData S.st.data = S := by
  cases S with | mk st sol => cases st; rfl

/-! ### one update operation -/

/-- **`update_P` on the solver object**: total (no panic), keeps the invariant; after an ACCEPTED call
the KKT copy holds the new `P̂`; after a rejected one it holds what it held (`pk' = pk`) — the data is
unchanged for the whole-matrix forms, but HAS changed for a rejected `(index,value)` form. -/
theorem updateP_step {st : Settings α} {perm : Array Nat} {S0 S : Solver α} {pk ak : Array α}
    (hb : Base st perm S0) (h : UInv st S0 S pk ak) (arg : MatArg α) :
    ∃ S' r pk', S.updateP arg = .ok (S', r) ∧ UInv st S0 S' pk' ak ∧
      S'.st.data.A = S.st.data.A ∧
      (r = .ok () → pk' = S'.st.data.P.nzval) ∧
      (r ≠ .ok () → pk' = pk ∧ (arg.isWhole = true → S' = S)) := by
  have hwf := h.dataWf hb
  rw [updateP_eq S arg hwf]
  cases hg : checkDataUpdateAllowed S.st.data with
  | error e =>
    exact ⟨S, .error e, pk, rfl, h, rfl, (fun hr => by cases hr), fun _ => ⟨rfl, fun _ => rfl⟩⟩
  | ok u =>
    cases u
    dsimp only
    have hshape := samePat_updateMatrix arg S.st.data.P S.st.data.equilibration.d S.st.data.equilibration.d
      (some S.st.data.equilibration.c)
    have hwhole := updateMatrix_whole_err arg (M := S.st.data.P) (l := S.st.data.equilibration.d)
      (r := S.st.data.equilibration.d) (cs := some S.st.data.equilibration.c)
    generalize updateMatrix arg S.st.data.P S.st.data.equilibration.d S.st.data.equilibration.d
      (some S.st.data.equilibration.c) = res at hshape hwhole
    obtain ⟨P', r⟩ := res
    cases r with
    | error e =>
      refine ⟨_, _, pk, rfl, h.setData (h.frame.setP hshape), rfl, (fun hr => by cases hr),
        fun _ => ⟨rfl, fun hw => ?_⟩⟩
      have := hwhole hw e rfl
      simp only at this
      rw [this]
      exact solver_setData_self S
    | ok u =>
      cases u
      dsimp only
      have hsz : P'.nzval.size = S0.st.kktsystem.kktsolver.map.P.size := by
        rw [hb.mapPsz, hshape.size, h.frame.P.size]
      obtain ⟨K', hK'⟩ := updateValues_total_P hb.maps h.ksync hsz
      rw [hK']
      refine ⟨_, _, P'.nzval, rfl, h.setBoth (h.frame.setP hshape) (h.kinv.updateValues hK')
        (KSync.updateP hb.maps h.ksync hsz hK') (by rw [hshape.size, h.frame.P.size]) h.aksz, rfl,
        (fun _ => rfl), fun hr => absurd rfl hr⟩

/-- **`update_A` on the solver object** -/
theorem updateA_step {st : Settings α} {perm : Array Nat} {S0 S : Solver α} {pk ak : Array α}
    (hb : Base st perm S0) (h : UInv st S0 S pk ak) (arg : MatArg α) :
    ∃ S' r ak', S.updateA arg = .ok (S', r) ∧ UInv st S0 S' pk ak' ∧
      S'.st.data.P = S.st.data.P ∧
      (r = .ok () → ak' = S'.st.data.A.nzval) ∧
      (r ≠ .ok () → ak' = ak ∧ (arg.isWhole = true → S' = S)) := by
  have hwf := h.dataWf hb
  rw [updateA_eq S arg hwf]
  cases hg : checkDataUpdateAllowed S.st.data with
  | error e =>
    exact ⟨S, .error e, ak, rfl, h, rfl, (fun hr => by cases hr), fun _ => ⟨rfl, fun _ => rfl⟩⟩
  | ok u =>
    cases u
    dsimp only
    have hshape := samePat_updateMatrix arg S.st.data.A S.st.data.equilibration.e S.st.data.equilibration.d none
    have hwhole := updateMatrix_whole_err arg (M := S.st.data.A) (l := S.st.data.equilibration.e)
      (r := S.st.data.equilibration.d) (cs := none)
    generalize updateMatrix arg S.st.data.A S.st.data.equilibration.e S.st.data.equilibration.d none = res
      at hshape hwhole
    obtain ⟨A', r⟩ := res
    cases r with
    | error e =>
      refine ⟨_, _, ak, rfl, h.setData (h.frame.setA hshape), rfl, (fun hr => by cases hr),
        fun _ => ⟨rfl, fun hw => ?_⟩⟩
      have := hwhole hw e rfl
      simp only at this
      rw [this]
      exact solver_setData_self S
    | ok u =>
      cases u
      dsimp only
      have hsz : A'.nzval.size = S0.st.kktsystem.kktsolver.map.A.size := by
        rw [hb.mapAsz, hshape.size, h.frame.A.size]
      obtain ⟨K', hK'⟩ := updateValues_total_A hb.maps h.ksync hsz
      rw [hK']
      refine ⟨_, _, A'.nzval, rfl, h.setBoth (h.frame.setA hshape) (h.kinv.updateValues hK')
        (KSync.updateA hb.maps h.ksync hsz hK') h.pksz (by rw [hshape.size, h.frame.A.size]), rfl,
        (fun _ => rfl), fun hr => absurd rfl hr⟩

/-- **`update_q` on the solver object**: touches `data.q` and the `normq` cache only -/
theorem updateQ_step {st : Settings α} {perm : Array Nat} {S0 S : Solver α} {pk ak : Array α}
    (hb : Base st perm S0) (h : UInv st S0 S pk ak) (arg : VecArg α) :
    ∃ S' r, S.updateQ arg = .ok (S', r) ∧ UInv st S0 S' pk ak ∧
      S'.st.data.P = S.st.data.P ∧ S'.st.data.A = S.st.data.A ∧
      (r = .ok () → S'.st.data.normq = none) ∧
      (r ≠ .ok () → arg.isWhole = true → S' = S) := by
  have hwf := h.dataWf hb
  rw [updateQ_eq S arg hwf]
  cases hg : checkDataUpdateAllowed S.st.data with
  | error e => exact ⟨S, .error e, rfl, h, rfl, rfl, (fun hr => by cases hr), fun _ _ => rfl⟩
  | ok u =>
    cases u
    dsimp only
    have hsize := updateVector_size arg S.st.data.q S.st.data.equilibration.d (some S.st.data.equilibration.c)
    have hwhole := updateVector_whole_err arg (v := S.st.data.q) (vscale := S.st.data.equilibration.d)
      (cs := some S.st.data.equilibration.c)
    generalize updateVector arg S.st.data.q S.st.data.equilibration.d (some S.st.data.equilibration.c) = res
      at hsize hwhole
    obtain ⟨q', r⟩ := res
    cases r with
    | error e =>
      refine ⟨_, _, rfl, h.setData (by simpa using h.frame.setQ hsize S.st.data.normq), rfl, rfl,
        (fun hr => by cases hr), fun _ hw => ?_⟩
      have := hwhole hw e rfl
      simp only at this
      rw [this]
      exact solver_setData_self S
    | ok u =>
      cases u
      exact ⟨_, _, rfl, h.setData (h.frame.setQ hsize none), rfl, rfl, (fun _ => rfl), fun hr => absurd rfl hr⟩

/-- **`update_b` on the solver object**: touches `data.b` and the `normb` cache only -/
theorem updateB_step {st : Settings α} {perm : Array Nat} {S0 S : Solver α} {pk ak : Array α}
    (hb : Base st perm S0) (h : UInv st S0 S pk ak) (arg : VecArg α) :
    ∃ S' r, S.updateB arg = .ok (S', r) ∧ UInv st S0 S' pk ak ∧
      S'.st.data.P = S.st.data.P ∧ S'.st.data.A = S.st.data.A ∧
      (r = .ok () → S'.st.data.normb = none) ∧
      (r ≠ .ok () → arg.isWhole = true → S' = S) := by
  have hwf := h.dataWf hb
  rw [updateB_eq S arg hwf]
  cases hg : checkDataUpdateAllowed S.st.data with
  | error e => exact ⟨S, .error e, rfl, h, rfl, rfl, (fun hr => by cases hr), fun _ _ => rfl⟩
  | ok u =>
    cases u
    dsimp only
    have hsize := updateVector_size arg S.st.data.b S.st.data.equilibration.e none
    have hwhole := updateVector_whole_err arg (v := S.st.data.b) (vscale := S.st.data.equilibration.e)
      (cs := none)
    generalize updateVector arg S.st.data.b S.st.data.equilibration.e none = res at hsize hwhole
    obtain ⟨b', r⟩ := res
    cases r with
    | error e =>
      refine ⟨_, _, rfl, h.setData (by simpa using h.frame.setB hsize S.st.data.normb), rfl, rfl,
        (fun hr => by cases hr), fun _ hw => ?_⟩
      have := hwhole hw e rfl
      simp only at this
      rw [this]
      exact solver_setData_self S
    | ok u =>
      cases u
      exact ⟨_, _, rfl, h.setData (h.frame.setB hsize none), rfl, rfl, (fun _ => rfl), fun hr => absurd rfl hr⟩

/-! ### `solve()` -/

/-- `get_normq(); get_normb()` touch the two caches only -/
theorem fillNorms_frame {d d' : ProblemData α} (h : fillNorms d = .ok d') :
    d'.P = d.P ∧ d'.A = d.A ∧ d'.q = d.q ∧ d'.b = d.b ∧ DFrame d d' := by
  unfold fillNorms at h
  obtain ⟨nq, _, h⟩ := bind_ok_inv h
  obtain ⟨nb, _, h⟩ := bind_ok_inv h
  cases h
  exact ⟨rfl, rfl, rfl, rfl, SamePat.rfl' _, SamePat.rfl' _, rfl, rfl, rfl, rfl, rfl, rfl, rfl⟩

/-- **`solve()` keeps the invariant**, the matrices and the ghost values (it rewrites only what the
next `KKTSolver::update` rewrites); of the data it writes the two norm caches only (`fillNorms`) -/
theorem solve_step {st : Settings α} {perm : Array Nat} {S0 S : Solver α} {pk ak : Array α}
    (hb : Base st perm S0) (h : UInv st S0 S pk ak) {r : SolveResult α} (hs : S.solve st = .ok r) :
    UInv st S0 r.S pk ak ∧ fillNorms S.st.data = .ok r.S.st.data
      ∧ r.S.st.data.P = S.st.data.P ∧ r.S.st.data.A = S.st.data.A := by
  have hd := solve_data hs
  obtain ⟨eP, eA, _, _, hf⟩ := fillNorms_frame hd
  obtain ⟨hsh, hco, sx, sz, ss⟩ := solve_frame hs h.conesOk
  obtain ⟨hU, hI⟩ := solve_kstep hs h.kinv
  have hsh2 := h.sh.trans (Sh.of_sameShape hsh)
  have hsh3 : Sh S0.st r.S.st :=
    ⟨rfl, hsh2.variables, hsh2.rx, hsh2.rz, hsh2.rx_inf, hsh2.rz_inf, hsh2.Px, hsh2.x1, hsh2.z1, hsh2.x2,
      hsh2.z2, hsh2.workx, hsh2.workz, hsh2.workConic, hsh2.cones, hsh2.stepLhs, hsh2.stepRhs,
      hsh2.prevVars⟩
  exact ⟨⟨h.frame.trans hf, hsh3, hco, hI, KSync.step_upd hb.maps h.ksync hU,
    sx.trans h.solx, ss.trans h.sols, sz.trans h.solz, h.pksz, h.aksz⟩, hd, eP, eA⟩

/-- `solve()` as an operation of a history IS `solve()` (since round 8 `Solver.solve` itself stores
the norm caches `Info.update` filled in the object it returns) -/
theorem solveU_eq_solve (S : Solver α) (st : Settings α) : S.solveU st = S.solve st := rfl

/-- **`solve()` as an operation of a history** keeps the invariant, the matrices and the ghost values -/
theorem solveU_step {st : Settings α} {perm : Array Nat} {S0 S : Solver α} {pk ak : Array α}
    (hb : Base st perm S0) (h : UInv st S0 S pk ak) {r : SolveResult α} (hs : S.solveU st = .ok r) :
    UInv st S0 r.S pk ak ∧ r.S.st.data.P = S.st.data.P ∧ r.S.st.data.A = S.st.data.A :=
  let ⟨h1, _, hP, hA⟩ := solve_step hb h hs
  ⟨h1, hP, hA⟩

end

end Clarabel.Solver
