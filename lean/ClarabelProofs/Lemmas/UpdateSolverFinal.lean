/-
  C08 on the whole-solver model: the remaining links.

  * `rejected_updateA_then_solve` : the `update_A` twin of `rejected_updateP_then_solve`.
  * `ofData_setNorms`, `rebuilt_norms_refreshed` : the rebuilt object with its norm caches DROPPED (what
    `solve()` then recomputes from the final data) solves like the rebuilt object with the caches of the
    updated object, whenever those caches are valid (imported `solve_setNorms`).
  * `stepU_refines`, `runU_refines` : a block of update operations on the solver object is, through the
    projection `Solver.view`, the run of the C08 state model `Update.run` — so the rejection tables, the
    plain-overwrite refinement and the closed form "internal data = frozen equilibration applied to the
    final user data" of `Props/C08.lean` apply to the whole-solver histories (imported
    `updateP_refines … updateData_refines`).
  * `exBase` … : the non-vacuity witnesses (the example problem of `Lemmas/SolverModelExample.lean`).
-/
import ClarabelProofs.Lemmas.UpdateSolverHistory
import ClarabelProofs.Lemmas.UpdateSolverRefine
import ClarabelProofs.Lemmas.SolverModelExample

namespace Clarabel.Solver
open Clarabel Clarabel.Update
open Clarabel.Lemmas.KktSpec (KktInputs)

set_option linter.unusedSectionVars false
set_option linter.unusedVariables false

variable {α : Type}

section
variable [Add α] [Sub α] [Mul α] [Div α] [Neg α] [OfNat α 0] [OfNat α 1] [OfNat α 2]
  [OfNat α 100] [OfNat α 1000] [LT α] [DecidableLT α] [LE α] [DecidableLE α] [BEq α] [FloatLike α]

/-- [S] **a REJECTED `update_A` and the solve after it** (see `rejected_updateP_then_solve`) -/
theorem rejected_updateA_then_solve (hbeq : ((0 : α) == 0) = true) {st : Settings α} {perm : Array Nat}
    {S0 S : Solver α} {pk ak : Array α} (hb : Base st perm S0) (hnp : S0.st.data.presolver = none)
    (h : UInv st S0 S pk ak) (hc : Consistent S pk ak) {arg : MatArg α} {S' : Solver α} {e : Csc.FormatError}
    (hu : S.updateA arg = .ok (S', .error (.badFormat e))) :
    S' = S.setData { S.st.data with A := (updateMatrix arg S.st.data.A S.st.data.equilibration.e
        S.st.data.equilibration.d none).1 } ∧
    (arg.isWhole = true → S' = S) ∧
    UInv st S0 S' pk ak ∧
    ∃ R, Solver.rebuiltWith S'.st.data S.st.data st perm
        (Unscale.Solution.new S'.st.data.n S'.st.data.m) = .ok R ∧
      R.st.data = S'.st.data ∧ RelM SolveObs (S'.solve st) (R.solve st) := by
  obtain ⟨S1, r1, ak1, e1, h1, hP1, hok1, herr1⟩ := updateA_step hb h arg
  rw [hu] at e1
  cases e1
  obtain ⟨e2, e3⟩ := herr1 (fun hr => by cases hr)
  rw [e2] at h1
  have hwf := h.dataWf hb
  have hS' : S' = S.setData { S.st.data with A := (updateMatrix arg S.st.data.A S.st.data.equilibration.e
      S.st.data.equilibration.d none).1 } := by
    rw [updateA_eq S arg hwf] at hu
    cases hg : checkDataUpdateAllowed S.st.data with
    | error g =>
      rw [hg] at hu
      cases hu
      unfold checkDataUpdateAllowed at hg
      split at hg <;> cases hg
    | ok u =>
      cases u
      rw [hg] at hu
      dsimp only at hu
      generalize updateMatrix arg S.st.data.A S.st.data.equilibration.e S.st.data.equilibration.d none = res
        at hu ⊢
      obtain ⟨A', r⟩ := res
      cases r with
      | error e' => cases hu; rfl
      | ok u =>
        cases u
        dsimp only at hu
        cases hX : S.st.kktsystem.kktsolver.updateValues S.st.kktsystem.kktsolver.map.A A'.nzval with
        | error x => rw [hX] at hu; cases hu
        | ok K => rw [hX] at hu; cases hu
  refine ⟨hS', e3, h1, ?_⟩
  obtain ⟨R, hR, hd, hrel⟩ := solve_eq_rebuiltWith hbeq hb h1 hnp
  refine ⟨R, ?_, hd, hrel⟩
  have hdw : dataWith S'.st.data pk ak = S.st.data := by
    rw [hc.1, hc.2, hS']
    have hp := samePat_updateMatrix arg S.st.data.A S.st.data.equilibration.e S.st.data.equilibration.d none
    generalize (updateMatrix arg S.st.data.A S.st.data.equilibration.e S.st.data.equilibration.d none).1 = A'
      at hp
    have := hp.eq_with
    unfold dataWith Solver.setData
    dsimp only
    rw [this]
  rw [hdw] at hR
  exact hR

/-! ### norm caches of the rebuilt object -/

theorem ofData_setNorms (d : ProblemData α) (nq nb : Option α) (st : Settings α) (perm : Array Nat) :
    SolverSt.ofData (d.setNorms nq nb) st perm = (SolverSt.ofData d st perm).map (·.setNorms nq nb) := by
  unfold SolverSt.ofData
  show (makeCones d.cones >>= _) = Except.map _ (makeCones d.cones >>= _)
  cases makeCones d.cones with
  | error e => rfl
  | ok K =>
    show (KktSys.new d K st.lin perm >>= _) = Except.map _ (KktSys.new d K st.lin perm >>= _)
    cases KktSys.new d K st.lin perm with
    | error e => rfl
    | ok ks => rfl

theorem setNorms_setNorms_self (d : ProblemData α) (nq nb : Option α) :
    (d.setNorms nq nb).setNorms d.normq d.normb = d := by cases d; rfl

/-- [S] **the cached norms are refreshed.**  If the caches of the data `d` are valid — each one absent or
holding what `get_normq` / `get_normb` recompute from `d` (`NormsAgree`) — the object rebuilt from `d`
WITHOUT caches (so that `solve()` recomputes both norms from the final `q̂, b̂` and the frozen
`D⁻¹, E⁻¹, c`) exists, and `solve()` on the object rebuilt from `d` itself IS `solve()` on it: same
error, same solution, same trajectory, same final state — the caches of the final state included, both
solves leave them filled with the common answers of `get_normq` / `get_normb`.  (Until round 8, when the
model's `solve()` did not store the caches, the final states agreed only up to the caches.) -/
theorem rebuilt_norms_refreshed (d : ProblemData α) (st : Settings α) (perm : Array Nat)
    (sol : Unscale.Solution α) {R : Solver α} (hR : Solver.rebuilt d st perm sol = .ok R)
    (h : NormsAgree (d.setNorms none none) d.normq d.normb) :
    ∃ R', Solver.rebuilt (d.setNorms none none) st perm sol = .ok R' ∧
      R = R'.setNorms d.normq d.normb ∧
      R.solve st = R'.solve st := by
  unfold Solver.rebuilt Solver.rebuiltWith at hR ⊢
  obtain ⟨S, hS, hR⟩ := bind_ok_inv hR
  cases hR
  rw [ofData_setNorms, hS]
  refine ⟨_, rfl, ?_, ?_⟩
  · show _ = ({ st := { S with data := (d.setNorms none none).setNorms d.normq d.normb }, solution := sol } : Solver α)
    rw [setNorms_setNorms_self]
  · have key := solve_setNorms
      ({ st := { S.setNorms none none with data := d.setNorms none none }, solution := sol } : Solver α) st
      d.normq d.normb h
    rw [← key]
    show _ = ({ st := { S with data := (d.setNorms none none).setNorms d.normq d.normb }, solution := sol } :
      Solver α).solve st
    rw [setNorms_setNorms_self]

/-- an absent cache, or one holding the recomputed value, is valid -/
theorem normsAgree_drop (d : ProblemData α)
    (hq : d.normq = none ∨ ∃ v, Info.getNormq none d.q d.equilibration.dinv d.equilibration.c = .ok v ∧
      d.normq = some v)
    (hb : d.normb = none ∨ ∃ v, Info.getNormb none d.b d.equilibration.einv = .ok v ∧ d.normb = some v) :
    NormsAgree (d.setNorms none none) d.normq d.normb := by
  refine ⟨?_, ?_⟩
  · show Info.getNormq d.normq d.q d.equilibration.dinv d.equilibration.c
      = Info.getNormq none d.q d.equilibration.dinv d.equilibration.c
    rcases hq with hq | ⟨v, h1, h2⟩
    · rw [hq]
    · rw [h2, h1]; rfl
  · show Info.getNormb d.normb d.b d.equilibration.einv = Info.getNormb none d.b d.equilibration.einv
    rcases hb with hb | ⟨v, h1, h2⟩
    · rw [hb]
    · rw [h2, h1]; rfl

/-- each norm cache is absent or holds what `get_normq` / `get_normb` recompute from the data -/
def NormsValid (d : ProblemData α) : Prop :=
  (d.normq = none ∨ ∃ v, Info.getNormq none d.q d.equilibration.dinv d.equilibration.c = .ok v ∧
    d.normq = some v) ∧
  (d.normb = none ∨ ∃ v, Info.getNormb none d.b d.equilibration.einv = .ok v ∧ d.normb = some v)

/-- [S] valid caches stay valid through a `solve()` (which fills them with the recomputed norms);
the same for every ACCEPTED or whole-form `update_q` / `update_b` (which clear them: `updateQ_step`,
`updateB_step`) and every `update_P` / `update_A` (which do not touch `q`, `b`, the equilibration or
the caches). -/
theorem fillNorms_valid {d d' : ProblemData α} (h : fillNorms d = .ok d') (hv : NormsValid d) :
    NormsValid d' := by
  unfold fillNorms at h
  obtain ⟨nq, hq, h⟩ := bind_ok_inv h
  obtain ⟨nb, hb, h⟩ := bind_ok_inv h
  cases h
  refine ⟨Or.inr ⟨nq, ?_, rfl⟩, Or.inr ⟨nb, ?_, rfl⟩⟩
  · show Info.getNormq none d.q d.equilibration.dinv d.equilibration.c = .ok nq
    rcases hv.1 with h1 | ⟨v, h1, h2⟩
    · rw [← h1]; exact hq
    · rw [h2] at hq
      have : v = nq := by
        have hq' : (pure v : MErr α) = .ok nq := hq
        cases hq'; rfl
      rw [← this]; exact h1
  · show Info.getNormb none d.b d.equilibration.einv = .ok nb
    rcases hv.2 with h1 | ⟨v, h1, h2⟩
    · rw [← h1]; exact hb
    · rw [h2] at hb
      have : v = nb := by
        have hb' : (pure v : MErr α) = .ok nb := hb
        cases hb'; rfl
      rw [← this]; exact h1

end

/-! ### blocks of updates refine the C08 state model -/

/-- the operation of the C08 state model behind an update operation on the solver object (a `solve()`
has no exact counterpart there: it is mapped to `norms`, and excluded below) -/
def UOp.toOp : UOp α → Update.Op α
  | .updateP a => .updateP a
  | .updateQ a => .updateQ a
  | .updateA a => .updateA a
  | .updateB a => .updateB a
  | .updateData p q a b => .updateData p q a b
  | .solve => .norms

def UOp.isUpdate : UOp α → Bool
  | .solve => false
  | _ => true

/-- the `Result` an output shows (`Ok` for a solve) -/
def UOut.toRes : UOut α → Update.Res
  | .res r => r
  | .solved _ => .ok ()

section
variable [Add α] [Sub α] [Mul α] [Div α] [Neg α] [OfNat α 0] [OfNat α 1] [OfNat α 2]
  [OfNat α 100] [OfNat α 1000] [LT α] [DecidableLT α] [LE α] [DecidableLE α] [BEq α] [FloatLike α]

/-- [S] one update operation on the solver object is, through `Solver.view`, one step of the C08 state
model: same `Result`, and the view of the new object is the new state (data, norm caches, KKT matrix,
QDLDL's permuted copy). -/
theorem stepU_refines {st : Settings α} {S S' : Solver α} {op : UOp α} {o : UOut α}
    (hop : op.isUpdate = true) (hs : S.stepU st op = .ok (S', o)) :
    Update.step S.view op.toOp = (S'.view, o.toRes) := by
  cases op with
  | updateP a =>
    rw [stepU_updateP] at hs
    obtain ⟨r, hr, hs⟩ := bind_ok_inv hs
    cases hs
    exact updateP_refines (r := r.2) (S' := r.1) hr
  | updateQ a =>
    rw [stepU_updateQ] at hs
    obtain ⟨r, hr, hs⟩ := bind_ok_inv hs
    cases hs
    exact updateQ_refines (r := r.2) (S' := r.1) hr
  | updateA a =>
    rw [stepU_updateA] at hs
    obtain ⟨r, hr, hs⟩ := bind_ok_inv hs
    cases hs
    exact updateA_refines (r := r.2) (S' := r.1) hr
  | updateB a =>
    rw [stepU_updateB] at hs
    obtain ⟨r, hr, hs⟩ := bind_ok_inv hs
    cases hs
    exact updateB_refines (r := r.2) (S' := r.1) hr
  | updateData p q a b =>
    rw [stepU_updateData] at hs
    obtain ⟨r, hr, hs⟩ := bind_ok_inv hs
    cases hs
    exact updateData_refines (r := r.2) (S' := r.1) hr
  | solve => cases hop

theorem runU_cons_ok {st : Settings α} {S S1 S2 : Solver α} {op : UOp α} {rest : List (UOp α)} {o : UOut α}
    {os : List (UOut α)} (h1 : S.stepU st op = .ok (S1, o)) (h2 : Solver.runU st S1 rest = .ok (S2, os)) :
    Solver.runU st S (op :: rest) = .ok (S2, o :: os) := by
  rw [Solver.runU, h1]
  show (Solver.runU st S1 rest >>= _) = _
  rw [h2]
  rfl

/-- [S] **a block of updates refines the C08 state model**: for a history of update operations (no
`solve()`) on the solver object that returned, the C08 state model run from the view of the object
ends in the view of the final object with the same list of `Result`s. -/
theorem runU_refines {st : Settings α} :
    ∀ (ops : List (UOp α)) (S S' : Solver α) (outs : List (UOut α)),
      (∀ op ∈ ops, op.isUpdate = true) → Solver.runU st S ops = .ok (S', outs) →
        Update.run S.view (ops.map UOp.toOp) = (S'.view, outs.map UOut.toRes)
  | [], S, S', outs, _, hr => by
    unfold Solver.runU at hr
    cases hr
    rfl
  | op :: rest, S, S', outs, hu, hr => by
    unfold Solver.runU at hr
    obtain ⟨r1, hr1, hr⟩ := bind_ok_inv hr
    obtain ⟨r2, hr2, hr⟩ := bind_ok_inv hr
    cases hr
    obtain ⟨S1, o1⟩ := r1
    have h1 := stepU_refines (hu op (List.mem_cons_self ..)) hr1
    have h2 := runU_refines rest S1 r2.1 r2.2 (fun o ho => hu o (List.mem_cons_of_mem _ ho)) hr2
    simp only [List.map_cons, Update.run, h1, h2]

end

end Clarabel.Solver

/-! ### non-vacuity: the example problem -/

namespace Clarabel.Solver.Example
open Clarabel Clarabel.Solver Clarabel.Update

attribute [local instance] intFloatLike

/-- well-formed input (as `exInputOK` of `Lemmas/SolverModelNoPanicExample.lean`, which is behind C04's
no-panic chain and cannot be imported here) -/
theorem uxInputOK : InputOK P #[1] A #[1] ([.nonneg 1] : List (ConeT Int)) where
  P_canon := (Csc.checkFormat_iff0 P).mp (by decide)
  P_sq := rfl
  A_canon := (Csc.checkFormat_iff0 A).mp (by decide)
  A_n := rfl
  q := rfl
  b := rfl
  cones := rfl

theorem uxNew_ok : ∃ S, newSolver 3 = .ok S := by
  have h : (newSolver 3).toOption.isSome = true := by decide +kernel
  cases hn : newSolver 3 with
  | error e => rw [hn] at h; cases h
  | ok S => exact ⟨S, rfl⟩

theorem uxInternal : (do
    let d ← internalData P #[1] A #[1] ([.nonneg 1] : List (ConeT Int)) (st 3)
    let K ← makeCones d.cones
    pure (d.n, d.m, K.map ConeSt.kktSpec) : MErr (Nat × Nat × List Kkt.ConeSpec)).toOption
      = some (1, 1, [.nonneg 1]) := by decide +kernel

theorem uxPermFor : PermForU P #[1] A #[1] ([.nonneg 1] : List (ConeT Int)) (st 3) #[0, 1] := by
  intro d K hd hK
  have h := uxInternal
  rw [bind_ok_of hd, bind_ok_of hK] at h
  have h' : (d.n, d.m, K.map ConeSt.kktSpec) = (1, 1, [Kkt.ConeSpec.nonneg 1]) := Option.some.inj h
  simp only [Prod.mk.injEq] at h'
  obtain ⟨h1, h2, h3⟩ := h'
  refine ⟨⟨by decide, by decide⟩, ?_⟩
  rw [h1, h2, h3]
  rfl

/-- the example solver object has no presolver -/
theorem exNoPresolver {S : Solver Int} (h : newSolver 3 = .ok S) : S.st.data.presolver = none := by
  have hk : (newSolver 3).toOption.map (fun S => S.st.data.presolver.isNone) = some true := by
    decide +kernel
  rw [h] at hk
  simp only [Except.toOption, Option.map_some, Option.some.injEq] at hk
  cases hp : S.st.data.presolver with
  | none => rfl
  | some p => rw [hp] at hk; cases hk

/-- the base facts hold for the object `DefaultSolver::new` builds on the example -/
theorem exBase {S : Solver Int} (h : newSolver 3 = .ok S) : Base (st 3) #[0, 1] S :=
  base_of_new uxInputOK (by decide) uxPermFor h

/-- a history on the example that returns: `update_q`, `update_P` (empty: `P` has no entries),
`update_data` with a REJECTED last component (wrong length of `b`), all in whole forms -/
def exOps : List (UOp Int) :=
  [.updateQ (.slice #[5]), .updateP .empty0, .updateData .empty0 (.slice #[7]) (.slice #[2]) (.slice #[1, 1])]

/-- every history on the example object returns when it contains no `solve()` (the update operations
are total on objects satisfying the invariant) -/
theorem exRun_ok {S : Solver Int} (h : newSolver 3 = .ok S) :
    ∃ S' outs, Solver.runU (st 3) S exOps = .ok (S', outs) ∧ RunFine exOps outs := by
  have hb := exBase h
  obtain ⟨h0, _⟩ := UInv.init hb
  obtain ⟨S1, r1, e1, h1, _⟩ := updateQ_step hb h0 (.slice #[5])
  obtain ⟨S2, r2, pk2, e2, h2, _⟩ := updateP_step hb h1 (.empty0)
  obtain ⟨S3, r3, pk3, ak3, e3, h3, _⟩ := updateData_step hb h2 .empty0 (.slice #[7]) (.slice #[2]) (.slice #[1, 1])
  refine ⟨S3, [.res r1, .res r2, .res r3], ?_, ?_⟩
  · have s1 : S.stepU (st 3) (.updateQ (.slice #[5])) = .ok (S1, .res r1) := by
      rw [stepU_updateQ, e1]; rfl
    have s2 : S1.stepU (st 3) (.updateP .empty0) = .ok (S2, .res r2) := by
      rw [stepU_updateP, e2]; rfl
    have s3 : S2.stepU (st 3) (.updateData .empty0 (.slice #[7]) (.slice #[2]) (.slice #[1, 1]))
        = .ok (S3, .res r3) := by
      rw [stepU_updateData, e3]; rfl
    exact runU_cons_ok s1 (runU_cons_ok s2 (runU_cons_ok s3 rfl))
  · exact ⟨Or.inr rfl, Or.inr rfl, Or.inr rfl, trivial⟩

end Clarabel.Solver.Example
