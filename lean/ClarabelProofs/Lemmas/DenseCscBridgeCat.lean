/-
  C16: the bridge "dense ∘ csc = csc ∘ dense" for the block operations `blockdiag` and the
  general grid `hvcat` (continuation of `DenseCscBridge.lean`).

  As there, the lemmas take what the CSC spec theorem says about the result `R` (shape +
  `toDense` of the block positions) as explicit hypotheses; the wrappers in `Props/C16.lean`
  discharge them from `C16.blockdiag_spec` / `C16.hvcat_spec`.
-/
import ClarabelProofs.Lemmas.DenseCscBridge
import ClarabelProofs.Lemmas.DenseBlockdiag
import ClarabelProofs.Lemmas.CscHvcat

namespace Clarabel.Dense
open Clarabel Clarabel.C16

variable {α : Type}

/-! ### prefix sums: every index below the total lies in exactly one block -/

/-- every `J < Σ l` is `Σ_{k'<k} l[k'] + c` for some block `k` and offset `c < l[k]` -/
theorem prefix_decomp : ∀ (l : List Nat) (J : Nat), J < l.sum →
    ∃ k c, ∃ hk : k < l.length, c < l[k] ∧ J = (l.take k).sum + c := by
  intro l
  induction l with
  | nil => intro J hJ; simp at hJ
  | cons a t ih =>
    intro J hJ
    by_cases h : J < a
    · exact ⟨0, J, by simp, by simpa using h, by simp⟩
    · have hJ' : J - a < t.sum := by simp only [List.sum_cons] at hJ; omega
      obtain ⟨k, c, hk, hc, he⟩ := ih (J - a) hJ'
      refine ⟨k + 1, c, by simpa using hk, by simpa using hc, ?_⟩
      simp only [List.take_succ_cons, List.sum_cons]
      omega

/-! ### a canonical matrix has nothing below its last row -/

theorem toDense_zero_of_canonical [Add α] [OfNat α 0] {M : Csc α} (hM : Canonical M) {i j : Nat}
    (hi : M.m ≤ i) (hj : j < M.n) : M.toDense i j = 0 := by
  rw [Csc.toDense_eq_foldl_colVals, Csc.colVals_eq_nil_of_not_mem]
  · rfl
  · intro e he
    have := (Csc.colOK_of_canonical hM j hj).2 e he
    omega

/-! ### shapes of a mapped list -/

theorem map_ofCsc_m [Add α] [OfNat α 0] (l : List (Csc α)) :
    (l.map ofCsc).map (fun b : Dense α => b.m) = l.map (fun b : Csc α => b.m) := by
  rw [List.map_map]; rfl

theorem map_ofCsc_n [Add α] [OfNat α 0] (l : List (Csc α)) :
    (l.map ofCsc).map (fun b : Dense α => b.n) = l.map (fun b : Csc α => b.n) := by
  rw [List.map_map]; rfl

/-! ### blockdiag -/

/-- the dense `blockdiag_spec` read on a list of `ofCsc` blocks -/
theorem blockdiag_map_ofCsc_spec [Add α] [OfNat α 0] (mats : List (Csc α)) (hne : mats ≠ []) :
    ∃ D, blockdiag (mats.map ofCsc) = .ok D ∧ D.m = (mats.map (·.m)).sum ∧
      D.n = (mats.map (·.n)).sum ∧ WF D ∧
      ∀ k (hk : k < mats.length) j, j < mats[k].n → ∀ i, i < (mats.map (·.m)).sum →
        at? D i (((mats.take k).map (·.n)).sum + j) =
          if ((mats.take k).map (·.m)).sum ≤ i ∧ i < ((mats.take k).map (·.m)).sum + mats[k].m
          then at? (ofCsc mats[k]) (i - ((mats.take k).map (·.m)).sum) j else some 0 := by
  obtain ⟨D, h1, h2, h3, h4, h5⟩ := blockdiag_spec (mats.map ofCsc) (by simpa using hne)
    (by
      intro b hb
      obtain ⟨M, _, rfl⟩ := List.mem_map.mp hb
      exact ofCsc_wf M)
  refine ⟨D, h1, by rw [h2, map_ofCsc_m], by rw [h3, map_ofCsc_n], h4, ?_⟩
  intro k hk j hj i hi
  have hk' : k < (mats.map ofCsc).length := by simpa using hk
  have := h5 k hk' j (by simpa using hj) i (by rw [map_ofCsc_m]; exact hi)
  simp only [← List.map_take, map_ofCsc_m, map_ofCsc_n, List.getElem_map, ofCsc_m] at this
  exact this

/-- `blockdiag` commutes with `ofCsc` for canonical blocks; `hRm`, `hRn`, `hRd` are the
conclusions of `C16.blockdiag_spec` about the CSC result `R` -/
theorem blockdiag_ofCsc [Add α] [OfNat α 0] (mats : List (Csc α)) (R : Csc α) (hne : mats ≠ [])
    (hcan : ∀ M ∈ mats, Canonical M)
    (hRm : R.m = (mats.map (·.m)).sum) (hRn : R.n = (mats.map (·.n)).sum)
    (hRd : ∀ k (hk : k < mats.length) c, c < mats[k].n → ∀ i,
      R.toDense i (((mats.take k).map (·.n)).sum + c) =
        if ((mats.take k).map (·.m)).sum ≤ i
        then mats[k].toDense (i - ((mats.take k).map (·.m)).sum) c else 0) :
    blockdiag (mats.map ofCsc) = .ok (ofCsc R) := by
  obtain ⟨D, h1, h2, h3, h4, h5⟩ := blockdiag_map_ofCsc_spec mats hne
  rw [h1]
  congr 1
  apply eq_ofCsc D R h4 (by rw [h2, hRm]) (by rw [h3, hRn])
  intro i J hi hJ
  rw [hRn] at hJ
  rw [hRm] at hi
  obtain ⟨k, c, hk, hc, rfl⟩ := prefix_decomp _ J hJ
  have hk' : k < mats.length := by simpa using hk
  have hc' : c < mats[k].n := by simpa using hc
  have e1 : (mats.map (fun b : Csc α => b.n)).take k = (mats.take k).map (fun b : Csc α => b.n) := by
    rw [List.map_take]
  rw [e1, h5 k hk' c hc' i hi, hRd k hk' c hc' i]
  by_cases hle : ((mats.take k).map (·.m)).sum ≤ i
  · by_cases hlt : i < ((mats.take k).map (·.m)).sum + mats[k].m
    · rw [if_pos ⟨hle, hlt⟩, if_pos hle, ofCsc_at mats[k] (by omega) hc']
    · rw [if_neg (fun h => hlt h.2), if_pos hle,
        toDense_zero_of_canonical (hcan _ (List.getElem_mem hk')) (by omega) hc']
  · rw [if_neg (fun h => hle h.1), if_neg hle]

/-! ### the general grid -/

theorem headM_map_ofCsc [Add α] [OfNat α 0] (br : List (Csc α)) :
    headM (br.map ofCsc) = Csc.headM br := by
  cases br <;> rfl

theorem headD_map_map_ofCsc [Add α] [OfNat α 0] (mats : List (List (Csc α))) :
    (mats.map (fun br => br.map ofCsc)).headD [] = (mats.headD []).map ofCsc := by
  cases mats <;> rfl

/-- shapes are preserved: a consistent CSC grid gives a consistent dense grid -/
theorem gridOK_map_ofCsc [Add α] [OfNat α 0] (mats : List (List (Csc α))) (g : Csc.GridOK mats) :
    GridOK (mats.map (fun br => br.map ofCsc)) := by
  refine ⟨by simpa using g.ne, ?_, ?_, ?_, ?_⟩
  · rw [headD_map_map_ofCsc]; simpa using g.first_ne
  · intro br hbr
    obtain ⟨br0, h0, rfl⟩ := List.mem_map.mp hbr
    rw [headD_map_map_ofCsc, List.length_map, List.length_map]
    exact g.rect br0 h0
  · intro br hbr b hb
    obtain ⟨br0, h0, rfl⟩ := List.mem_map.mp hbr
    obtain ⟨b0, hb0, rfl⟩ := List.mem_map.mp hb
    rw [headM_map_ofCsc]
    exact g.heights br0 h0 b0 hb0
  · intro br hbr k
    obtain ⟨br0, h0, rfl⟩ := List.mem_map.mp hbr
    rw [headD_map_map_ofCsc, List.getElem?_map, List.getElem?_map, Option.map_map, Option.map_map]
    exact g.widths br0 h0 k

/-- the dense `hvcat_spec` read on a grid of `ofCsc` blocks -/
theorem hvcat_map_ofCsc_spec [Add α] [OfNat α 0] (mats : List (List (Csc α)))
    (g : Csc.GridOK mats) :
    ∃ D, hvcat (mats.map (fun br => br.map ofCsc)) = .ok D ∧ D.m = (mats.map Csc.headM).sum ∧
      D.n = ((mats.headD []).map (fun b : Csc α => b.n)).sum ∧ WF D ∧
      ∀ r k (hr : r < mats.length) (hk : k < mats[r].length) i j,
        i < mats[r][k].m → j < mats[r][k].n →
        at? D (((mats.take r).map Csc.headM).sum + i)
          ((((mats.headD []).map (fun b : Csc α => b.n)).take k).sum + j) =
          some (mats[r][k].toDense i j) := by
  have hhm : ∀ l : List (List (Csc α)),
      (l.map (fun br => br.map ofCsc)).map headM = l.map Csc.headM := by
    intro l
    rw [List.map_map]
    apply List.map_congr_left
    intro br _
    exact headM_map_ofCsc br
  obtain ⟨D, h1, h2, h3, h4, h5⟩ := hvcat_spec (mats.map (fun br => br.map ofCsc))
    (gridOK_map_ofCsc mats g)
    (by
      intro br hbr b hb
      obtain ⟨br0, _, rfl⟩ := List.mem_map.mp hbr
      obtain ⟨b0, _, rfl⟩ := List.mem_map.mp hb
      exact ofCsc_wf b0)
  refine ⟨D, h1, by rw [h2, hhm], by rw [h3, headD_map_map_ofCsc, map_ofCsc_n], h4, ?_⟩
  intro r k hr hk i j hi hj
  have hr' : r < (mats.map (fun br => br.map ofCsc)).length := by simpa using hr
  have hk' : k < ((mats.map (fun br : List (Csc α) => br.map ofCsc))[r]).length := by
    simpa using hk
  have := h5 r k hr' hk' i j (by simpa using hi) (by simpa using hj)
  simp only [← List.map_take, hhm, headD_map_map_ofCsc, map_ofCsc_n, List.getElem_map] at this
  simp only [← List.map_take]
  rw [this, ofCsc_at _ hi hj]

/-- `hvcat` commutes with `ofCsc` on a consistent grid; `hRm`, `hRn`, `hRd` are the
conclusions of `C16.hvcat_spec` about the CSC result `R` (`hRd` holds there for canonical
blocks) -/
theorem hvcat_ofCsc [Add α] [OfNat α 0] (mats : List (List (Csc α))) (R : Csc α)
    (g : Csc.GridOK mats)
    (hRm : R.m = (mats.map Csc.headM).sum)
    (hRn : R.n = ((mats.headD []).map (fun b : Csc α => b.n)).sum)
    (hRd : ∀ r k (hr : r < mats.length) (hk : k < mats[r].length) c i,
      c < mats[r][k].n → i < mats[r][k].m →
      R.toDense (((mats.take r).map Csc.headM).sum + i)
        ((((mats.headD []).map (fun b : Csc α => b.n)).take k).sum + c) =
        mats[r][k].toDense i c) :
    hvcat (mats.map (fun br => br.map ofCsc)) = .ok (ofCsc R) := by
  obtain ⟨D, h1, h2, h3, h4, h5⟩ := hvcat_map_ofCsc_spec mats g
  rw [h1]
  congr 1
  apply eq_ofCsc D R h4 (by rw [h2, hRm]) (by rw [h3, hRn])
  intro I J hI hJ
  rw [hRm] at hI
  rw [hRn] at hJ
  obtain ⟨r, i, hr, hi, rfl⟩ := prefix_decomp _ I hI
  obtain ⟨k, c, hk, hc, rfl⟩ := prefix_decomp _ J hJ
  have hr' : r < mats.length := by simpa using hr
  have hk0 : k < (mats.headD []).length := by simpa using hk
  have hbr : mats[r] ∈ mats := List.getElem_mem hr'
  have hkr : k < mats[r].length := by rw [g.rect _ hbr]; exact hk0
  have hm : mats[r][k].m = Csc.headM mats[r] := g.heights _ hbr _ (List.getElem_mem hkr)
  have hn : mats[r][k].n = ((mats.headD [])[k]).n := by
    have := g.widths _ hbr k
    rw [List.getElem?_eq_getElem hkr, List.getElem?_eq_getElem hk0] at this
    simpa using this
  have hi' : i < mats[r][k].m := by rw [hm]; simpa using hi
  have hc' : c < mats[r][k].n := by rw [hn]; simpa using hc
  have e1 : (mats.map Csc.headM).take r = (mats.take r).map Csc.headM := by rw [List.map_take]
  rw [e1, h5 r k hr' hkr i c hi' hc', hRd r k hr' hkr c i hc' hi']

end Clarabel.Dense
