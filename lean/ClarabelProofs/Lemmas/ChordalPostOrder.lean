/-
  `children_from_parent` and `post_order` (`ClarabelModel/Chordal/PostOrder.lean`).

  * `children_from_parent_spec`: on a well-formed parent array the children lists are built
    without panic and list exactly the children of every vertex, without repetition.
  * `post_order_spec`: on a forest whose first root `r` is reached by at most `nc` vertices
    the stack walk terminates within its fuel, the counter does not underflow, no index is
    out of range; the result has no repetition, has `min nc n` entries, and lists every
    vertex of the tree of `r` before its parent.
-/
import ClarabelModel.Chordal.PostOrder
import Mathlib.Data.List.Nodup
import Mathlib.Data.List.Perm.Basic

namespace Clarabel.Chordal

/-! ### reads and writes in `MErr` -/

private theorem getE_ok {β : Type} (xs : Array β) (i : Nat) (s : String) (d : β)
    (h : i < xs.size) : getE xs i s = .ok (xs.getD i d) := by
  unfold getE
  simp [h, Array.getD, pure, Except.pure]

private theorem setE_ok {β : Type} (xs : Array β) (i : Nat) (v : β) (s : String)
    (h : i < xs.size) : setE xs i v s = .ok (xs.setIfInBounds i v) := by
  unfold setE
  simp [h, Array.setIfInBounds, pure, Except.pure]

private theorem getD_set_self {β : Type} (xs : Array β) (i : Nat) (v d : β) (h : i < xs.size) :
    (xs.setIfInBounds i v).getD i d = v := by
  simp [Array.getD_eq_getD_getElem?, h]

private theorem getD_set_ne {β : Type} (xs : Array β) (i j : Nat) (v d : β) (h : i ≠ j) :
    (xs.setIfInBounds i v).getD j d = xs.getD j d := by
  simp [Array.getD_eq_getD_getElem?, h]

/-! ### vertex sets -/

/-- [S] `IndexSet::insert` adds the element -/
theorem VSet.mem_insert (s : VSet) (v c : Nat) :
    c ∈ (s.insert v).toList ↔ c ∈ s.toList ∨ c = v := by
  unfold VSet.insert
  by_cases h : s.contains v
  · simp only [h, if_true]
    have hv : v ∈ s := by simpa using h
    constructor
    · exact Or.inl
    · rintro (h | rfl)
      · exact h
      · simpa using hv
  · simp only [h]
    simp

/-- [S] `IndexSet::insert` keeps the set free of repetitions -/
theorem VSet.nodup_insert (s : VSet) (v : Nat) (h : s.toList.Nodup) :
    (s.insert v).toList.Nodup := by
  unfold VSet.insert
  by_cases hc : s.contains v
  · simp only [hc, if_true]; exact h
  · simp only [hc]
    have hv : v ∉ s.toList := by simpa using hc
    simp only [Array.toList_push, Bool.false_eq_true, if_false]
    exact List.nodup_append.2 ⟨h, List.nodup_singleton v, by
      intro a ha b hb hab
      have : b = v := by simpa using hb
      exact hv (this ▸ hab ▸ ha)⟩

/-- [S] `sort` permutes the set -/
theorem VSet.sort_perm (s : VSet) : s.sort.toList.Perm s.toList := by
  unfold VSet.sort
  exact List.mergeSort_perm _ _

/-- [S] `sort` keeps the elements -/
theorem VSet.mem_sort (s : VSet) (c : Nat) : c ∈ s.sort.toList ↔ c ∈ s.toList :=
  (VSet.sort_perm s).mem_iff

/-- [S] `sort` keeps the set free of repetitions -/
theorem VSet.nodup_sort (s : VSet) : s.sort.toList.Nodup ↔ s.toList.Nodup :=
  (VSet.sort_perm s).nodup_iff

/-! ### `children_from_parent` -/

/-- `children` lists, for every vertex, exactly its children w.r.t. `parent`, without repetition -/
structure ChildrenOf (parent : Array Nat) (children : Array VSet) : Prop where
  size_eq : children.size = parent.size
  nodup : ∀ v, v < parent.size → (children.getD v #[]).toList.Nodup
  mem_iff : ∀ v c, v < parent.size →
    (c ∈ (children.getD v #[]).toList ↔ (c < parent.size ∧ parent.getD c 0 = v))

/-- `v` reaches `r` by following parent pointers -/
inductive Reaches (parent : Array Nat) (r : Nat) : Nat → Prop
  | root : Reaches parent r r
  | step {c} : c < parent.size → Reaches parent r (parent.getD c 0) → Reaches parent r c

/-- the body of the loop of `children_from_parent` -/
private def cfpStep (parent : Array Nat) (ch : Array VSet) (i : Nat) : MErr (Array VSet) := do
  let pi ← getE parent i "children_from_parent"
  if pi == noParent then pure ch else
  let c ← getE ch pi "children_from_parent"
  setE ch pi (c.insert i)

private theorem cfp_fold (parent : Array Nat)
    (hp : ∀ i, i < parent.size → parent.getD i 0 = noParent ∨ parent.getD i 0 < parent.size)
    (hn : parent.size < noParent) :
    ∀ k, k ≤ parent.size →
      ∃ ch, (List.range k).foldlM (cfpStep parent) (Array.replicate parent.size #[]) = .ok ch ∧
        ch.size = parent.size ∧
        ∀ v, v < parent.size → (ch.getD v #[]).toList.Nodup ∧
          ∀ c, c ∈ (ch.getD v #[]).toList ↔ (c < k ∧ parent.getD c 0 = v) := by
  intro k
  induction k with
  | zero =>
    intro _
    refine ⟨_, rfl, by simp, ?_⟩
    intro v hv
    simp [Array.getD_eq_getD_getElem?, hv]
  | succ k ih =>
    intro hk
    obtain ⟨ch, hf, hsz, hinv⟩ := ih (by omega)
    have hkn : k < parent.size := by omega
    rw [List.range_succ, List.foldlM_append, hf]
    simp only [bind, Except.bind, List.foldlM_cons, List.foldlM_nil]
    rcases hp k hkn with hroot | hlt
    · -- `k` is a root: nothing changes
      have hstep : cfpStep parent ch k = .ok ch := by
        unfold cfpStep
        simp only [getE_ok parent k _ 0 hkn, bind, Except.bind, hroot, beq_self_eq_true, if_true]
        rfl
      refine ⟨ch, by rw [hstep]; rfl, hsz, ?_⟩
      intro v hv
      refine ⟨(hinv v hv).1, fun c => ?_⟩
      rw [(hinv v hv).2 c]
      constructor
      · rintro ⟨h1, h2⟩; exact ⟨by omega, h2⟩
      · rintro ⟨h1, h2⟩
        refine ⟨?_, h2⟩
        rcases Nat.lt_succ_iff_lt_or_eq.1 h1 with h | h
        · exact h
        · subst h; omega
    · -- `k` is appended to the children of its parent
      have hne : ¬ (parent.getD k 0 == noParent) = true := by
        simp only [beq_iff_eq]; omega
      have hstep : cfpStep parent ch k = .ok
          (ch.setIfInBounds (parent.getD k 0) ((ch.getD (parent.getD k 0) #[]).insert k)) := by
        unfold cfpStep
        simp only [getE_ok parent k _ 0 hkn, bind, Except.bind, hne, Bool.false_eq_true, if_false,
          getE_ok ch (parent.getD k 0) _ #[] (by rw [hsz]; exact hlt),
          setE_ok ch (parent.getD k 0) _ _ (by rw [hsz]; exact hlt)]
      refine ⟨_, by rw [hstep]; rfl, by simpa using hsz, ?_⟩
      intro v hv
      by_cases hvp : parent.getD k 0 = v
      · subst hvp
        rw [getD_set_self _ _ _ _ (by rw [hsz]; exact hlt)]
        refine ⟨VSet.nodup_insert _ _ (hinv _ hv).1, fun c => ?_⟩
        rw [VSet.mem_insert, (hinv _ hv).2 c]
        constructor
        · rintro (⟨h1, h2⟩ | rfl)
          · exact ⟨by omega, h2⟩
          · exact ⟨by omega, rfl⟩
        · rintro ⟨h1, h2⟩
          rcases Nat.lt_succ_iff_lt_or_eq.1 h1 with h | h
          · exact Or.inl ⟨h, h2⟩
          · exact Or.inr h
      · rw [getD_set_ne _ _ _ _ _ hvp]
        refine ⟨(hinv v hv).1, fun c => ?_⟩
        rw [(hinv v hv).2 c]
        constructor
        · rintro ⟨h1, h2⟩; exact ⟨by omega, h2⟩
        · rintro ⟨h1, h2⟩
          refine ⟨?_, h2⟩
          rcases Nat.lt_succ_iff_lt_or_eq.1 h1 with h | h
          · exact h
          · subst h; exact absurd h2 hvp

/-- [S] `children_from_parent` does not panic on a well-formed parent array and returns
exactly the children lists. -/
theorem children_from_parent_spec (parent : Array Nat)
    (hp : ∀ i, i < parent.size → parent.getD i 0 = noParent ∨ parent.getD i 0 < parent.size)
    (hn : parent.size < noParent) :
    ∃ ch, childrenFromParent parent = .ok ch ∧ ChildrenOf parent ch := by
  obtain ⟨ch, hf, hsz, hinv⟩ := cfp_fold parent hp hn parent.size (Nat.le_refl _)
  refine ⟨ch, hf, hsz, fun v hv => (hinv v hv).1, fun v c hv => (hinv v hv).2 c⟩

example : ∃ ch, childrenFromParent #[2, 2, noParent] = .ok ch ∧
    ChildrenOf #[2, 2, noParent] ch := by
  apply children_from_parent_spec
  · intro i hi
    have hi' : i < 3 := hi
    have : i = 0 ∨ i = 1 ∨ i = 2 := by omega
    rcases this with rfl | rfl | rfl <;> decide
  · decide

/-! ### sorting the children of one vertex -/

/-- [S] sorting the children of `v` in place preserves `ChildrenOf` -/
theorem ChildrenOf.sort_at {parent : Array Nat} {children : Array VSet}
    (h : ChildrenOf parent children) (v : Nat) :
    ChildrenOf parent (children.setIfInBounds v (children.getD v #[]).sort) := by
  refine ⟨by simpa using h.size_eq, ?_, ?_⟩
  · intro w hw
    by_cases hvw : v = w
    · subst hvw
      rw [getD_set_self _ _ _ _ (by rw [h.size_eq]; exact hw), VSet.nodup_sort]
      exact h.nodup v hw
    · rw [getD_set_ne _ _ _ _ _ hvw]; exact h.nodup w hw
  · intro w c hw
    by_cases hvw : v = w
    · subst hvw
      rw [getD_set_self _ _ _ _ (by rw [h.size_eq]; exact hw), VSet.mem_sort]
      exact h.mem_iff v c hw
    · rw [getD_set_ne _ _ _ _ _ hvw]; exact h.mem_iff w c hw

/-! ### list facts -/

/-- [S] pigeonhole: a repetition-free list of numbers below `n` has at most `n` entries -/
theorem length_le_of_nodup_lt {l : List Nat} {n : Nat} (hnd : l.Nodup) (hlt : ∀ v ∈ l, v < n) :
    l.length ≤ n := by
  have : l ⊆ List.range n := fun v hv => List.mem_range.2 (hlt v hv)
  simpa using hnd.length_le_of_subset this

/-- [S] in a list sorted by `key`, an element with a strictly smaller key comes first -/
theorem sublist_pair_of_pairwise {key : Nat → Nat} :
    ∀ {l : List Nat}, l.Pairwise (fun a b => key a ≤ key b) →
      ∀ {c v : Nat}, c ∈ l → v ∈ l → key c < key v → List.Sublist [c, v] l := by
  intro l
  induction l with
  | nil => intro _ c v hc; simp at hc
  | cons a t ih =>
    intro hpw c v hc hv hlt
    rw [List.pairwise_cons] at hpw
    rcases List.mem_cons.1 hc with rfl | hct
    · rcases List.mem_cons.1 hv with rfl | hvt
      · omega
      · exact List.Sublist.cons_cons _ (List.singleton_sublist.2 hvt)
    · rcases List.mem_cons.1 hv with rfl | hvt
      · have := hpw.1 c hct; omega
      · exact List.Sublist.cons _ (ih hpw.2 hct hvt hlt)

/-- [S] in a list sorted by `key`, the elements with key at most `K` form a prefix -/
theorem mem_take_of_pairwise {key : Nat → Nat} {K : Nat} :
    ∀ {l : List Nat} {m : Nat}, l.Pairwise (fun a b => key a ≤ key b) →
      (l.filter (fun x => decide (key x ≤ K))).length ≤ m →
      ∀ {v : Nat}, v ∈ l → key v ≤ K → v ∈ l.take m := by
  intro l
  induction l with
  | nil => intro _ _ _ v hv; simp at hv
  | cons a t ih =>
    intro m hpw hlen v hv hk
    rw [List.pairwise_cons] at hpw
    have hak : key a ≤ K := by
      rcases List.mem_cons.1 hv with rfl | hvt
      · exact hk
      · have := hpw.1 v hvt; omega
    rw [List.filter_cons_of_pos (by simpa using hak), List.length_cons] at hlen
    obtain ⟨m', rfl⟩ : ∃ m', m = m' + 1 := ⟨m - 1, by omega⟩
    rw [List.take_succ_cons]
    rcases List.mem_cons.1 hv with rfl | hvt
    · exact List.mem_cons_self ..
    · exact List.mem_cons_of_mem _ (ih hpw.2 (by omega) hvt hk)

/-! ### the stack walk -/

/-- invariant of the loop of `post_order`: `stack` is the current stack (top first), `seq` the
vertices popped so far (latest first), `i` the counter -/
structure DfsInv (parent : Array Nat) (r nc : Nat) (children : Array VSet)
    (stack seq : List Nat) (order : Array Nat) (i : Nat) : Prop where
  ch : ChildrenOf parent children
  nodup : (stack ++ seq).Nodup
  lt_reach : ∀ v, v ∈ stack ++ seq → v < parent.size ∧ Reaches parent r v
  par : ∀ v, v ∈ stack ++ seq → v = r ∨ parent.getD v 0 ∈ seq
  osize : order.size = parent.size
  cnt : i + seq.length = nc
  ogt : ∀ v, v ∈ seq → i < order.getD v 0
  ole : ∀ v, v ∈ seq → order.getD v 0 ≤ nc
  onot : ∀ v, v ∉ seq → v < parent.size → order.getD v 0 = nc + 1
  olt : ∀ c, c ∈ seq → c ≠ r → order.getD c 0 < order.getD (parent.getD c 0) 0
  closed : ∀ v, v ∈ seq → ∀ c, c < parent.size → parent.getD c 0 = v → c ∈ stack ++ seq
  root_mem : r ∈ stack ++ seq

/-- [S] one pop preserves the invariant -/
theorem DfsInv.pop {parent : Array Nat} {r nc : Nat} {children : Array VSet}
    {v : Nat} {stack seq : List Nat} {order : Array Nat} {i : Nat}
    (hn : parent.size < noParent) (hroot : parent.getD r 0 = noParent)
    (inv : DfsInv parent r nc children (v :: stack) seq order i) (hi : 0 < i) :
    DfsInv parent r nc (children.setIfInBounds v (children.getD v #[]).sort)
      ((children.getD v #[]).sort.toList.reverse ++ stack) (v :: seq)
      (order.setIfInBounds v i) (i - 1) := by
  have hv : v < parent.size := (inv.lt_reach v (by simp)).1
  have hvr : Reaches parent r v := (inv.lt_reach v (by simp)).2
  have hnd : (v :: (stack ++ seq)).Nodup := by simpa using inv.nodup
  have hvs : v ∉ stack ++ seq := (List.nodup_cons.1 hnd).1
  have hvseq : v ∉ seq := fun h => hvs (List.mem_append_right _ h)
  have hmem : ∀ c, c ∈ (children.getD v #[]).sort.toList ↔
      (c < parent.size ∧ parent.getD c 0 = v) := by
    intro c; rw [VSet.mem_sort]; exact inv.ch.mem_iff v c hv
  -- a child of `v` has not been seen yet
  have hfresh : ∀ c, c ∈ (children.getD v #[]).sort.toList → c ∉ v :: (stack ++ seq) := by
    intro c hc hc'
    obtain ⟨hcn, hcp⟩ := (hmem c).1 hc
    rcases inv.par c (by simpa using hc') with h | h
    · subst h; rw [hroot] at hcp; omega
    · rw [hcp] at h; exact hvseq h
  have hmem_new : ∀ x, x ∈ (children.getD v #[]).sort.toList.reverse ++ stack ++ v :: seq ↔
      x ∈ (children.getD v #[]).sort.toList ∨ x ∈ (v :: stack) ++ seq := by
    intro x
    simp only [List.mem_append, List.mem_reverse, List.mem_cons]
    constructor
    · rintro ((h | h) | h | h)
      · exact Or.inl h
      · exact Or.inr (Or.inl (Or.inr h))
      · exact Or.inr (Or.inl (Or.inl h))
      · exact Or.inr (Or.inr h)
    · rintro (h | (h | h) | h)
      · exact Or.inl (Or.inl h)
      · exact Or.inr (Or.inl h)
      · exact Or.inl (Or.inr h)
      · exact Or.inr (Or.inr h)
  refine ⟨inv.ch.sort_at v, ?_, ?_, ?_, by simpa using inv.osize, ?_, ?_, ?_, ?_, ?_, ?_, ?_⟩
  · -- nodup
    have hperm : ((children.getD v #[]).sort.toList.reverse ++ stack ++ v :: seq).Perm
        ((children.getD v #[]).sort.toList ++ v :: (stack ++ seq)) := by
      rw [List.append_assoc]
      refine List.Perm.append (List.reverse_perm _) ?_
      exact List.perm_middle
    rw [hperm.nodup_iff]
    refine List.nodup_append.2 ⟨(VSet.nodup_sort _).2 (inv.ch.nodup v hv), hnd, ?_⟩
    intro a ha b hb hab
    subst hab
    exact hfresh a ha hb
  · -- range and reachability
    intro x hx
    rcases (hmem_new x).1 hx with h | h
    · obtain ⟨hcn, hcp⟩ := (hmem x).1 h
      exact ⟨hcn, Reaches.step hcn (by rw [hcp]; exact hvr)⟩
    · exact inv.lt_reach x h
  · -- parents
    intro x hx
    rcases (hmem_new x).1 hx with h | h
    · right; rw [((hmem x).1 h).2]; exact List.mem_cons_self ..
    · rcases inv.par x h with h' | h'
      · exact Or.inl h'
      · exact Or.inr (List.mem_cons_of_mem _ h')
  · -- counter
    have := inv.cnt
    simp only [List.length_cons]; omega
  · -- popped vertices have larger order values than the counter
    intro x hx
    rcases List.mem_cons.1 hx with rfl | hx
    · rw [getD_set_self _ _ _ _ (by rw [inv.osize]; exact hv)]; omega
    · have hne : v ≠ x := fun h => hvseq (h ▸ hx)
      rw [getD_set_ne _ _ _ _ _ hne]
      have := inv.ogt x hx; omega
  · -- popped vertices have order values at most `nc`
    intro x hx
    rcases List.mem_cons.1 hx with rfl | hx
    · rw [getD_set_self _ _ _ _ (by rw [inv.osize]; exact hv)]
      have := inv.cnt; omega
    · have hne : v ≠ x := fun h => hvseq (h ▸ hx)
      rw [getD_set_ne _ _ _ _ _ hne]
      exact inv.ole x hx
  · -- the other vertices keep the initial value
    intro x hx hxn
    have hne : v ≠ x := fun h => hx (h ▸ List.mem_cons_self ..)
    rw [getD_set_ne _ _ _ _ _ hne]
    exact inv.onot x (fun h => hx (List.mem_cons_of_mem _ h)) hxn
  · -- a popped vertex has a smaller order value than its parent
    intro c hc hcr
    rcases List.mem_cons.1 hc with rfl | hc
    · have hp : parent.getD c 0 ∈ seq := by
        rcases inv.par c (by simp) with h | h
        · exact absurd h hcr
        · exact h
      have hne : c ≠ parent.getD c 0 := fun h => hvseq (h ▸ hp)
      rw [getD_set_self _ _ _ _ (by rw [inv.osize]; exact hv), getD_set_ne _ _ _ _ _ hne]
      exact inv.ogt _ hp
    · have hp : parent.getD c 0 ∈ seq := by
        rcases inv.par c (List.mem_append_right _ hc) with h | h
        · exact absurd h hcr
        · exact h
      have hne1 : v ≠ c := fun h => hvseq (h ▸ hc)
      have hne2 : v ≠ parent.getD c 0 := fun h => hvseq (h ▸ hp)
      rw [getD_set_ne _ _ _ _ _ hne1, getD_set_ne _ _ _ _ _ hne2]
      exact inv.olt c hc hcr
  · -- children of popped vertices have been pushed
    intro x hx c hcn hcp
    rw [hmem_new]
    rcases List.mem_cons.1 hx with rfl | hx
    · exact Or.inl ((hmem c).2 ⟨hcn, hcp⟩)
    · exact Or.inr (inv.closed x hx c hcn hcp)
  · rw [hmem_new]; exact Or.inr inv.root_mem

/-- [S] the walk terminates within its fuel, without panic, in a state satisfying the invariant
with an empty stack -/
theorem dfsLoop_spec {parent : Array Nat} {r nc : Nat}
    (hn : parent.size < noParent) (hroot : parent.getD r 0 = noParent)
    (hcount : ∀ l : List Nat, l.Nodup → (∀ v ∈ l, v < parent.size ∧ Reaches parent r v) →
      l.length ≤ nc) :
    ∀ (fuel : Nat) (children : Array VSet) (stack seq : List Nat) (order : Array Nat) (i : Nat),
      DfsInv parent r nc children stack seq order i →
      parent.size + 1 ≤ fuel + seq.length →
      ∃ ch' order' seq' i', dfsLoop fuel children stack order i = .ok (ch', order') ∧
        DfsInv parent r nc ch' [] seq' order' i' := by
  intro fuel
  induction fuel with
  | zero =>
    intro children stack seq order i inv hf
    have hnd : seq.Nodup := (List.nodup_append.1 inv.nodup).2.1
    have := length_le_of_nodup_lt hnd
      (fun v hv => (inv.lt_reach v (List.mem_append_right _ hv)).1)
    omega
  | succ fuel ih =>
    intro children stack seq order i inv hf
    cases stack with
    | nil => exact ⟨children, order, seq, i, rfl, inv⟩
    | cons v stack =>
      have hv : v < parent.size := (inv.lt_reach v (by simp)).1
      have hnd : (v :: (stack ++ seq)).Nodup := by simpa using inv.nodup
      -- the counter is positive: `v :: seq` are distinct vertices reaching the root
      have hi : 0 < i := by
        have h1 : (v :: seq).Nodup := by
          refine List.nodup_cons.2 ⟨fun h => (List.nodup_cons.1 hnd).1 (List.mem_append_right _ h), ?_⟩
          exact (List.nodup_append.1 inv.nodup).2.1
        have h2 := hcount (v :: seq) h1 (by
          intro x hx
          rcases List.mem_cons.1 hx with rfl | hx
          · exact inv.lt_reach x (by simp)
          · exact inv.lt_reach x (List.mem_append_right _ hx))
        have := inv.cnt
        simp only [List.length_cons] at h2
        omega
      obtain ⟨ch', order', seq', i', hrun, hinv⟩ :=
        ih _ _ _ _ _ (inv.pop hn hroot hi) (by simp only [List.length_cons]; omega)
      refine ⟨ch', order', seq', i', ?_, hinv⟩
      rw [← hrun]
      simp only [dfsLoop, setE_ok order v i _ (by rw [inv.osize]; exact hv),
        getE_ok children v _ #[] (by rw [inv.ch.size_eq]; exact hv),
        setE_ok children v _ _ (by rw [inv.ch.size_eq]; exact hv),
        bind, Except.bind, if_neg (Nat.pos_iff_ne_zero.1 hi)]

/-- [S] at the end of the walk every vertex that reaches the root has been popped -/
theorem DfsInv.reaches_mem {parent : Array Nat} {r nc : Nat} {children : Array VSet}
    {seq : List Nat} {order : Array Nat} {i : Nat}
    (inv : DfsInv parent r nc children [] seq order i) {c : Nat} (hc : Reaches parent r c) :
    c ∈ seq := by
  induction hc with
  | root => simpa using inv.root_mem
  | step hcn _ ih => simpa using inv.closed _ ih _ hcn rfl

/-! ### `post_order` -/

/-- [S] `post_order` on a forest: the walk from the first root `r` terminates within its fuel,
the counter never underflows and no index is out of range (`= .ok`), provided at most `nc`
vertices reach `r`.  The result has no repetition, stays in range, has `min nc n` entries,
the children lists are still the children lists, and every vertex of the tree of `r` is
listed before its parent; moreover every vertex of the tree of `r` is listed. -/
theorem post_order_spec (parent : Array Nat) (children : Array VSet) (nc r : Nat)
    (hch : ChildrenOf parent children) (hn : parent.size < noParent) (hr : r < parent.size)
    (hfind : parent.toList.findIdx? (· == noParent) = some r)
    (hcount : ∀ l : List Nat, l.Nodup → (∀ v ∈ l, v < parent.size ∧ Reaches parent r v) →
      l.length ≤ nc) :
    ∃ post ch', postOrder parent children nc = .ok (post, ch') ∧
      post.toList.Nodup ∧ (∀ v ∈ post.toList, v < parent.size) ∧
      post.size = min nc parent.size ∧ ChildrenOf parent ch' ∧
      (∀ c v, c ∈ post.toList → v ∈ post.toList → Reaches parent r c → c ≠ r →
        parent.getD c 0 = v → List.Sublist [c, v] post.toList) ∧
      (∀ v, Reaches parent r v → v ∈ post.toList) := by
  have hroot : parent.getD r 0 = noParent := by
    obtain ⟨h, hp, _⟩ := List.findIdx?_eq_some_iff_getElem.1 hfind
    have : parent.getD r 0 = parent.toList[r] := by
      simp [Array.getD, hr]
    rw [this]
    simpa using hp
  have inv0 : DfsInv parent r nc children [r] []
      (Array.replicate parent.size (nc + 1)) nc := by
    refine ⟨hch, by simp, ?_, ?_, by simp, by simp, by simp, by simp, ?_, by simp, by simp,
      by simp⟩
    · intro v hv
      have : v = r := by simpa using hv
      subst this
      exact ⟨hr, Reaches.root⟩
    · intro v hv
      have : v = r := by simpa using hv
      exact Or.inl this
    · intro v _ hv
      simp [Array.getD_eq_getD_getElem?, hv]
  obtain ⟨ch', order', seq', i', hrun, hinv⟩ :=
    dfsLoop_spec hn hroot hcount (parent.size + 1) children [r] []
      (Array.replicate parent.size (nc + 1)) nc inv0 (by simp)
  -- the sorted list of all vertices
  have hperm := List.mergeSort_perm (List.range parent.size)
    (fun x y => decide (order'.getD x 0 ≤ order'.getD y 0))
  have hsorted : ((List.range parent.size).mergeSort
      (fun x y => decide (order'.getD x 0 ≤ order'.getD y 0))).Pairwise
      (fun a b => order'.getD a 0 ≤ order'.getD b 0) := by
    have := List.pairwise_mergeSort
      (le := fun x y => decide (order'.getD x 0 ≤ order'.getD y 0))
      (by intro a b c hab hbc; simp only [decide_eq_true_eq] at *; omega)
      (by intro a b; simp only [Bool.or_eq_true, decide_eq_true_eq]; omega)
      (List.range parent.size)
    simpa using this
  generalize hL : (List.range parent.size).mergeSort
      (fun x y => decide (order'.getD x 0 ≤ order'.getD y 0)) = L at hperm hsorted
  have hLlen : L.length = parent.size := by simpa using hperm.length_eq
  have hLnd : L.Nodup := hperm.nodup_iff.2 List.nodup_range
  have hLlt : ∀ v ∈ L, v < parent.size := fun v hv => List.mem_range.1 (hperm.mem_iff.1 hv)
  have htake : (if (nc != parent.size) = true then L.take nc else L) = L.take nc := by
    by_cases h : nc = parent.size
    · subst h
      simp only [bne_self_eq_false, Bool.false_eq_true, if_false]
      exact (List.take_of_length_le (Nat.le_of_eq hLlen)).symm
    · have : (nc != parent.size) = true := by simpa using h
      simp only [this, if_true]
  refine ⟨(L.take nc).toArray, ch', ?_, ?_, ?_, ?_, hinv.ch, ?_, ?_⟩
  · unfold postOrder
    simp only [hfind, hrun, hL, htake, bind, Except.bind, pure, Except.pure]
  · exact (List.take_sublist nc L).nodup hLnd
  · intro v hv
    exact hLlt v ((List.take_sublist nc L).subset hv)
  · simp only [List.size_toArray, List.length_take, hLlen]
  · intro c v hc hv hreach hcr hpar
    have hcs : c ∈ seq' := hinv.reaches_mem hreach
    have hlt := hinv.olt c hcs hcr
    rw [hpar] at hlt
    exact sublist_pair_of_pairwise (key := fun a => order'.getD a 0)
      (hsorted.sublist (List.take_sublist nc L)) hc hv hlt
  · intro v hreach
    have hvs : v ∈ seq' := hinv.reaches_mem hreach
    have hvn : v < parent.size := (hinv.lt_reach v (by simpa using hvs)).1
    have hseqnd : seq'.Nodup := by simpa using hinv.nodup
    -- the vertices with an order value `≤ nc` are the popped ones, and there are at most `nc`
    have hfl : (L.filter (fun x => decide (order'.getD x 0 ≤ nc))).length ≤ nc := by
      have hsub : L.filter (fun x => decide (order'.getD x 0 ≤ nc)) ⊆ seq' := by
        intro x hx
        obtain ⟨hxL, hxk⟩ := List.mem_filter.1 hx
        have hxk' : order'.getD x 0 ≤ nc := by simpa using hxk
        by_contra hxs
        have := hinv.onot x hxs (hLlt x hxL)
        omega
      have h1 := (hLnd.filter _).length_le_of_subset hsub
      have h2 := hinv.cnt
      omega
    exact mem_take_of_pairwise (key := fun a => order'.getD a 0) hsorted hfl
      (hperm.mem_iff.2 (List.mem_range.2 hvn)) (hinv.ole v hvs)

/-- [S] `post_order` with `nc = parent.size` (no clique merged away): the counting
hypothesis of `post_order_spec` holds by the pigeonhole principle. -/
theorem post_order_spec_full (parent : Array Nat) (children : Array VSet) (r : Nat)
    (hch : ChildrenOf parent children) (hn : parent.size < noParent) (hr : r < parent.size)
    (hfind : parent.toList.findIdx? (· == noParent) = some r) :
    ∃ post ch', postOrder parent children parent.size = .ok (post, ch') ∧
      post.toList.Nodup ∧ (∀ v ∈ post.toList, v < parent.size) ∧
      post.size = parent.size ∧ ChildrenOf parent ch' ∧
      (∀ c v, c ∈ post.toList → v ∈ post.toList → Reaches parent r c → c ≠ r →
        parent.getD c 0 = v → List.Sublist [c, v] post.toList) ∧
      (∀ v, Reaches parent r v → v ∈ post.toList) := by
  obtain ⟨post, ch', h1, h2, h3, h4, h5, h6⟩ :=
    post_order_spec parent children parent.size r hch hn hr hfind
      (fun l hnd hl => length_le_of_nodup_lt hnd (fun v hv => (hl v hv).1))
  exact ⟨post, ch', h1, h2, h3, by simpa using h4, h5, h6⟩

/-! ### non-vacuity -/

example : (VSet.insert #[3, 1] 2).toList.Nodup := VSet.nodup_insert _ _ (by decide)

example : [2, 0, 1].length ≤ 3 := length_le_of_nodup_lt (by decide) (by decide)

example : List.Sublist [5, 7] [4, 5, 6, 7] :=
  sublist_pair_of_pairwise (key := id) (by decide) (by decide) (by decide) (by decide)

private theorem ex_tree_hp : ∀ i, i < (#[2, 2, noParent] : Array Nat).size →
    (#[2, 2, noParent] : Array Nat).getD i 0 = noParent ∨
    (#[2, 2, noParent] : Array Nat).getD i 0 < (#[2, 2, noParent] : Array Nat).size := by
  intro i hi
  have hi' : i < 3 := hi
  have : i = 0 ∨ i = 1 ∨ i = 2 := by omega
  rcases this with rfl | rfl | rfl <;> decide

/-- non-vacuity of `ChildrenOf.sort_at`, `post_order_spec_full`: the tree `0 → 2 ← 1` -/
example : ∃ ch post ch', childrenFromParent #[2, 2, noParent] = .ok ch ∧
    ChildrenOf #[2, 2, noParent] (ch.setIfInBounds 2 (ch.getD 2 #[]).sort) ∧
    postOrder #[2, 2, noParent] ch 3 = .ok (post, ch') ∧ post.size = 3 := by
  obtain ⟨ch, h1, h2⟩ := children_from_parent_spec #[2, 2, noParent] ex_tree_hp (by decide)
  obtain ⟨post, ch', h3, _, _, h4, _⟩ :=
    post_order_spec_full #[2, 2, noParent] ch 2 h2 (by decide) (by decide) (by decide)
  exact ⟨ch, post, ch', h1, h2.sort_at 2, h3, h4⟩

private theorem ex_forest_hp : ∀ i, i < (#[noParent, 0, noParent] : Array Nat).size →
    (#[noParent, 0, noParent] : Array Nat).getD i 0 = noParent ∨
    (#[noParent, 0, noParent] : Array Nat).getD i 0 < (#[noParent, 0, noParent] : Array Nat).size := by
  intro i hi
  have hi' : i < 3 := hi
  have : i = 0 ∨ i = 1 ∨ i = 2 := by omega
  rcases this with rfl | rfl | rfl <;> decide

private theorem ex_forest_count : ∀ l : List Nat, l.Nodup →
    (∀ v ∈ l, v < (#[noParent, 0, noParent] : Array Nat).size ∧
      Reaches #[noParent, 0, noParent] 0 v) → l.length ≤ 2 := by
  intro l hnd hl
  have hsub : l ⊆ [0, 1] := by
    intro v hv
    obtain ⟨hv3, hreach⟩ := hl v hv
    have hv3' : v < 3 := hv3
    have : v = 0 ∨ v = 1 ∨ v = 2 := by omega
    rcases this with rfl | rfl | rfl
    · simp
    · simp
    · exfalso
      cases hreach with
      | step _ h =>
        have h' : Reaches #[noParent, 0, noParent] 0 noParent := h
        cases h' with
        | step hlt _ =>
          have hlt' : noParent < 3 := hlt
          exact absurd hlt' (by decide)
  simpa using hnd.length_le_of_subset hsub

example : 5 ∈ [4, 5, 6, 7].take 2 :=
  mem_take_of_pairwise (key := id) (K := 5) (by decide) (by decide) (by decide) (by decide)

/-- [S] children before parents, without membership hypotheses: in the result of
`post_order` every non-root vertex of the tree of `r` is listed, and is listed before its
parent. -/
theorem post_order_child_before_parent (parent : Array Nat) (children : Array VSet) (nc r : Nat)
    (hch : ChildrenOf parent children) (hn : parent.size < noParent) (hr : r < parent.size)
    (hfind : parent.toList.findIdx? (· == noParent) = some r)
    (hcount : ∀ l : List Nat, l.Nodup → (∀ v ∈ l, v < parent.size ∧ Reaches parent r v) →
      l.length ≤ nc) :
    ∃ post ch', postOrder parent children nc = .ok (post, ch') ∧
      ∀ c, c < parent.size → c ≠ r → Reaches parent r (parent.getD c 0) →
        List.Sublist [c, parent.getD c 0] post.toList := by
  obtain ⟨post, ch', h1, _, _, _, _, h6, h7⟩ :=
    post_order_spec parent children nc r hch hn hr hfind hcount
  refine ⟨post, ch', h1, ?_⟩
  intro c hcn hcr hreach
  have hc : Reaches parent r c := Reaches.step hcn hreach
  exact h6 c _ (h7 c hc) (h7 _ hreach) hc hcr rfl

/-- non-vacuity of `post_order_spec` / `post_order_child_before_parent` with `nc < n`: the
forest `1 → 0`, `2`; the walk from the first root `0` sees two vertices and lists `1`
before `0` -/
example : ∃ ch post ch', childrenFromParent #[noParent, 0, noParent] = .ok ch ∧
    postOrder #[noParent, 0, noParent] ch 2 = .ok (post, ch') ∧ post.size = 2 ∧
    List.Sublist [1, 0] post.toList := by
  obtain ⟨ch, h1, h2⟩ := children_from_parent_spec #[noParent, 0, noParent] ex_forest_hp
    (by decide)
  obtain ⟨post, ch', h3, _, _, h4, _, _, _⟩ :=
    post_order_spec #[noParent, 0, noParent] ch 2 0 h2 (by decide) (by decide) (by decide)
      ex_forest_count
  obtain ⟨post', ch'', h3', h5⟩ :=
    post_order_child_before_parent #[noParent, 0, noParent] ch 2 0 h2 (by decide) (by decide)
      (by decide) ex_forest_count
  rw [h3] at h3'
  injection h3' with h3'
  injection h3' with hp _
  subst hp
  exact ⟨ch, post, ch', h1, h3, by simpa using h4, h5 1 (by decide) (by decide) Reaches.root⟩

end Clarabel.Chordal
