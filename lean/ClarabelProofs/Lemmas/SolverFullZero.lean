/-
  Round 4 (composition) — the whole-solver model keeps `s = 0` on the rows of every ZERO cone
  (`s ∈ K` for `K = {0}`).

  * `zeroS_stepHyp` : one accepted step of `solve()` keeps `ZeroS`: the direction `Δs` the combined
                      `KKTSystem::solve` returns is `-(mul_Hs(Δz) + Δs_const_term)`, both terms are
                      written block by block and the zero cone writes zeros (`Zero.mulHs`,
                      `Zero.dsFromDzOffset`), so `Δs = 0` on the zero-cone rows and `add_step`
                      (`s ← a·Δs + 1·s`) keeps `s = 0` there.
  * `zeroS_initHyp` : `default_start()` establishes `ZeroS`: `symmetric_initialization` ends (in every
                      branch of `_shift_to_cone_interior`) with a `scaled_unit_shift(…, PrimalCone)`,
                      which fills the zero-cone blocks with zeros.

  The structural part (which rows are written by which cone) holds for any scalar type; only
  `a·0 + b·0 = 0` uses the field `ℝ`.
-/
import ClarabelProofs.Lemmas.SolverFullDefs
import ClarabelProofs.Lemmas.ScalarInst

namespace Clarabel.Solver
open Clarabel Info Residuals

set_option linter.unusedSectionVars false
set_option linter.unusedVariables false

variable {α : Type}

/- the auxiliary lemmas live in their own namespace (no clash with the other round-4 files) -/
namespace ZeroKeep

/-! ### lists: blocks, `ZeroRows` of a concatenation, entrywise combinations -/

theorem ListRel.map' {β γ β' γ' : Type} {R : β → γ → Prop} {R' : β' → γ' → Prop} (f : β → β') (g : γ → γ')
    (h : ∀ a b, R a b → R' (f a) (g b)) : ∀ {l : List β} {l' : List γ}, ListRel R l l' →
      ListRel R' (l.map f) (l'.map g) := by
  intro l l' hl
  induction hl with
  | nil => exact .nil
  | cons hab _ ih => exact .cons (h _ _ hab) ih

theorem foldl_append_toList {β : Type} (parts : List (Array β)) (acc : Array β) :
    (parts.foldl (· ++ ·) acc).toList = acc.toList ++ (parts.map Array.toList).flatten := by
  induction parts generalizing acc with
  | nil => simp only [List.foldl_nil, List.map_nil, List.flatten_nil, List.append_nil]
  | cons p ps ih =>
    simp only [List.foldl_cons, ih, Array.toList_append, List.map_cons, List.flatten_cons, List.append_assoc]

theorem drop_zip' {β γ : Type} (xs : List β) (ys : List γ) (k : Nat) :
    (xs.zip ys).drop k = (xs.drop k).zip (ys.drop k) := by
  unfold List.zip; exact List.drop_zipWith

theorem take_zip' {β γ : Type} (xs : List β) (ys : List γ) (k : Nat) :
    (xs.zip ys).take k = (xs.take k).zip (ys.take k) := by
  unfold List.zip; exact List.take_zipWith

section generic
variable [Add α] [Sub α] [Mul α] [Div α] [Neg α] [OfNat α 0] [OfNat α 1] [OfNat α 2]
  [OfNat α 100] [OfNat α 1000] [LT α] [DecidableLT α] [LE α] [DecidableLE α] [BEq α] [FloatLike α]

/-- the block `o` written for the cone `sp` has the cone's dimension, and is all-zero when `sp` is a
zero cone -/
def ZBlock (sp : Composite.Spec) (o : List α) : Prop :=
  o.length = sp.numel ∧ ∀ n, sp = .zero n → ∀ x ∈ o, x = 0

/-- KEY LEMMA 1: a vector glued from per-cone blocks, all-zero on the zero cones, has `ZeroRows`
(whatever follows the last cone) -/
theorem zeroRows_of_blocks {specs : List Composite.Spec} {outs : List (List α)}
    (h : ListRel ZBlock specs outs) (rest : List α) : ZeroRows specs (outs.flatten ++ rest) := by
  induction h with
  | nil => trivial
  | @cons sp o specs outs hb _ ih =>
    obtain ⟨hl, hz⟩ := hb
    have e : (o :: outs).flatten ++ rest = o ++ (outs.flatten ++ rest) := by
      rw [List.flatten_cons, List.append_assoc]
    have ht : (o ++ (outs.flatten ++ rest)).take sp.numel = o := List.take_left' hl
    have hd : (o ++ (outs.flatten ++ rest)).drop sp.numel = outs.flatten ++ rest := List.drop_left' hl
    rw [e]
    cases sp with
    | zero n =>
      show (∀ x ∈ List.take n _, x = 0) ∧ ZeroRows specs (List.drop n _)
      have ht' : (o ++ (outs.flatten ++ rest)).take n = o := ht
      have hd' : (o ++ (outs.flatten ++ rest)).drop n = outs.flatten ++ rest := hd
      rw [ht', hd']
      exact ⟨hz n rfl, ih⟩
    | nonneg n =>
      show ZeroRows specs (List.drop (Composite.Spec.nonneg n).numel _)
      rw [hd]; exact ih
    | soc n =>
      show ZeroRows specs (List.drop (Composite.Spec.soc n).numel _)
      rw [hd]; exact ih
    | psd n =>
      show ZeroRows specs (List.drop (Composite.Spec.psd n).numel _)
      rw [hd]; exact ih

/-- KEY LEMMA 2: `ZeroRows` is kept by entrywise combinations that map `(0, 0)` to `0` -/
theorem zeroRows_zipMap (f : α × α → α) (hf : f (0, 0) = 0) :
    ∀ (specs : List Composite.Spec) (xs ys : List α), ZeroRows specs xs → ZeroRows specs ys →
      ZeroRows specs ((xs.zip ys).map f) := by
  intro specs
  induction specs with
  | nil => intro _ _ _ _; trivial
  | cons sp specs ih =>
    intro xs ys hx hy
    have hdrop : ∀ k, ((xs.zip ys).map f).drop k = ((xs.drop k).zip (ys.drop k)).map f := by
      intro k
      rw [← List.map_drop, drop_zip']
    cases sp with
    | zero n =>
      obtain ⟨hx1, hx2⟩ := hx
      obtain ⟨hy1, hy2⟩ := hy
      show (∀ x ∈ List.take n _, x = 0) ∧ ZeroRows specs (List.drop n _)
      refine ⟨?_, ?_⟩
      · intro x hxm
        rw [← List.map_take, take_zip'] at hxm
        obtain ⟨⟨a, b⟩, hp, rfl⟩ := List.mem_map.1 hxm
        obtain ⟨ha, hb⟩ := List.of_mem_zip hp
        rw [hx1 a ha, hy1 b hb]
        exact hf
      · rw [hdrop]; exact ih _ _ hx2 hy2
    | nonneg n =>
      show ZeroRows specs (List.drop (Composite.Spec.nonneg n).numel _)
      rw [hdrop]; exact ih _ _ hx hy
    | soc n =>
      show ZeroRows specs (List.drop (Composite.Spec.soc n).numel _)
      rw [hdrop]; exact ih _ _ hx hy
    | psd n =>
      show ZeroRows specs (List.drop (Composite.Spec.psd n).numel _)
      rw [hdrop]; exact ih _ _ hx hy

/-! ### the live composite cone: what the zero cones write -/

/-- the block `o` written for the live cone `c` -/
def ZOut (c : ConeSt α) (o : Array α) : Prop := ZBlock c.compSpec o.toList

theorem compSpec_numel' (c : ConeSt α) : c.compSpec.numel = c.numel := by
  cases c <;> rfl

theorem zOut_zeros (d : Nat) (p : Array α) (hp : p.size = d) : ZOut (.zero d) (p.map (fun _ => (0 : α))) := by
  refine ⟨?_, ?_⟩
  · show (p.map _).toList.length = d
    rw [Array.length_toList, Array.size_map]; exact hp
  · intro n _ x hx
    rw [Array.toList_map] at hx
    obtain ⟨_, _, rfl⟩ := List.mem_map.1 hx
    rfl

theorem zOut_of_size {c : ConeSt α} {o : Array α} (hc : ∀ d, c ≠ .zero d) (h : o.size = c.numel) : ZOut c o := by
  refine ⟨?_, ?_⟩
  · rw [Array.length_toList, compSpec_numel']; exact h
  · intro n hn
    cases c with
    | zero d => exact absurd rfl (hc d)
    | nonneg K => cases hn
    | soc K => cases hn

/-- `pasteBack` of per-cone blocks that are zero on the zero cones has `ZeroRows` -/
theorem zeroRows_pasteBack {cones : List (ConeSt α)} {outs : List (Array α)} (v : Array α)
    (h : ListRel ZOut cones outs) :
    ZeroRows (cones.map ConeSt.compSpec) (pasteBack cones v outs).toList := by
  unfold pasteBack
  rw [Array.toList_append, foldl_append_toList]
  show ZeroRows _ ([] ++ _ ++ _)
  rw [List.nil_append]
  exact zeroRows_of_blocks (ListRel.map' ConeSt.compSpec Array.toList (fun _ _ h => h) h) _

/-- a per-cone map over `(cone, slices)`: a per-cone property of the results -/
theorem mapM_zip_rel {γ β : Type} (R : ConeSt α → γ → Prop) (P : ConeSt α → Prop) (Q : ConeSt α → β → Prop)
    (f : ConeSt α × γ → MErr β)
    (hf : ∀ c p o, P c → R c p → f (c, p) = .ok o → Q c o) :
    ∀ {cones : List (ConeSt α)} {ps : List γ}, ListRel R cones ps → (∀ c ∈ cones, P c) →
      ∀ outs, (cones.zip ps).mapM f = .ok outs → ListRel Q cones outs := by
  intro cones ps h
  induction h with
  | nil =>
    intro _ outs ho
    cases ho
    exact .nil
  | @cons c p cs ps' hcp _ ih =>
    intro hP outs ho
    simp only [List.zip_cons_cons, List.mapM_cons] at ho
    obtain ⟨o, ho1, ho⟩ := bind_ok_inv ho
    obtain ⟨os, ho2, ho⟩ := bind_ok_inv ho
    cases ho
    exact .cons (hf c p o (hP c (List.mem_cons_self ..)) hcp ho1)
      (ih (fun c' hc' => hP c' (List.mem_cons_of_mem _ hc')) os ho2)

/-- `mul_Hs` writes zeros on the zero-cone rows -/
theorem mulHs_zeroRows {cones : List (ConeSt α)} {y x o : Array α} (hok : ConesOk cones)
    (h : mulHs cones y x = .ok o) : ZeroRows (cones.map ConeSt.compSpec) o.toList := by
  unfold mulHs at h
  obtain ⟨xs, hxs, h⟩ := bind_ok_inv h
  obtain ⟨ys, hys, h⟩ := bind_ok_inv h
  obtain ⟨outs, houts, h⟩ := bind_ok_inv h
  cases h
  refine zeroRows_pasteBack _ ?_
  refine mapM_zip_rel (fun c (p : Array α) => p.size = c.numel) ConeOk ZOut _ ?_ (cutE_spec hxs).1 hok
    outs houts
  intro c p o hc hp ho
  cases c with
  | zero d =>
    cases ho
    exact zOut_zeros d p hp
  | nonneg K => exact zOut_of_size (fun d hd => by cases hd) (nn_mulHs_size ho)
  | soc K => exact zOut_of_size (fun d hd => by cases hd) (soc_mulHs_size hc.soc_w ho)

/-- `Δs_from_Δz_offset` writes zeros on the zero-cone rows -/
theorem dsFromDzOffset_zeroRows {cones : List (ConeSt α)} {out ds z o : Array α} (hok : ConesOk cones)
    (h : dsFromDzOffset cones out ds z = .ok o) : ZeroRows (cones.map ConeSt.compSpec) o.toList := by
  unfold dsFromDzOffset at h
  obtain ⟨os, hos, h⟩ := bind_ok_inv h
  obtain ⟨dss, hdss, h⟩ := bind_ok_inv h
  obtain ⟨zs, hzs, h⟩ := bind_ok_inv h
  obtain ⟨outs, houts, h⟩ := bind_ok_inv h
  cases h
  refine zeroRows_pasteBack _ ?_
  refine mapM_zip_rel _ ConeOk ZOut _ ?_
    ((cutE_spec hos).1.zip ((cutE_spec hdss).1.zip (cutE_spec hzs).1)) hok outs houts
  intro c p o hc hp ho
  obtain ⟨hp1, hp2, hp3⟩ := hp
  cases c with
  | zero d =>
    cases ho
    exact zOut_zeros d p.1 hp1
  | nonneg K =>
    dsimp only at ho
    refine zOut_of_size (fun d hd => by cases hd) ?_
    rw [nn_dsFromDzOffset_size ho]; exact hp2
  | soc K => exact zOut_of_size (fun d hd => by cases hd) (soc_dsFromDzOffset_size hc.soc_w ho)

/-- `axpby` keeps `ZeroRows` as soon as `a·0 + b·0 = 0` -/
theorem axpby_zeroRows (hz : ∀ a b : α, a * 0 + b * 0 = 0) (specs : List Composite.Spec) (a b : α)
    (x y : Array α) (hx : ZeroRows specs x.toList) (hy : ZeroRows specs y.toList) :
    ZeroRows specs (Vec.axpby a x b y).toList := by
  unfold Vec.axpby
  exact zeroRows_zipMap (fun p => a * p.2 + b * p.1) (hz a b) specs _ _ hy hx

theorem axpbyE_zeroRows (hz : ∀ a b : α, a * 0 + b * 0 = 0) (specs : List Composite.Spec) {a b : α}
    {x y r : Array α} {site : String} (h : axpbyE a x b y site = .ok r)
    (hx : ZeroRows specs x.toList) (hy : ZeroRows specs y.toList) : ZeroRows specs r.toList := by
  unfold axpbyE at h
  split at h
  · cases h
  · cases h
    exact axpby_zeroRows hz specs a b x y hx hy

/-- the `Δs` of a successful combined `KKTSystem::solve` is zero on the zero-cone rows -/
theorem kktSolve_combined_zeroRows (hz : ∀ a b : α, a * 0 + b * 0 = 0) {S : KktSys α} {lhs rhs vars : Vars α}
    {data : ProblemData α} {cones : List (ConeSt α)} {st : LinSettings α} {lhs' : Vars α} {S' : KktSys α}
    (hok : ConesOk cones)
    (h : S.solve lhs rhs data vars cones .combined st = .ok (true, lhs', S')) :
    ZeroRows (cones.map ConeSt.compSpec) lhs'.s.toList := by
  unfold KktSys.solve at h
  obtain ⟨workx, hwx, h⟩ := bind_ok_inv h
  dsimp only at h
  obtain ⟨dsConst, hdc, h⟩ := bind_ok_inv h
  obtain ⟨workz, hwz, h⟩ := bind_ok_inv h
  obtain ⟨K, _, h⟩ := bind_ok_inv h
  obtain ⟨⟨ok, lx, lz, K2⟩, _, h⟩ := bind_ok_inv h
  dsimp only at h
  split at h
  · cases h
  · obtain ⟨x1, hx1, h⟩ := bind_ok_inv h
    obtain ⟨z1, hz1, h⟩ := bind_ok_inv h
    obtain ⟨ξ, hξ, h⟩ := bind_ok_inv h
    obtain ⟨_, _, h⟩ := bind_ok_inv h
    obtain ⟨ξm, hξm, h⟩ := bind_ok_inv h
    obtain ⟨_, _, h⟩ := bind_ok_inv h
    obtain ⟨_, _, h⟩ := bind_ok_inv h
    obtain ⟨dx, hdx, h⟩ := bind_ok_inv h
    obtain ⟨dz, hdz, h⟩ := bind_ok_inv h
    obtain ⟨hs, hhs, h⟩ := bind_ok_inv h
    obtain ⟨ds, hds, h⟩ := bind_ok_inv h
    cases h
    exact axpbyE_zeroRows hz _ hds (dsFromDzOffset_zeroRows hok hdc) (mulHs_zeroRows hok hhs)

/-- the direction of a successful KKT stage of a pass is zero on the zero-cone rows -/
theorem kktNumerics_zeroRows (hz : ∀ a b : α, a * 0 + b * 0 = 0) {st : Settings α} {S : SolverSt α}
    {cones : List (ConeSt α)} {mu : α} {iter : Nat} {k : KktOut α} (hok : ConesOk cones)
    (h : kktNumerics st S cones mu iter = .ok k) (hk : k.ok = true) :
    ZeroRows (cones.map ConeSt.compSpec) k.S.stepLhs.s.toList := by
  unfold kktNumerics at h
  dsimp only at h
  obtain ⟨⟨updOk, K0⟩, hupd, h⟩ := bind_ok_inv h
  obtain ⟨rhs1, hrhs1, h⟩ := bind_ok_inv h
  split at h
  · obtain ⟨⟨affOk, lhs1, K1⟩, _, h⟩ := bind_ok_inv h
    dsimp only at h
    split at h
    · obtain ⟨aAff, _, h⟩ := bind_ok_inv h
      obtain ⟨⟨rhs2, lhs2⟩, hc, h⟩ := bind_ok_inv h
      obtain ⟨⟨combOk, lhs3, K3⟩, hs, h⟩ := bind_ok_inv h
      cases h
      have hk' : combOk = true := hk
      subst hk'
      exact kktSolve_combined_zeroRows hz hok hs
    · cases h
      cases hk
  · obtain ⟨⟨affOk, lhs1, K1⟩, hx, h⟩ := bind_ok_inv h
    cases hx
    simp only [Bool.false_eq_true, ↓reduceIte] at h
    cases h
    cases hk

/-- `add_step` keeps `s = 0` on the zero-cone rows when the direction is zero there -/
theorem addStep_zeroRows (hz : ∀ a b : α, a * 0 + b * 0 = 0) (specs : List Composite.Spec)
    {v step v' : Vars α} {a : α} (h : addStep v step a = .ok v')
    (hv : ZeroRows specs v.s.toList) (hs : ZeroRows specs step.s.toList) : ZeroRows specs v'.s.toList := by
  unfold addStep at h
  obtain ⟨x, _, h⟩ := bind_ok_inv h
  obtain ⟨s, hs', h⟩ := bind_ok_inv h
  obtain ⟨z, _, h⟩ := bind_ok_inv h
  cases h
  exact axpbyE_zeroRows hz specs hs' hs hv

/-- one accepted step keeps `ZeroS` (any scalar type with `a·0 + b·0 = 0`) -/
theorem zeroS_stepHyp_of (hz : ∀ a b : α, a * 0 + b * 0 = 0) (st : Settings α) : StepHyp st ZeroS := by
  intro S mu iter k a v' hS hG hk hok hkS e1 e2 ha hsmall hv
  have hd : ZeroRows (layout S) k.S.stepLhs.s.toList := kktNumerics_zeroRows hz hS.conesOk hk hok
  refine addStep_zeroRows hz (layout S) hv ?_ hd
  rw [e1]; exact hG

/-! ### `default_start`: the primal shift zeroes the zero-cone blocks -/

/-- the slices `cut` returns carry their cone and have its dimension -/
theorem cutL_rel : ∀ (specs : List Composite.Spec) (l : List α) (parts : List (Composite.Spec × Array α)),
    Composite.cutL specs l = .ok parts →
      ListRel (fun sp (p : Composite.Spec × Array α) => p.1 = sp ∧ p.2.size = sp.numel) specs parts := by
  intro specs
  induction specs with
  | nil =>
    intro l parts h
    unfold Composite.cutL at h
    cases h
    exact .nil
  | cons sp rest ih =>
    intro l parts h
    unfold Composite.cutL at h
    split at h
    · cases h
    · rename_i hg
      obtain ⟨tl, htl, h⟩ := bind_ok_inv h
      cases h
      refine .cons ⟨rfl, ?_⟩ (ih _ _ htl)
      show (List.take sp.numel l).toArray.size = sp.numel
      rw [List.size_toArray, List.length_take]
      omega

/-- the blocks `scaled_unit_shift(…, PrimalCone)` writes: all-zero on the zero cones -/
theorem mapM_shift_rel (a : α) : ∀ {specs : List Composite.Spec} {parts : List (Composite.Spec × Array α)},
    ListRel (fun sp (p : Composite.Spec × Array α) => p.1 = sp ∧ p.2.size = sp.numel) specs parts →
    ∀ outs, parts.mapM (fun p => Composite.shift1 a true p.1 p.2) = .ok outs →
      ListRel ZBlock specs (outs.map Array.toList) := by
  intro specs parts h
  induction h with
  | nil =>
    intro outs ho
    cases ho
    exact .nil
  | @cons sp p specs parts hab _ ih =>
    intro outs ho
    obtain ⟨sp', z⟩ := p
    obtain ⟨rfl, hsz⟩ := hab
    simp only [List.mapM_cons] at ho
    obtain ⟨o, ho1, ho⟩ := bind_ok_inv ho
    obtain ⟨os, ho2, ho⟩ := bind_ok_inv ho
    cases ho
    refine .cons ⟨?_, ?_⟩ (ih os ho2)
    · rw [Array.length_toList, shift1_size ho1]; exact hsz
    · intro n hn x hx
      have hn' : sp' = .zero n := hn
      subst hn'
      have e : o = Zero.scaledUnitShift z a true := by
        have ho1' : (Except.ok (Zero.scaledUnitShift z a true) : MErr (Array α)) = .ok o := ho1
        cases ho1'
        rfl
      subst e
      unfold Zero.scaledUnitShift at hx
      simp only [↓reduceIte, Array.toList_map] at hx
      obtain ⟨_, _, rfl⟩ := List.mem_map.1 hx
      rfl

/-- `CompositeCone::scaled_unit_shift(z, α, PrimalCone)` leaves zeros on the zero-cone rows -/
theorem scaledUnitShift_zeroRows {specs : List Composite.Spec} {z z' : Array α} {a : α}
    (h : Composite.scaledUnitShift specs z a true = .ok z') : ZeroRows specs z'.toList := by
  unfold Composite.scaledUnitShift at h
  obtain ⟨parts, hparts, h⟩ := bind_ok_inv h
  obtain ⟨outs, houts, h⟩ := bind_ok_inv h
  cases h
  exact zeroRows_of_blocks (mapM_shift_rel a (cutL_rel _ _ _ hparts) outs houts) _

/-- `_shift_to_cone_interior(s, PrimalCone)`: every branch ends with a primal `scaled_unit_shift` -/
theorem shiftToConeInterior_zeroRows {specs : List Composite.Spec} {z z' : Array α}
    (h : Composite.shiftToConeInterior specs z true = .ok z') : ZeroRows specs z'.toList := by
  unfold Composite.shiftToConeInterior at h
  obtain ⟨⟨mm, pm⟩, _, h⟩ := bind_ok_inv h
  dsimp only at h
  split at h
  · exact scaledUnitShift_zeroRows h
  · split at h
    · obtain ⟨z1, hz1, h⟩ := bind_ok_inv h
      exact scaledUnitShift_zeroRows h
    · split at h
      · exact scaledUnitShift_zeroRows h
      · exact scaledUnitShift_zeroRows h

theorem symmetricInitialization_zeroS {v v' : Vars α} {cones : List (ConeSt α)}
    (h : symmetricInitialization v cones = .ok v') : ZeroS (cones.map ConeSt.compSpec) v' := by
  unfold symmetricInitialization at h
  dsimp only at h
  obtain ⟨s, hs, h⟩ := bind_ok_inv h
  obtain ⟨z, hz, h⟩ := bind_ok_inv h
  cases h
  exact shiftToConeInterior_zeroRows hs

/-- `default_start()` establishes `ZeroS` (any scalar type; no size hypothesis is used) -/
theorem zeroS_initHyp_gen (st : Settings α) : InitHyp st ZeroS := by
  intro S S0 _ h
  unfold SolverSt.defaultStart at h
  dsimp only at h
  obtain ⟨⟨ok1, K1⟩, hu, h⟩ := bind_ok_inv h
  obtain ⟨⟨ok2, v2, K2⟩, hi, h⟩ := bind_ok_inv h
  obtain ⟨v3, hs, h⟩ := bind_ok_inv h
  cases h
  exact symmetricInitialization_zeroS hs

end generic

end ZeroKeep

/-! ### over `ℝ` -/

/-- one ACCEPTED step of `solve()` keeps `s = 0` on the rows of every zero cone: the `Δs` of the
combined `KKTSystem::solve` is `0` there and `add_step` adds `a·0` -/
theorem zeroS_stepHyp (st : Solver.Settings ℝ) : Solver.StepHyp st Solver.ZeroS :=
  ZeroKeep.zeroS_stepHyp_of (fun a b => by simp only [mul_zero, add_zero]) st

/-- `default_start()` leaves `s = 0` on the rows of every zero cone -/
theorem zeroS_initHyp (st : Solver.Settings ℝ) : Solver.InitHyp st Solver.ZeroS :=
  ZeroKeep.zeroS_initHyp_gen st

/-- the predicate is not vacuous: it holds of `(0, 0 | 5)` on `[zero 2, nonneg 1]` … -/
example : ZeroRows [.zero 2, .nonneg 1] ([0, 0, 5] : List ℝ) := by
  refine ⟨?_, trivial⟩
  intro x hx
  simp only [List.take_succ_cons, List.take_zero, List.mem_cons, List.not_mem_nil, or_false, or_self] at hx
  exact hx

/-- … and fails on `(1)` for `[zero 1]` -/
example : ¬ ZeroRows [.zero 1] ([1] : List ℝ) := by
  intro h
  exact one_ne_zero (h.1 1 (by simp only [List.take_succ_cons, List.take_zero, List.mem_cons, List.not_mem_nil, or_false]))

end Clarabel.Solver
