/-
  Helper lemmas for C16 (round 3): the dense vector kernels of `vecmath.rs`
  (`ClarabelModel/Vec.lean`).

  * structural facts (any scalar type, `Float` included): sizes and entries of the
    data-movement / elementwise kernels, the exact panic conditions of the asserted ones;
  * exact-arithmetic facts (semiring / ordered field with the lawful `FloatLike` extras):
    the reductions as finite sums / maxima.
-/
import ClarabelModel.Vec
import ClarabelModel.Csc
import ClarabelProofs.Lemmas.CscBasic
import ClarabelProofs.Lemmas.CscReduce
import ClarabelProofs.Lemmas.ScalarInst
import Mathlib.Algebra.BigOperators.Group.Finset.Basic
import Mathlib.Algebra.BigOperators.Ring.Finset
import Mathlib.Algebra.Order.BigOperators.Group.Finset
import Mathlib.Algebra.Order.BigOperators.Ring.Finset

namespace Clarabel.Vec
open Clarabel Clarabel.Csc

variable {α : Type}
set_option linter.unusedSectionVars false

/-! ### structural: elementwise kernels -/

theorem scalarop_size (x : Array α) (op : α → α) : (scalarop x op).size = x.size := by
  simp [scalarop]

theorem scalarop_get (x : Array α) (op : α → α) (i : Nat) :
    (scalarop x op)[i]? = x[i]?.map op := by
  simp [scalarop]

theorem scalaropFrom_size (x v : Array α) (op : α → α) : (scalaropFrom x op v).size = x.size := by
  simp only [scalaropFrom, List.size_toArray, List.length_append, List.length_map, List.length_take,
    List.length_drop, Array.length_toList]
  omega

theorem scalaropFrom_get (x v : Array α) (op : α → α) (i : Nat) (hi : i < x.size) :
    (scalaropFrom x op v)[i]? = if i < v.size then v[i]?.map op else x[i]? := by
  simp only [scalaropFrom, List.getElem?_toArray]
  by_cases hv : i < v.size
  · rw [List.getElem?_append_left (by simp; omega)]
    simp [hv, List.getElem?_take, hi]
  · rw [List.getElem?_append_right (by simp; omega)]
    simp only [List.length_map, List.length_take, Array.length_toList, List.getElem?_drop, hv,
      ↓reduceIte, Array.getElem?_toList]
    congr 1
    omega

theorem hadamardFull_size [Mul α] (x y : Array α) : (hadamardFull x y).size = x.size := by
  simp only [hadamardFull, List.size_toArray, List.length_append, List.length_map, List.length_zip,
    List.length_drop, Array.length_toList]
  omega

theorem hadamardFull_get [Mul α] (x y : Array α) (i : Nat) (hi : i < x.size) :
    (hadamardFull x y)[i]? =
      if h : i < y.size then some (x[i] * y[i]) else x[i]? := by
  simp only [hadamardFull, List.getElem?_toArray]
  by_cases hv : i < y.size
  · rw [List.getElem?_append_left (by simp; omega)]
    simp [hv, hi, List.getElem?_zip_eq_some]
  · rw [List.getElem?_append_right (by simp; omega)]
    simp only [List.length_map, List.length_zip, Array.length_toList, List.getElem?_drop, hv,
      ↓reduceDIte, Array.getElem?_toList]
    congr 1
    omega

theorem hadamardFull_eq_hadamard [Mul α] (x y : Array α) (h : x.size ≤ y.size) :
    hadamardFull x y = hadamard x y := by
  simp only [hadamardFull, hadamard]
  rw [List.drop_of_length_le (by simpa using h), List.append_nil]

/-- entries of a zip-map kernel -/
theorem zipmap_get {β γ : Type} (x : Array α) (y : Array β) (f : α × β → γ) (i : Nat)
    (hx : i < x.size) (hy : i < y.size) :
    ((x.toList.zip y.toList).map f).toArray[i]? = some (f (x[i], y[i])) := by
  rw [List.getElem?_toArray, List.getElem?_eq_getElem (by simp; omega)]
  simp

theorem zipmap_size {β γ : Type} (x : Array α) (y : Array β) (f : α × β → γ) :
    ((x.toList.zip y.toList).map f).toArray.size = min x.size y.size := by
  simp

/-! ### structural: `select` -/

theorem sel_length (l : List α) (b : List Bool) (h : l.length = b.length) :
    (((l.zip b).filter (·.2)).map (·.1)).length = (b.filter id).length := by
  induction l generalizing b with
  | nil => cases b <;> simp_all
  | cons a t ih =>
    cases b with
    | nil => simp at h
    | cons c bs =>
      have := ih bs (by simpa using h)
      cases c <;> simp_all

theorem sel_get (l : List α) (b : List Bool) (h : l.length = b.length) (i : Nat) (hi : i < l.length)
    (hb : b[i]? = some true) :
    (((l.zip b).filter (·.2)).map (·.1))[((b.take i).filter id).length]? = l[i]? := by
  induction l generalizing b i with
  | nil => simp at hi
  | cons a t ih =>
    cases b with
    | nil => simp at h
    | cons c bs =>
      cases i with
      | zero =>
        simp at hb
        subst hb
        simp
      | succ i =>
        have := ih bs (by simpa using h) i (by simpa using hi) (by simpa using hb)
        cases c <;> simp_all

theorem select_size (x : Array α) (idx : Array Bool) (h : x.size = idx.size) :
    (select x idx).size = (idx.toList.filter id).length := by
  simp only [select, List.size_toArray]
  exact sel_length _ _ (by simpa using h)

theorem select_get (x : Array α) (idx : Array Bool) (h : x.size = idx.size) (i : Nat)
    (hi : i < x.size) (hk : idx.getD i false = true) :
    (select x idx)[rankBefore idx i]? = x[i]? := by
  simp only [select, List.getElem?_toArray, rankBefore]
  have hb : idx.toList[i]? = some true := by
    rw [Array.getD_eq_getD_getElem?, Array.getElem?_eq_getElem (by omega)] at hk
    simp only [Option.getD_some] at hk
    simp [Array.getElem?_eq_getElem (show i < idx.size by omega), hk]
  rw [sel_get _ _ (by simpa using h) i (by simpa using hi) hb]
  simp

/-! ### reductions as finite sums -/

theorem foldl_add_map {β : Type} [AddCommMonoid α] (l : List β) (g : β → α) (a0 : α) :
    l.foldl (fun acc p => acc + g p) a0 = a0 + (l.map g).sum := by
  induction l generalizing a0 with
  | nil => simp
  | cons e t ih => simp [ih, add_assoc]

theorem zip_map_eq_range {β : Type} (x y : Array α) (g : α → α → β) (d : α) :
    (x.toList.zip y.toList).map (fun p => g p.1 p.2) =
      (List.range (min x.size y.size)).map (fun i => g (x.getD i d) (y.getD i d)) := by
  apply List.ext_getElem
  · simp
  · intro i h1 h2
    simp only [List.length_map, List.length_zip, Array.length_toList] at h1
    have hx : i < x.size := by omega
    have hy : i < y.size := by omega
    simp [Array.getD_eq_getD_getElem?, Array.getElem?_eq_getElem hx, Array.getElem?_eq_getElem hy]

theorem map_eq_range {β : Type} (x : Array α) (g : α → β) (d : α) :
    x.toList.map g = (List.range x.size).map (fun i => g (x.getD i d)) := by
  apply List.ext_getElem
  · simp
  · intro i h1 h2
    simp only [List.length_map, Array.length_toList] at h1
    simp [Array.getD_eq_getD_getElem?, Array.getElem?_eq_getElem h1]

/-- a zip-fold that adds `g xᵢ yᵢ` is the finite sum over the common index range -/
theorem zipfold_eq_sum [AddCommMonoid α] (x y : Array α) (g : α → α → α) :
    (x.toList.zip y.toList).foldl (fun acc p => acc + g p.1 p.2) 0 =
      ∑ i ∈ Finset.range (min x.size y.size), g (x.getD i 0) (y.getD i 0) := by
  rw [foldl_add_map, zero_add, zip_map_eq_range x y g 0, list_sum_range_eq]

theorem fold_eq_sum [AddCommMonoid α] (x : Array α) (g : α → α) :
    x.toList.foldl (fun acc v => acc + g v) 0 = ∑ i ∈ Finset.range x.size, g (x.getD i 0) := by
  rw [foldl_add_map, zero_add, map_eq_range x g 0, list_sum_range_eq]

theorem dot_eq_sum [Semiring α] (x y : Array α) :
    dot x y = ∑ i ∈ Finset.range (min x.size y.size), x.getD i 0 * y.getD i 0 :=
  zipfold_eq_sum x y (fun a b => a * b)

theorem sumsq_eq_sum [Semiring α] (x : Array α) :
    sumsq x = ∑ i ∈ Finset.range x.size, x.getD i 0 * x.getD i 0 := by
  unfold sumsq
  rw [dot_eq_sum, Nat.min_self]

theorem sum_eq_sum [AddCommMonoid α] (x : Array α) :
    sum x = ∑ i ∈ Finset.range x.size, x.getD i 0 :=
  fold_eq_sum x (fun v => v)

theorem sumsqScaled_eq_sum [Semiring α] (x v : Array α) :
    sumsqScaled x v = ∑ i ∈ Finset.range (min x.size v.size),
      (x.getD i 0 * v.getD i 0) * (x.getD i 0 * v.getD i 0) :=
  zipfold_eq_sum x v (fun a b => (a * b) * (a * b))

theorem dot_comm [CommSemiring α] (x y : Array α) : dot x y = dot y x := by
  rw [dot_eq_sum, dot_eq_sum, Nat.min_comm]
  exact Finset.sum_congr rfl (fun i _ => mul_comm _ _)

/-- `dot_shifted` on equally long inputs -/
theorem dotShifted_eq_sum [Semiring α] (z s dz ds : Array α) (a : α)
    (h1 : z.size = s.size) (h2 : z.size = dz.size) (h3 : s.size = ds.size) :
    dotShifted z s dz ds a = ∑ i ∈ Finset.range z.size,
      (s.getD i 0 + a * ds.getD i 0) * (z.getD i 0 + a * dz.getD i 0) := by
  unfold dotShifted
  have key : ∀ (l : List Nat) (acc : α), (∀ i ∈ l, i < z.size) →
      l.foldl (fun acc i =>
        match s[i]?, ds[i]?, z[i]?, dz[i]? with
        | some si, some dsi, some zi, some dzi => acc + (si + a * dsi) * (zi + a * dzi)
        | _, _, _, _ => acc) acc =
      acc + (l.map (fun i => (s.getD i 0 + a * ds.getD i 0) * (z.getD i 0 + a * dz.getD i 0))).sum := by
    intro l
    induction l with
    | nil => intro acc _; simp
    | cons i t ih =>
      intro acc hl
      have hi : i < z.size := hl i (by simp)
      rw [List.foldl_cons, ih _ (fun j hj => hl j (List.mem_cons_of_mem _ hj))]
      simp [Array.getD_eq_getD_getElem?, Array.getElem?_eq_getElem hi,
        Array.getElem?_eq_getElem (show i < s.size by omega),
        Array.getElem?_eq_getElem (show i < dz.size by omega),
        Array.getElem?_eq_getElem (show i < ds.size by omega), add_assoc]
  exact (key _ _ (fun i hi => List.mem_range.mp hi)).trans (by rw [zero_add, list_sum_range_eq])

/-- entries of `waxpby` / `axpby` (zip order differs between the two) -/
theorem waxpby_get [Add α] [Mul α] (a b : α) (x y : Array α) (i : Nat)
    (hx : i < x.size) (hy : i < y.size) :
    (waxpby a x b y)[i]? = some (a * x[i] + b * y[i]) := by
  unfold waxpby
  exact zipmap_get x y (fun p => a * p.1 + b * p.2) i hx hy

theorem axpby_get [Add α] [Mul α] (a b : α) (x y : Array α) (i : Nat)
    (hx : i < x.size) (hy : i < y.size) :
    (axpby a x b y)[i]? = some (a * x[i] + b * y[i]) := by
  unfold axpby
  exact zipmap_get y x (fun p => a * p.2 + b * p.1) i hy hx

theorem waxpby_size [Add α] [Mul α] (a b : α) (x y : Array α) :
    (waxpby a x b y).size = min x.size y.size := by
  unfold waxpby; exact zipmap_size x y _

theorem axpby_size [Add α] [Mul α] (a b : α) (x y : Array α) :
    (axpby a x b y).size = min y.size x.size := by
  unfold axpby; exact zipmap_size y x _

/-- `dot` is linear in its first argument along `waxpby` -/
theorem dot_waxpby [CommSemiring α] (a b : α) (x y z : Array α)
    (hxy : x.size = y.size) (hxz : x.size = z.size) :
    dot (waxpby a x b y) z = a * dot x z + b * dot y z := by
  have e1 : min (min x.size y.size) z.size = x.size := by omega
  have e2 : min x.size z.size = x.size := by omega
  have e3 : min y.size z.size = x.size := by omega
  rw [dot_eq_sum, dot_eq_sum, dot_eq_sum, waxpby_size, e1, e2, e3, Finset.mul_sum, Finset.mul_sum,
    ← Finset.sum_add_distrib]
  apply Finset.sum_congr rfl
  intro i hi
  have hi' := Finset.mem_range.mp hi
  have hg : (waxpby a x b y).getD i 0 = a * x.getD i 0 + b * y.getD i 0 := by
    rw [Array.getD_eq_getD_getElem?, waxpby_get a b x y i hi' (by omega)]
    simp [Array.getD_eq_getD_getElem?, Array.getElem?_eq_getElem hi',
      Array.getElem?_eq_getElem (show i < y.size by omega)]
  rw [hg]
  ring

/-! ### NaN propagation of `norm_inf` (any scalar type) -/

/-- the loop body of `norm_inf` -/
def normInfStep [FloatLike α] (acc v : α) : α :=
  if FloatLike.isNaN acc then acc else if FloatLike.isNaN v then v else fmax acc (fabs v)

theorem normInf_eq_foldl [OfNat α 0] [FloatLike α] (x : Array α) :
    normInf x = x.toList.foldl normInfStep 0 := rfl

theorem normInfStep_nan_sticky [FloatLike α] (l : List α) (acc : α)
    (h : FloatLike.isNaN acc = true) : l.foldl normInfStep acc = acc := by
  induction l with
  | nil => rfl
  | cons v t ih => simp [normInfStep, h, ih]

/-- once a NaN entry has been met the result is a NaN -/
theorem normInf_foldl_nan [FloatLike α] (p : List α) (v : α) (s : List α) (acc : α)
    (hv : FloatLike.isNaN v = true) :
    FloatLike.isNaN ((p ++ v :: s).foldl normInfStep acc) = true := by
  rw [List.foldl_append, List.foldl_cons]
  by_cases ha : FloatLike.isNaN (p.foldl normInfStep acc) = true
  · have : normInfStep (p.foldl normInfStep acc) v = p.foldl normInfStep acc := by
      simp [normInfStep, ha]
    rw [this, normInfStep_nan_sticky s _ ha, ha]
  · have : normInfStep (p.foldl normInfStep acc) v = v := by
      simp [normInfStep, ha, hv]
    rw [this, normInfStep_nan_sticky s _ hv, hv]

theorem normInf_nan [OfNat α 0] [FloatLike α] (x : Array α) (v : α) (hmem : v ∈ x.toList)
    (hv : FloatLike.isNaN v = true) : FloatLike.isNaN (normInf x) = true := by
  obtain ⟨p, s, hps⟩ := List.append_of_mem hmem
  rw [normInf_eq_foldl, hps]
  exact normInf_foldl_nan p v s 0 hv

/-! ### maxima / minima over an ordered field with the lawful `FloatLike` extras -/

section lawful
variable [Field α] [LinearOrder α] [IsStrictOrderedRing α] [FloatLike α] [LawfulFloatLike α]

theorem normInf_eq_foldl_max (x : Array α) :
    normInf x = (x.toList.map (fun v => |v|)).foldl (fun m a => max m a) 0 := by
  rw [normInf_eq_foldl, List.foldl_map]
  congr 1
  funext acc v
  simp [normInfStep, LawfulFloatLike.isNaN_eq, LawfulFloatLike.fmax_eq, LawfulFloatLike.fabs_eq]

theorem normInf_isMaxOf (x : Array α) : IsMaxOf (normInf x) 0 (x.toList.map (fun v => |v|)) := by
  rw [normInf_eq_foldl_max]
  exact foldl_max_isMaxOf _ _

theorem zipfold_max_isMaxOf (x y : Array α) (g : α → α → α) :
    IsMaxOf ((x.toList.zip y.toList).foldl (fun acc p => fmax acc (fabs (g p.1 p.2))) 0) 0
      ((x.toList.zip y.toList).map (fun p => |g p.1 p.2|)) := by
  have : (x.toList.zip y.toList).foldl (fun acc p => fmax acc (fabs (g p.1 p.2))) 0 =
      ((x.toList.zip y.toList).map (fun p => |g p.1 p.2|)).foldl (fun m a => max m a) 0 := by
    rw [List.foldl_map]
    congr 1
    funext acc p
    simp [LawfulFloatLike.fmax_eq, LawfulFloatLike.fabs_eq]
  rw [this]
  exact foldl_max_isMaxOf _ _

theorem normInfScaled_isMaxOf (x v : Array α) :
    IsMaxOf (normInfScaled x v) 0 ((x.toList.zip v.toList).map (fun p => |p.1 * p.2|)) :=
  zipfold_max_isMaxOf x v (fun a b => a * b)

theorem normInfDiff_isMaxOf (x b : Array α) :
    IsMaxOf (normInfDiff x b) 0 ((x.toList.zip b.toList).map (fun p => |p.1 - p.2|)) :=
  zipfold_max_isMaxOf x b (fun a b => a - b)

theorem normOne_eq_sum (x : Array α) :
    normOne x = ∑ i ∈ Finset.range x.size, |x.getD i 0| := by
  unfold normOne
  simp only [LawfulFloatLike.fabs_eq]
  exact fold_eq_sum x (fun v => |v|)

theorem normOneScaled_eq_sum (x v : Array α) :
    normOneScaled x v = ∑ i ∈ Finset.range (min x.size v.size), |x.getD i 0 * v.getD i 0| := by
  unfold normOneScaled
  simp only [LawfulFloatLike.fabs_eq]
  exact zipfold_eq_sum x v (fun a b => |a * b|)

/-- the `minimum`/`maximum` folds on a non-empty list -/
theorem foldl_min_spec (t : List α) (a : α) :
    t.foldl (fun r v => min r v) a ∈ a :: t ∧ ∀ v ∈ a :: t, t.foldl (fun r v => min r v) a ≤ v := by
  induction t generalizing a with
  | nil => simp
  | cons b t ih =>
    obtain ⟨h1, h2⟩ := ih (min a b)
    rw [List.foldl_cons]
    refine ⟨?_, ?_⟩
    · rcases List.mem_cons.mp h1 with h | h
      · rcases min_choice a b with hm | hm
        · rw [h, hm]; simp
        · rw [h, hm]; simp
      · exact List.mem_cons_of_mem _ (List.mem_cons_of_mem _ h)
    · intro v hv
      rcases List.mem_cons.mp hv with rfl | hv
      · exact le_trans (h2 (min v b) (by simp)) (min_le_left _ _)
      · rcases List.mem_cons.mp hv with rfl | hv
        · exact le_trans (h2 (min a v) (by simp)) (min_le_right _ _)
        · exact h2 v (List.mem_cons_of_mem _ hv)

theorem foldl_max_spec (t : List α) (a : α) :
    t.foldl (fun r v => max r v) a ∈ a :: t ∧ ∀ v ∈ a :: t, v ≤ t.foldl (fun r v => max r v) a := by
  obtain ⟨h1, h2, h3⟩ := foldl_max_isMaxOf t a
  refine ⟨?_, ?_⟩
  · rcases h3 with h | h
    · rw [h]; simp
    · exact List.mem_cons_of_mem _ h
  · intro v hv
    rcases List.mem_cons.mp hv with rfl | hv
    · exact h1
    · exact h2 v hv

theorem minimum?_cons (a : α) (t : List α) :
    minimum? (a :: t).toArray = some (t.foldl (fun r v => min r v) a) := by
  unfold minimum?
  simp only [List.foldl_cons, LawfulFloatLike.isNaN_eq, Bool.false_eq_true,
    ↓reduceIte, LawfulFloatLike.fmin_eq]
  induction t generalizing a with
  | nil => rfl
  | cons b t ih => simp only [List.foldl_cons]; exact ih (min a b)

theorem maximum?_cons (a : α) (t : List α) :
    maximum? (a :: t).toArray = some (t.foldl (fun r v => max r v) a) := by
  unfold maximum?
  simp only [List.foldl_cons, LawfulFloatLike.isNaN_eq, Bool.false_eq_true,
    ↓reduceIte, LawfulFloatLike.fmax_eq]
  induction t generalizing a with
  | nil => rfl
  | cons b t ih => simp only [List.foldl_cons]; exact ih (max a b)

theorem minimum?_spec (x : Array α) (hne : x.size ≠ 0) :
    ∃ r, minimum? x = some r ∧ r ∈ x.toList ∧ ∀ v ∈ x.toList, r ≤ v := by
  obtain ⟨l⟩ := x
  cases l with
  | nil => simp at hne
  | cons a t =>
    obtain ⟨h1, h2⟩ := foldl_min_spec t a
    exact ⟨_, minimum?_cons a t, h1, h2⟩

theorem maximum?_spec (x : Array α) (hne : x.size ≠ 0) :
    ∃ r, maximum? x = some r ∧ r ∈ x.toList ∧ ∀ v ∈ x.toList, v ≤ r := by
  obtain ⟨l⟩ := x
  cases l with
  | nil => simp at hne
  | cons a t =>
    obtain ⟨h1, h2⟩ := foldl_max_spec t a
    exact ⟨_, maximum?_cons a t, h1, h2⟩

theorem mean_mul_size (x : Array α) (hne : x.size ≠ 0) :
    mean x * (x.size : α) = ∑ i ∈ Finset.range x.size, x.getD i 0 := by
  unfold mean
  rw [if_neg hne, LawfulFloatLike.ofNat_eq, sum_eq_sum]
  have : (x.size : α) ≠ 0 := by exact_mod_cast hne
  field_simp

theorem sumsq_nonneg (x : Array α) : 0 ≤ sumsq x := by
  rw [sumsq_eq_sum]
  exact Finset.sum_nonneg (fun i _ => mul_self_nonneg _)

theorem sumsq_eq_zero_iff (x : Array α) :
    sumsq x = 0 ↔ ∀ i, i < x.size → x.getD i 0 = 0 := by
  rw [sumsq_eq_sum, Finset.sum_eq_zero_iff_of_nonneg (fun i _ => mul_self_nonneg _)]
  constructor
  · intro h i hi
    exact mul_self_eq_zero.mp (h i (Finset.mem_range.mpr hi))
  · intro h i hi
    rw [h i (Finset.mem_range.mp hi), mul_zero]

/-! ### `clip` -/

theorem clip_bounds (v lo hi : α) (h : lo ≤ hi) : lo ≤ clip v lo hi ∧ clip v lo hi ≤ hi := by
  unfold clip
  split_ifs with h1 h2
  · exact ⟨le_refl _, h⟩
  · exact ⟨h, le_refl _⟩
  · exact ⟨not_lt.mp h1, not_lt.mp h2⟩

theorem clip_of_mem (v lo hi : α) (h1 : lo ≤ v) (h2 : v ≤ hi) : clip v lo hi = v := by
  unfold clip
  rw [if_neg (not_lt.mpr h1), if_neg (not_lt.mpr h2)]

theorem clip_idem (v lo hi : α) (h : lo ≤ hi) : clip (clip v lo hi) lo hi = clip v lo hi := by
  obtain ⟨h1, h2⟩ := clip_bounds v lo hi h
  exact clip_of_mem _ lo hi h1 h2

end lawful

/-! ### the 2-norm family over ℝ -/

theorem norm_real_eq (x : Array ℝ) :
    norm x = Real.sqrt (∑ i ∈ Finset.range x.size, x.getD i 0 * x.getD i 0) := by
  unfold norm
  rw [sumsq_eq_sum]
  rfl

theorem norm_real_nonneg (x : Array ℝ) : 0 ≤ norm x := by
  rw [norm_real_eq]; exact Real.sqrt_nonneg _

theorem norm_real_mul_self (x : Array ℝ) : norm x * norm x = sumsq x := by
  unfold norm
  exact Real.mul_self_sqrt (sumsq_nonneg x)

theorem norm_real_eq_zero_iff (x : Array ℝ) :
    norm x = 0 ↔ ∀ i, i < x.size → x.getD i 0 = 0 := by
  unfold norm
  rw [show (sqrt (sumsq x) : ℝ) = Real.sqrt (sumsq x) from rfl,
    Real.sqrt_eq_zero (sumsq_nonneg x), sumsq_eq_zero_iff]

theorem normScaled_real_eq (x v : Array ℝ) :
    normScaled x v = Real.sqrt (∑ i ∈ Finset.range (min x.size v.size),
      (x.getD i 0 * v.getD i 0) * (x.getD i 0 * v.getD i 0)) := by
  unfold normScaled
  rw [sumsqScaled_eq_sum]
  rfl

theorem dist_real_eq (x y : Array ℝ) :
    dist x y = Real.sqrt (∑ i ∈ Finset.range (min x.size y.size),
      (x.getD i 0 - y.getD i 0) * (x.getD i 0 - y.getD i 0)) := by
  unfold dist
  rw [zipfold_eq_sum x y (fun a b => (a - b) * (a - b))]
  rfl

theorem dist_real_self (x : Array ℝ) : dist x x = 0 := by
  rw [dist_real_eq]
  simp

theorem dist_real_comm (x y : Array ℝ) : dist x y = dist y x := by
  rw [dist_real_eq, dist_real_eq, Nat.min_comm]
  congr 1
  apply Finset.sum_congr rfl
  intro i _
  ring

theorem scale_getD [Mul α] [OfNat α 0] (x : Array α) (c : α) (i : Nat) (hi : i < x.size) :
    (scale x c).getD i 0 = x.getD i 0 * c := by
  simp [scale, Array.getD_eq_getD_getElem?, Array.getElem?_eq_getElem hi]

theorem sumsq_scale [CommSemiring α] (x : Array α) (c : α) :
    sumsq (scale x c) = c * c * sumsq x := by
  rw [sumsq_eq_sum, sumsq_eq_sum, Finset.mul_sum]
  have : (scale x c).size = x.size := by simp [scale]
  rw [this]
  apply Finset.sum_congr rfl
  intro i hi
  rw [scale_getD x c i (Finset.mem_range.mp hi)]
  ring

/-- `normalize` over ℝ: the zero vector (norm 0) is returned untouched with `0`; otherwise
the norm is returned and the vector is divided by it, which gives unit norm. -/
theorem normalize_real (x : Array ℝ) :
    (norm x = 0 → normalize x = (0, x)) ∧
    (norm x ≠ 0 → normalize x = (norm x, scale x (1 / norm x)) ∧
      norm (scale x (1 / norm x)) = 1) := by
  refine ⟨fun h => ?_, fun h => ⟨?_, ?_⟩⟩
  · unfold normalize
    simp [h]
  · unfold normalize
    simp [h]
  · have hpos : 0 < norm x := lt_of_le_of_ne (norm_real_nonneg x) (Ne.symm h)
    have hs : sumsq (scale x (1 / norm x)) = 1 := by
      rw [sumsq_scale, ← norm_real_mul_self]
      field_simp
    unfold norm at hs ⊢
    rw [hs]
    exact Real.sqrt_one

end Clarabel.Vec
