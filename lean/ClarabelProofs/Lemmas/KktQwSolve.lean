/-
  C05 (iv) "`KKTSolver::update` forgets" — part 6: a whole `solve()` changes the linear-solver object
  only in what the next `update` rewrites (`solve_kstep`), hence the object a `solve()` leaves answers
  the first `update` of the next `solve()` like the object it started from (`solve_first_update`).
-/
import ClarabelProofs.Lemmas.KktQwFrame

namespace Clarabel.Solver
open Clarabel Clarabel.Qdldl Residuals Info

set_option linter.unusedSectionVars false
set_option linter.unusedVariables false

variable {α : Type}

section
variable [Add α] [Sub α] [Mul α] [Div α] [Neg α] [OfNat α 0] [OfNat α 1] [OfNat α 2]
  [OfNat α 100] [OfNat α 1000] [LT α] [DecidableLT α] [LE α] [DecidableLE α] [BEq α] [FloatLike α]

/-- `K'` was reached from `K` by calls of the linear-solver interface under the settings `st` -/
def KStep (st : LinSettings α) (K K' : KktSolver α) : Prop := KInv K → Upd st K K' ∧ KInv K'

theorem KStep.rfl' (st : LinSettings α) (K : KktSolver α) : KStep st K K := fun h => ⟨Upd.rfl' st K, h⟩

theorem KStep.trans {st : LinSettings α} {K K' K'' : KktSolver α} (h : KStep st K K') (h' : KStep st K' K'') :
    KStep st K K'' := fun hI => ⟨(h hI).1.trans (h' (h hI).2).1, (h' (h hI).2).2⟩

theorem kstep_update {st : LinSettings α} {K : KktSolver α} {cones : List (ConeSt α)} {r : Bool × KktSolver α}
    (h : K.update cones st = .ok r) : KStep st K r.2 := fun hI => update_upd h hI

theorem kstep_solve {st : LinSettings α} {K K1 : KktSolver α} {rx rz : Array α}
    {r : Bool × Array α × Array α × KktSolver α} (h1 : K.setrhs rx rz = .ok K1) (h : K1.solve st = .ok r) :
    KStep st K r.2.2.2 := fun hI => setrhs_solve_upd h1 h hI st

/-! ### `DefaultKKTSystem` -/

theorem solveConstantRhs_kstep {S : KktSys α} {data : ProblemData α} {st : LinSettings α}
    {r : Bool × KktSys α} (h : S.solveConstantRhs data st = .ok r) : KStep st S.kktsolver r.2.kktsolver := by
  unfold KktSys.solveConstantRhs at h
  dsimp only at h
  obtain ⟨K, hK, h⟩ := bind_ok_inv h
  obtain ⟨⟨ok, lx, lz, K2⟩, hs, h⟩ := bind_ok_inv h
  have hk := kstep_solve hK hs
  dsimp only at h
  split at h
  · obtain ⟨x2, _, h⟩ := bind_ok_inv h
    obtain ⟨z2, _, h⟩ := bind_ok_inv h
    cases h
    exact hk
  · cases h
    exact hk

theorem kktUpdate_kstep {S : KktSys α} {data : ProblemData α} {cones : List (ConeSt α)} {st : LinSettings α}
    {r : Bool × KktSys α} (h : S.update data cones st = .ok r) : KStep st S.kktsolver r.2.kktsolver := by
  unfold KktSys.update at h
  obtain ⟨⟨ok, K⟩, hu, h⟩ := bind_ok_inv h
  have hk := kstep_update hu
  dsimp only at h
  split at h
  · cases h
    exact hk
  · exact hk.trans (solveConstantRhs_kstep h)

theorem kktSolve_kstep {S : KktSys α} {lhs rhs vars : Vars α} {data : ProblemData α} {cones : List (ConeSt α)}
    {dir : StepDirection} {st : LinSettings α} {r : Bool × Vars α × KktSys α}
    (h : S.solve lhs rhs data vars cones dir st = .ok r) : KStep st S.kktsolver r.2.2.kktsolver := by
  unfold KktSys.solve at h
  obtain ⟨workx, _, h⟩ := bind_ok_inv h
  extract_lets jp at h
  have h' : ∃ dsConst : Array α, jp dsConst = Except.ok r := by
    cases dir with
    | affine =>
      dsimp only at h
      obtain ⟨dsConst, _, h⟩ := bind_ok_inv h
      exact ⟨dsConst, h⟩
    | combined =>
      dsimp only at h
      obtain ⟨dsConst, _, h⟩ := bind_ok_inv h
      exact ⟨dsConst, h⟩
  clear h
  obtain ⟨dsConst, h⟩ := h'
  unfold jp at h
  clear jp
  obtain ⟨workz, _, h⟩ := bind_ok_inv h
  obtain ⟨K, hK, h⟩ := bind_ok_inv h
  obtain ⟨⟨ok, lx, lz, K2⟩, hs, h⟩ := bind_ok_inv h
  have hk := kstep_solve hK hs
  dsimp only at h
  split at h
  · cases h
    exact hk
  · obtain ⟨x1, _, h⟩ := bind_ok_inv h
    obtain ⟨z1, _, h⟩ := bind_ok_inv h
    obtain ⟨ξ, _, h⟩ := bind_ok_inv h
    obtain ⟨_, _, h⟩ := bind_ok_inv h
    obtain ⟨ξm, _, h⟩ := bind_ok_inv h
    obtain ⟨_, _, h⟩ := bind_ok_inv h
    obtain ⟨_, _, h⟩ := bind_ok_inv h
    obtain ⟨dx, _, h⟩ := bind_ok_inv h
    obtain ⟨dz, _, h⟩ := bind_ok_inv h
    obtain ⟨hs', _, h⟩ := bind_ok_inv h
    obtain ⟨ds, _, h⟩ := bind_ok_inv h
    cases h
    exact hk

theorem solveInitialPointCore_kstep {S : KktSys α} {vars : Vars α} {data : ProblemData α} {st : LinSettings α}
    {r : Bool × Vars α × KktSys α} (h : S.solveInitialPointCore vars data st = .ok r) :
    KStep st S.kktsolver r.2.2.kktsolver := by
  unfold KktSys.solveInitialPointCore at h
  split at h
  · obtain ⟨workz, _, h⟩ := bind_ok_inv h
    obtain ⟨K, hK, h⟩ := bind_ok_inv h
    obtain ⟨⟨ok, lx, lz, K2⟩, hs, h⟩ := bind_ok_inv h
    have hk := kstep_solve hK hs
    cases ok with
    | false =>
      simp only [Bool.false_eq_true, ↓reduceIte, Bool.not_false] at h
      obtain ⟨p, hp, h⟩ := bind_ok_inv h
      cases hp
      cases h
      exact hk
    | true =>
      simp only [↓reduceIte, Bool.not_true, Bool.false_eq_true] at h
      obtain ⟨x, _, h⟩ := bind_ok_inv h
      obtain ⟨s, _, h⟩ := bind_ok_inv h
      obtain ⟨p, hp, h⟩ := bind_ok_inv h
      cases hp
      dsimp only at h
      obtain ⟨K3, hK3, h⟩ := bind_ok_inv h
      obtain ⟨⟨ok2, lx2, lz2, K4⟩, hs2, h⟩ := bind_ok_inv h
      have hk2 := kstep_solve hK3 hs2
      cases ok2 with
      | false =>
        simp only [Bool.false_eq_true, ↓reduceIte] at h
        obtain ⟨z, hz, h⟩ := bind_ok_inv h
        cases hz
        cases h
        exact hk.trans hk2
      | true =>
        simp only [↓reduceIte] at h
        obtain ⟨z, hz, h⟩ := bind_ok_inv h
        cases h
        exact hk.trans hk2
  · extract_lets wx jp at h
    have h2 := ite_throw_jp h
    clear h
    obtain ⟨_, h⟩ := h2
    unfold jp wx at h
    clear jp wx
    obtain ⟨workz, _, h⟩ := bind_ok_inv h
    obtain ⟨K, hK, h⟩ := bind_ok_inv h
    obtain ⟨⟨ok, lx, lz, K2⟩, hs, h⟩ := bind_ok_inv h
    have hk := kstep_solve hK hs
    cases ok with
    | false =>
      simp only [Bool.false_eq_true, ↓reduceIte] at h
      obtain ⟨p, hp, h⟩ := bind_ok_inv h
      cases hp
      split at h
      · cases h
      · cases h
        exact hk
    | true =>
      simp only [↓reduceIte] at h
      obtain ⟨x, _, h⟩ := bind_ok_inv h
      obtain ⟨z, _, h⟩ := bind_ok_inv h
      obtain ⟨p, hp, h⟩ := bind_ok_inv h
      cases hp
      split at h
      · cases h
      · cases h
        exact hk

theorem solveInitialPoint_kstep {S : KktSys α} {vars : Vars α} {data : ProblemData α} {st : LinSettings α}
    {r : Bool × Vars α × KktSys α} (h : S.solveInitialPoint vars data st = .ok r) :
    KStep st S.kktsolver r.2.2.kktsolver := by
  rw [KktSys.solveInitialPoint_eq_core] at h
  exact solveInitialPointCore_kstep h

/-! ### one pass, the loop, `default_start`, `solve()` -/

theorem kktNumerics_kstep {st : Settings α} {S : SolverSt α} {cones : List (ConeSt α)} {mu : α}
    {iter : Nat} {k : KktOut α} (h : kktNumerics st S cones mu iter = .ok k) :
    KStep st.lin S.kktsystem.kktsolver k.S.kktsystem.kktsolver := by
  unfold kktNumerics at h
  extract_lets data at h
  obtain ⟨⟨updOk, K0⟩, hupd, h⟩ := bind_ok_inv h
  dsimp -zeta only at h
  obtain ⟨rhs1, _, h⟩ := bind_ok_inv h
  extract_lets jp at h
  have hK0 := kktUpdate_kstep hupd
  have hx : ∃ x : Bool × Vars α × KktSys α, KStep st.lin K0.kktsolver x.2.2.kktsolver ∧ jp x = .ok k := by
    split at h
    · obtain ⟨x, hx, h⟩ := bind_ok_inv h
      exact ⟨x, kktSolve_kstep hx, h⟩
    · obtain ⟨x, hx, h⟩ := bind_ok_inv h
      cases hx
      exact ⟨_, KStep.rfl' _ _, h⟩
  clear h
  obtain ⟨⟨affOk, lhs1, K1⟩, hK1, h⟩ := hx
  unfold jp at h
  clear jp
  dsimp only at h
  split at h
  · obtain ⟨aAff, _, h⟩ := bind_ok_inv h
    obtain ⟨⟨rhs2, lhs2⟩, _, h⟩ := bind_ok_inv h
    obtain ⟨⟨combOk, lhs3, K3⟩, hs, h⟩ := bind_ok_inv h
    cases h
    exact (hK0.trans hK1).trans (kktSolve_kstep hs)
  · cases h
    exact hK0.trans hK1

theorem pass_kstep {st : Settings α} {L L' : LoopSt α} {c : Bool} (hp : pass st L = .ok (c, L')) :
    KStep st.lin L.S.kktsystem.kktsolver L'.S.kktsystem.kktsolver := by
  cases pass_inv hp with
  | done residuals mu info1 htop hdone hip => exact KStep.rfl' _ _
  | rollback residuals mu info1 vs htop hdone hip hcopy => exact KStep.rfl' _ _
  | scaleFail residuals mu info1 sc htop hdone hsc hok' => exact KStep.rfl' _ _
  | kktFail residuals mu info1 sc k htop hdone hsc hok' hk hkok =>
    have h1 := kktNumerics_kstep hk
    exact h1
  | smallStep residuals mu info1 sc k a htop hdone hsc hok' hk hkok ha hsmall =>
    have h1 := kktNumerics_kstep hk
    exact h1
  | step residuals mu info1 sc k a pv htop hdone hsc hok' hk hkok ha hsmall hpv =>
    have h1 := kktNumerics_kstep hk
    exact h1

theorem reach_kstep {st : Settings α} {L L' : LoopSt α} (h : Reach st L L') :
    KStep st.lin L.S.kktsystem.kktsolver L'.S.kktsystem.kktsolver := by
  induction h with
  | refl => exact KStep.rfl' _ _
  | step hp _ ih => exact (pass_kstep hp).trans ih

theorem defaultStart_kstep {S S' : SolverSt α} {st : Settings α} (h : S.defaultStart st = .ok S') :
    KStep st.lin S.kktsystem.kktsolver S'.kktsystem.kktsolver := by
  unfold SolverSt.defaultStart at h
  dsimp only at h
  obtain ⟨⟨ok1, K1⟩, hu, h⟩ := bind_ok_inv h
  obtain ⟨⟨ok2, v2, K2⟩, hi, h⟩ := bind_ok_inv h
  obtain ⟨v3, _, h⟩ := bind_ok_inv h
  cases h
  exact (kktUpdate_kstep hu).trans (solveInitialPoint_kstep hi)

/-- **a whole `solve()`** leaves the linear-solver object as it found it, up to what the next `update`
rewrites; the invariant is kept -/
theorem solve_kstep {S : Solver α} {st : Settings α} {r : SolveResult α} (h : S.solve st = .ok r) :
    KStep st.lin S.st.kktsystem.kktsolver r.S.st.kktsystem.kktsolver := by
  unfold Solver.solve at h
  obtain ⟨L, hL, h⟩ := bind_ok_inv h
  obtain ⟨p, hp, h⟩ := bind_ok_inv h
  obtain ⟨dN, hdN, h⟩ := bind_ok_inv h
  cases h
  unfold finish at hp
  obtain ⟨u, hu, hp⟩ := bind_ok_inv hp
  cases hp
  have hfin : (finishInfo st L).kktsystem = L.S.kktsystem := by
    unfold finishInfo
    dsimp only
    split <;> rfl
  rw [runSolve_eq_runSolveO] at hL
  obtain ⟨o, ho, hl⟩ := bind_ok_inv hL
  unfold SolverSt.runSolveO at ho
  obtain ⟨S0, hds, ho⟩ := bind_ok_inv ho
  have hI := initLoopSt_inv hds
  have hspec := runLoopO_spec st (st.info.max_iter + 2) (initLoopSt S0) hI
    (by show st.info.max_iter - 0 < st.info.max_iter + 2; omega)
  rw [ho] at hspec
  cases o with
  | none => exact hspec.elim
  | some Lf =>
    cases hl
    obtain ⟨_, Lm, hr, hpm⟩ := hspec
    have d := defaultStart_kstep (S := resetInfo S.st) hds
    have r1 := reach_kstep hr
    have q1 := pass_kstep hpm
    show KStep st.lin S.st.kktsystem.kktsolver (finishInfo st L).kktsystem.kktsolver
    rw [hfin]
    exact (d.trans r1).trans q1

end

end Clarabel.Solver
