/-
  Panic-freedom of the whole-solver model WITH NONSYMMETRIC CONES (C04) — composite-cone
  operations, part A (`ClarabelModel/SolverNS/Cones.lean`): `update_scaling`, `get_Hs`, `mul_Hs`,
  `affine_ds`, `Δs_from_Δz_offset`, `combined_ds_shift`, `set_identity_scaling` on consistently
  sized cone objects (`ConesFull`) and vectors of the composite cone's dimension, with the sizes of
  what they return.  These are exactly the fields `updateScaling`, `getHs`, `mulHs`, `affineDs`,
  `dsFromDzOffset`, `combinedDsShift`, `setIdentity` of `ConeStage E`
  (`SolverNSNoPanicDefs.lean`), as stand-alone theorems.

  The only reachable panic is `Exp.wrightOmega`'s `"argument not in supported range"`, from
  `Exp.updateScaling` under the PrimalDual strategy.  The generalised power cone's
  `assert: zeta > 0` in `GenPow.updateDualGradH` is NOT reachable: `GenPow.updateScaling` tests the
  same expression first.

  All structural ([S]).
-/
import ClarabelProofs.Lemmas.SolverNSNoPanicDefs
import ClarabelProofs.Lemmas.SolverModelNoPanicConesA
import ClarabelProofs.Lemmas.SolverModelNoPanicConesB

namespace Clarabel.SolverNS
open Clarabel Info Residuals
open Clarabel.Solver (OkAnd bind_ok_of bind_ok_inv)

set_option linter.unusedSectionVars false
set_option linter.unusedVariables false

variable {α : Type}

/-! ### generic helpers: lists of cones and their slices -/

/-- two families of slices related to the same cones, zipped -/
theorem forall2_zip {β γ δ : Type} {R1 : β → γ → Prop} {R2 : β → δ → Prop} {cs : List β}
    {as : List γ} (h1 : List.Forall₂ R1 cs as) : ∀ {bs : List δ}, List.Forall₂ R2 cs bs →
      List.Forall₂ (fun c (p : γ × δ) => R1 c p.1 ∧ R2 c p.2) cs (as.zip bs) := by
  induction h1 with
  | nil => intro bs h2; cases h2; exact .nil
  | cons hab _ ih =>
    intro bs h2
    cases h2 with
    | cons hcd h2' => exact .cons ⟨hab, hcd⟩ (ih h2')

/-- per-cone sizes, as an equation between the lists of sizes -/
theorem forall2_sizes {β : Type} (g : β → Array α) {cones : List (ConeSt α)} {outs : List β}
    (h : List.Forall₂ (fun c o => (g o).size = c.numel) cones outs) :
    (outs.map g).map Array.size = cones.map ConeSt.numel := by
  induction h with
  | nil => rfl
  | cons hab _ ih => simp only [List.map_cons, hab, ih]

/-- [S] pasting per-cone results of the cones' dimensions back keeps the length of the vector -/
theorem pasteBack_size_of {β : Type} (g : β → Array α) {cones : List (ConeSt α)} {v : Array α}
    {outs : List β} (h : List.Forall₂ (fun c o => (g o).size = c.numel) cones outs)
    (hv : v.size = numelAll cones) : (pasteBack cones v (outs.map g)).size = v.size := by
  unfold pasteBack
  rw [Array.size_append, Solver.foldl_append_size, forall2_sizes g h, Array.size_extract]
  show numelAll cones + _ = _
  omega

theorem pasteBack_size_id {cones : List (ConeSt α)} {v : Array α} {outs : List (Array α)}
    (h : List.Forall₂ (fun c (o : Array α) => o.size = c.numel) cones outs)
    (hv : v.size = numelAll cones) : (pasteBack cones v outs).size = v.size := by
  have := pasteBack_size_of (fun o : Array α => o) h hv
  rwa [List.map_id'] at this

/-- [S] a per-cone map over `(cone, slices)` succeeds, with outputs related to the cones, when it
does on every consistently sized cone with related slices -/
theorem mapM_zip_okAnd {γ β : Type} (R : ConeSt α → γ → Prop) (Q : ConeSt α → β → Prop)
    (f : ConeSt α × γ → MErr β)
    (hf : ∀ c p, ConeFull c → R c p → OkAnd (f (c, p)) (Q c)) :
    ∀ {cones : List (ConeSt α)} {ps : List γ}, List.Forall₂ R cones ps → ConesFull cones →
      OkAnd ((cones.zip ps).mapM f) (fun outs => List.Forall₂ Q cones outs) := by
  intro cones ps h
  induction h with
  | nil => intro _; exact ⟨[], rfl, .nil⟩
  | @cons c p cs ps' hcp _ ih =>
    intro hP
    obtain ⟨o, ho, hq⟩ := hf c p hP.head hcp
    obtain ⟨os, hos, hqs⟩ := ih hP.tail
    refine ⟨o :: os, ?_, .cons hq hqs⟩
    simp only [List.zip_cons_cons, List.mapM_cons]
    rw [bind_ok_of ho, bind_ok_of hos]
    rfl

/-! ### 3-dimensional slices -/

/-- [S] a slice of length 3 is a triple -/
theorem v3E_ok {a : Array α} (site : String) (h : a.size = 3) : ∃ v, v3E a site = .ok v := by
  obtain ⟨l⟩ := a
  have hl : l.length = 3 := h
  rcases l with _ | ⟨a0, _ | ⟨a1, _ | ⟨a2, _ | ⟨a3, t⟩⟩⟩⟩
  · cases hl
  · cases hl
  · cases hl
  · exact ⟨(a0, a1, a2), rfl⟩
  · simp only [List.length_cons] at hl
    omega

theorem v3toArray_size (x : V3 α) : (Nonsym.v3toArray x).size = 3 := rfl

section
variable [Add α] [Sub α] [Mul α] [Div α] [Neg α] [LT α] [LE α] [DecidableLT α] [DecidableLE α]
  [BEq α] [OfNat α 0] [OfNat α 1] [OfNat α 2] [OfNat α 3] [OfNat α 4] [OfNat α 100] [OfNat α 1000]
  [OfScientific α] [FloatLike α]

/-! ### the generalised power cone's kernels -/

theorem genpow_split_ok {x : Array α} {d1 : Nat} (h : d1 ≤ x.size) :
    GenPow.split x d1 = .ok (x.extract 0 d1, x.extract d1 x.size) := by
  unfold GenPow.split
  rw [if_pos h]
  rfl

/-- [S] `mul_Hs` of a generalised power cone is total on a slice of the cone's dimension -/
theorem genpow_mulHs_ok {D : GenPow.Data α} (mu : α) {d1 d2 : Nat} {x : Array α}
    (hp : D.p.size = d1 + d2) (hq : D.q.size = d1) (hr : D.r.size = d2) (hd : D.d1.size = d1)
    (hx : x.size = d1 + d2) : OkAnd (GenPow.mulHs D mu d1 x) (fun o => o.size = d1 + d2) := by
  unfold GenPow.mulHs
  rw [bind_ok_of (genpow_split_ok (by omega))]
  dsimp only
  split
  · rename_i hg
    exfalso
    simp only [List.size_toArray, List.length_append, List.length_map, List.length_zip,
      Array.length_toList, Array.size_extract, bne_iff_ne, ne_eq] at hg
    omega
  · refine ⟨_, rfl, ?_⟩
    dsimp only
    unfold Vec.scale
    rw [Array.size_map, Solver.axpby_size]
    · simp only [List.size_toArray, List.length_append, List.length_map, List.length_zip,
        Array.length_toList, Array.size_extract]
      omega
    · simp only [List.size_toArray, List.length_append, List.length_map, List.length_zip,
        Array.length_toList, Array.size_extract]
      omega

/-! ### `get_Hs` -/

/-- [S] `get_Hs` of one cone is total and fills exactly its `rng_blocks` entry -/
theorem getHs1_ok {c : ConeSt α} (h : ConeFull c) :
    OkAnd (getHs1 c) (fun b => b.size = c.kktSpec.blockLen) := by
  cases c with
  | sym c => exact Solver.getHs1_ok (c := c) h
  | exp K =>
    refine ⟨_, rfl, ?_⟩
    show (6 : Nat) = Kkt.ConeSpec.exp.blockLen
    decide
  | pow a K =>
    refine ⟨_, rfl, ?_⟩
    show (6 : Nat) = Kkt.ConeSpec.pow.blockLen
    decide
  | genpow al d2 ψ K =>
    obtain ⟨_, _, _, _, hd1, _⟩ := h
    refine ⟨_, rfl, ?_⟩
    show (GenPow.getHs K.D K.mu d2).size = (Kkt.ConeSpec.genpow al.size d2).blockLen
    unfold GenPow.getHs
    simp only [List.size_toArray, List.length_append, List.length_map, Array.length_toList,
      List.length_replicate, hd1]
    rfl

/-- [S] `CompositeCone::get_Hs` is total on consistently sized cones and fills exactly the
`Hsblocks` buffer of the KKT data map -/
theorem getHs_ok (cones : List (ConeSt α)) (h : ConesFull cones) :
    OkAnd (getHs cones) (fun hs => hs.size = Kkt.hsblocksLen (cones.map ConeSt.kktSpec)) := by
  have key : ∀ (cs : List (ConeSt α)), ConesFull cs →
      ∃ blocks, cs.mapM getHs1 = .ok blocks
        ∧ blocks.map Array.size = (cs.map ConeSt.kktSpec).map Kkt.ConeSpec.blockLen := by
    intro cs
    induction cs with
    | nil => intro _; exact ⟨[], rfl, rfl⟩
    | cons c cs ih =>
      intro hc
      obtain ⟨b, hb, hbs⟩ := getHs1_ok hc.head
      obtain ⟨bs, hbs1, hbs2⟩ := ih hc.tail
      refine ⟨b :: bs, ?_, ?_⟩
      · simp only [List.mapM_cons]
        rw [bind_ok_of hb, bind_ok_of hbs1]
        rfl
      · simp only [List.map_cons, hbs, hbs2]
  obtain ⟨blocks, hb1, hb2⟩ := key cones h
  refine ⟨blocks.foldl (· ++ ·) #[], ?_, ?_⟩
  · unfold getHs
    rw [bind_ok_of hb1]
    rfl
  · dsimp only
    rw [Solver.foldl_append_size, hb2]
    rfl

/-! ### `mul_Hs` -/

theorem nn_mulHs_ok {K : Nonneg.Cone α} {x : Array α} (hx : x.size = K.w.size) :
    OkAnd (Nonneg.mulHs K x) (fun o => o.size = K.w.size) := by
  have h : ∃ o, Nonneg.mulHs K x = .ok o := by
    refine ⟨Array.zipWith (fun wi xi => wi * (wi * xi)) K.w x, ?_⟩
    unfold Nonneg.mulHs Nonneg.sizeGuard
    have : (x.size == K.w.size) = true := by rw [hx]; simp
    rw [this]
    rfl
  obtain ⟨o, ho⟩ := h
  exact ⟨o, ho, Solver.nn_mulHs_size ho⟩

/-- [S] `CompositeCone::mul_Hs` is total on consistently sized cones and keeps the length of `y` -/
theorem mulHs_ok (cones : List (ConeSt α)) (y x : Array α) (h : ConesFull cones)
    (hy : y.size = numelAll cones) (hx : x.size = numelAll cones) :
    OkAnd (mulHs cones y x) (fun o => o.size = y.size) := by
  obtain ⟨xs, hxs, hrel⟩ := cutE_ok (cones := cones) (v := x) "mul_Hs x" (by omega)
  obtain ⟨ys, hys, _⟩ := cutE_ok (cones := cones) (v := y) "mul_Hs y" (by omega)
  unfold mulHs
  rw [bind_ok_of hxs, bind_ok_of hys]
  refine (mapM_zip_okAnd (fun c (p : Array α) => p.size = c.numel)
    (fun c (o : Array α) => o.size = c.numel) _ ?_ hrel h).bind fun outs houts => ?_
  · intro c p hc hp
    cases c with
    | sym c =>
      cases c with
      | zero d =>
        refine ⟨_, rfl, ?_⟩
        show (p.map _).size = d
        rw [Array.size_map]; exact hp
      | nonneg K => exact nn_mulHs_ok hp
      | soc K =>
        obtain ⟨h2, hw, _, _, _⟩ := hc
        obtain ⟨o, ho⟩ := Solver.soc_mulHs_ok h2 hw hp
        exact ⟨o, ho, Solver.soc_mulHs_size hw ho⟩
    | exp K =>
      obtain ⟨v, hv⟩ := v3E_ok "mul_Hs" hp
      refine ⟨Nonsym.v3toArray (K.Hs.mul v), ?_, rfl⟩
      show (v3E p "mul_Hs" >>= fun v => pure (Nonsym.v3toArray (K.Hs.mul v))) = _
      rw [bind_ok_of hv]
      rfl
    | pow a K =>
      obtain ⟨v, hv⟩ := v3E_ok "mul_Hs" hp
      refine ⟨Nonsym.v3toArray (K.Hs.mul v), ?_, rfl⟩
      show (v3E p "mul_Hs" >>= fun v => pure (Nonsym.v3toArray (K.Hs.mul v))) = _
      rw [bind_ok_of hv]
      rfl
    | genpow al d2 ψ K =>
      obtain ⟨_, hp', hq, hr, hd1, _⟩ := hc
      exact genpow_mulHs_ok K.mu hp' hq hr hd1 hp
  · exact Solver.OkAnd.pure (pasteBack_size_id houts hy)

/-! ### `affine_ds` -/

/-- [S] `CompositeCone::affine_ds` is total on consistently sized cones and keeps the length of
`ds` (the nonsymmetric cones copy their slice of `s`) -/
theorem affineDs_ok (cones : List (ConeSt α)) (ds s : Array α) (h : ConesFull cones)
    (hds : ds.size = numelAll cones) (hs : s.size = numelAll cones) :
    OkAnd (affineDs cones ds s) (fun o => o.size = ds.size) := by
  obtain ⟨dss, hdss, hrel1⟩ := cutE_ok (cones := cones) (v := ds) "affine_ds ds" (by omega)
  obtain ⟨ss, hss, hrel2⟩ := cutE_ok (cones := cones) (v := s) "affine_ds s" (by omega)
  unfold affineDs
  rw [bind_ok_of hdss, bind_ok_of hss]
  refine (mapM_zip_okAnd _ (fun c (o : Array α) => o.size = c.numel) _ ?_
    (forall2_zip hrel1 hrel2) h).bind fun outs houts => ?_
  · intro c p hc hp
    obtain ⟨hp1, hp2⟩ := hp
    cases c with
    | sym c =>
      cases c with
      | zero d =>
        refine ⟨_, rfl, ?_⟩
        show (p.1.map _).size = d
        rw [Array.size_map]; exact hp1
      | nonneg K =>
        have e1 : K.lam.size = K.w.size := hc
        have e2 : p.1.size = K.w.size := hp1
        refine ⟨K.lam.map (fun li => li * li), ?_, ?_⟩
        · show Nonneg.affineDs K p.1.size = _
          unfold Nonneg.affineDs
          rw [if_neg (by omega)]
          rfl
        · show (K.lam.map _).size = K.w.size
          rw [Array.size_map]; exact e1
      | soc K =>
        obtain ⟨h2, hw, hl, _, _⟩ := hc
        have e2 : p.1.size = K.dim := hp1
        obtain ⟨r, hr⟩ := Solver.soc_circOp_self_ok (y := K.lam) (by omega)
        have hsz := Solver.soc_circOp_size hr
        refine ⟨r, ?_, ?_⟩
        · show (Soc.affineDs K >>= fun r =>
            if r.size != p.1.size then throw (.panic "affine_ds: length") else pure r) = _
          unfold Soc.affineDs
          rw [bind_ok_of hr]
          have : (r.size != p.1.size) = false := by
            rw [hsz, hl, e2]; simp
          rw [this]
          rfl
        · show r.size = K.dim
          rw [hsz, hl]
    | exp K => exact ⟨_, rfl, hp2⟩
    | pow a K => exact ⟨_, rfl, hp2⟩
    | genpow al d2 ψ K => exact ⟨_, rfl, hp2⟩
  · exact Solver.OkAnd.pure (pasteBack_size_id houts hds)

/-! ### `Δs_from_Δz_offset` -/

/-- [S] `CompositeCone::Δs_from_Δz_offset` is total on consistently sized cones and keeps the
length of `out` (the nonsymmetric cones copy their slice of `ds`) -/
theorem dsFromDzOffset_ok (cones : List (ConeSt α)) (out ds z : Array α) (h : ConesFull cones)
    (h1 : out.size = numelAll cones) (h2 : ds.size = numelAll cones) (h3 : z.size = numelAll cones) :
    OkAnd (dsFromDzOffset cones out ds z) (fun o => o.size = out.size) := by
  obtain ⟨os, hos, hrel1⟩ := cutE_ok (cones := cones) (v := out) "Δs_from_Δz_offset out" (by omega)
  obtain ⟨dss, hdss, hrel2⟩ := cutE_ok (cones := cones) (v := ds) "Δs_from_Δz_offset ds" (by omega)
  obtain ⟨zs, hzs, hrel3⟩ := cutE_ok (cones := cones) (v := z) "Δs_from_Δz_offset z" (by omega)
  unfold dsFromDzOffset
  rw [bind_ok_of hos, bind_ok_of hdss, bind_ok_of hzs]
  refine (mapM_zip_okAnd _ (fun c (o : Array α) => o.size = c.numel) _ ?_
    (forall2_zip hrel1 (forall2_zip hrel2 hrel3)) h).bind fun outs houts => ?_
  · intro c p hc hp
    obtain ⟨hp1, hp2, hp3⟩ := hp
    cases c with
    | sym c =>
      cases c with
      | zero d =>
        refine ⟨_, rfl, ?_⟩
        show (p.1.map _).size = d
        rw [Array.size_map]; exact hp1
      | nonneg K =>
        obtain ⟨o, ho⟩ := Solver.ConesB.nn_dsFromDzOffset_ok (hp2.trans hp3.symm)
        exact ⟨o, ho, (Solver.nn_dsFromDzOffset_size ho).trans hp2⟩
      | soc K =>
        obtain ⟨g1, g2, g3, _⟩ := hc
        obtain ⟨o, ho⟩ := Solver.ConesB.soc_dsFromDzOffset_ok g2 g3 (by omega) hp2 hp3
        exact ⟨o, ho, Solver.soc_dsFromDzOffset_size g2 ho⟩
    | exp K => exact ⟨_, rfl, hp2⟩
    | pow a K => exact ⟨_, rfl, hp2⟩
    | genpow al d2 ψ K => exact ⟨_, rfl, hp2⟩
  · exact Solver.OkAnd.pure (pasteBack_size_id houts h1)

/-! ### `combined_ds_shift` -/

theorem forall2_mono {β γ : Type} {R R' : β → γ → Prop} (hR : ∀ a b, R a b → R' a b) {l : List β}
    {l' : List γ} (h : List.Forall₂ R l l') : List.Forall₂ R' l l' := by
  induction h with
  | nil => exact .nil
  | cons hab _ ih => exact .cons (hR _ _ hab) ih

/-- [S] `CompositeCone::combined_ds_shift` is total on consistently sized cones and keeps the
lengths of the three vectors -/
theorem combinedDsShift_ok (cones : List (ConeSt α)) (shift stepZ stepS : Array α) (σμ : α)
    (h : ConesFull cones) (h1 : shift.size = numelAll cones) (h2 : stepZ.size = numelAll cones)
    (h3 : stepS.size = numelAll cones) :
    OkAnd (combinedDsShift cones shift stepZ stepS σμ)
      (fun o => o.1.size = shift.size ∧ o.2.1.size = stepZ.size ∧ o.2.2.size = stepS.size) := by
  obtain ⟨shs, hshs, hrel1⟩ :=
    cutE_ok (cones := cones) (v := shift) "combined_ds_shift shift" (by omega)
  obtain ⟨zs, hzs, hrel2⟩ :=
    cutE_ok (cones := cones) (v := stepZ) "combined_ds_shift step_z" (by omega)
  obtain ⟨ss, hss, hrel3⟩ :=
    cutE_ok (cones := cones) (v := stepS) "combined_ds_shift step_s" (by omega)
  unfold combinedDsShift
  rw [bind_ok_of hshs, bind_ok_of hzs, bind_ok_of hss]
  refine (mapM_zip_okAnd _ (fun c (o : Array α × Array α × Array α) =>
      o.1.size = c.numel ∧ o.2.1.size = c.numel ∧ o.2.2.size = c.numel) _ ?_
    (forall2_zip hrel1 (forall2_zip hrel2 hrel3)) h).bind fun outs houts => ?_
  · intro c p hc hp
    obtain ⟨hp1, hp2, hp3⟩ := hp
    cases c with
    | sym c =>
      cases c with
      | zero d =>
        refine ⟨_, rfl, ?_, hp2, hp3⟩
        show (p.1.map _).size = d
        rw [Array.size_map]; exact hp1
      | nonneg K =>
        obtain ⟨o, ho⟩ := Solver.ConesB.nn_combinedDsShift_ok (K := K) σμ hp2 hp3
        exact ⟨o, ho, Solver.nn_combinedDsShift_size ho⟩
      | soc K =>
        obtain ⟨g1, g2, g3, _⟩ := hc
        obtain ⟨o, ho⟩ := Solver.ConesB.soc_combinedDsShift_ok (K := K) σμ g2 (by omega) hp2 hp3
        exact ⟨o, ho, Solver.soc_combinedDsShift_size g2 ho⟩
    | exp K =>
      obtain ⟨dz, hdz⟩ := v3E_ok "step_z" hp2
      obtain ⟨dsv, hdsv⟩ := v3E_ok "step_s" hp3
      refine ⟨(Nonsym.v3toArray (Exp.combinedDsShift K.Hdual K.grad K.z dz dsv σμ), p.2.1, p.2.2),
        ?_, rfl, hp2, hp3⟩
      show (v3E p.2.1 "step_z" >>= fun dz => v3E p.2.2 "step_s" >>= fun ds =>
        pure (Nonsym.v3toArray (Exp.combinedDsShift K.Hdual K.grad K.z dz ds σμ), p.2.1, p.2.2)) = _
      rw [bind_ok_of hdz, bind_ok_of hdsv]
      rfl
    | pow a K =>
      obtain ⟨dz, hdz⟩ := v3E_ok "step_z" hp2
      obtain ⟨dsv, hdsv⟩ := v3E_ok "step_s" hp3
      refine ⟨(Nonsym.v3toArray (Pow.combinedDsShift a K.Hdual K.grad K.z dz dsv σμ), p.2.1, p.2.2),
        ?_, rfl, hp2, hp3⟩
      show (v3E p.2.1 "step_z" >>= fun dz => v3E p.2.2 "step_s" >>= fun ds =>
        pure (Nonsym.v3toArray (Pow.combinedDsShift a K.Hdual K.grad K.z dz ds σμ), p.2.1, p.2.2)) = _
      rw [bind_ok_of hdz, bind_ok_of hdsv]
      rfl
    | genpow al d2 ψ K =>
      obtain ⟨hg, _, _, _, _, _⟩ := hc
      have e1 : p.1.size = al.size + d2 := hp1
      have esz : (GenPow.combinedDsShift K.D p.2.1 p.2.2 σμ).size = al.size + d2 := by
        unfold GenPow.combinedDsShift
        rw [Array.size_map]; exact hg
      refine ⟨(GenPow.combinedDsShift K.D p.2.1 p.2.2 σμ, p.2.1, p.2.2), ?_, esz, hp2, hp3⟩
      show (if (GenPow.combinedDsShift K.D p.2.1 p.2.2 σμ).size != p.1.size then
          (throw (ModelErr.panic "genpow combined_ds_shift: length") : MErr _)
        else pure (GenPow.combinedDsShift K.D p.2.1 p.2.2 σμ, p.2.1, p.2.2)) = _
      have : ((GenPow.combinedDsShift K.D p.2.1 p.2.2 σμ).size != p.1.size) = false := by
        rw [esz, e1]; simp
      rw [this]
      rfl
  · refine Solver.OkAnd.pure ⟨?_, ?_, ?_⟩
    · exact pasteBack_size_of (fun o : Array α × Array α × Array α => o.1)
        (forall2_mono (fun _ _ hq => hq.1) houts) h1
    · exact pasteBack_size_of (fun o : Array α × Array α × Array α => o.2.1)
        (forall2_mono (fun _ _ hq => hq.2.1) houts) h2
    · exact pasteBack_size_of (fun o : Array α × Array α × Array α => o.2.2)
        (forall2_mono (fun _ _ hq => hq.2.2) houts) h3

/-! ### `set_identity_scaling` -/

/-- [S] `CompositeCone::set_identity_scaling` is total on a symmetric composite cone (the
`unreachable!()` of the nonsymmetric cones is not reached), keeps the cone objects consistently
sized, and keeps the KKT specs, the total dimension and symmetry -/
theorem setIdentityScaling_ok (cones : List (ConeSt α)) (hsym : isSymmetric cones = true)
    (h : ConesFull cones) :
    OkAnd (setIdentityScaling cones) (fun cs => ConesFull cs
      ∧ cs.map ConeSt.kktSpec = cones.map ConeSt.kktSpec ∧ numelAll cs = numelAll cones
      ∧ isSymmetric cs = true) := by
  induction cones with
  | nil => exact ⟨[], rfl, ConesFull.nil, rfl, rfl, rfl⟩
  | cons c cs ih =>
    unfold isSymmetric at hsym
    simp only [List.all_cons, Bool.and_eq_true] at hsym
    obtain ⟨hs1, hs2⟩ := hsym
    obtain ⟨cs', hcs', g1, g2, g3, g4⟩ := ih hs2 h.tail
    cases c with
    | sym c0 =>
      obtain ⟨f1, f2, _, f4⟩ := Solver.setIdentityScaling1_full c0 h.head
      refine ⟨.sym (Solver.setIdentityScaling1 c0) :: cs', ?_, ConesFull.cons f1 g1, ?_, ?_, ?_⟩
      · unfold setIdentityScaling at hcs' ⊢
        simp only [List.mapM_cons]
        rw [hcs']
        rfl
      · simp only [List.map_cons, g2]
        show (Solver.setIdentityScaling1 c0).kktSpec :: _ = c0.kktSpec :: _
        rw [f2]
      · rw [numelAll_cons, numelAll_cons, g3]
        show (Solver.setIdentityScaling1 c0).numel + _ = c0.numel + _
        rw [f4]
      · unfold isSymmetric at g4 ⊢
        simp only [List.all_cons, Bool.and_eq_true]
        exact ⟨rfl, g4⟩
    | exp K => cases hs1
    | pow a K => cases hs1
    | genpow al d2 ψ K => cases hs1

/-! ### `update_scaling` -/

/-- [S] `gradient_primal` of the exponential cone: the only failure is the Wright-omega domain
panic -/
theorem exp_gradientPrimal_ok {E : String → Prop} (hw : E "argument not in supported range")
    (s : V3 α) : OkOr E (Exp.gradientPrimal s) (fun _ => True) := by
  unfold Exp.gradientPrimal Exp.wrightOmega
  split
  · exact OkOr.throw hw
  · exact trivial

/-- [S] `update_scaling` of the exponential cone: total under the Dual strategy; under the
PrimalDual strategy the only failure is the Wright-omega domain panic -/
theorem exp_updateScaling_ok {E : String → Prop} (s z : V3 α) (mu : α) (dual : Bool)
    (hw : dual = false → E "argument not in supported range") :
    OkOr E (Exp.updateScaling s z mu dual) (fun _ => True) := by
  unfold Exp.updateScaling Exp.updateDualGradH
  dsimp only
  cases dual with
  | true => exact trivial
  | false =>
    simp only [Bool.false_eq_true, ↓reduceIte]
    refine (exp_gradientPrimal_ok (hw rfl) s).bind fun zt _ => ?_
    exact trivial

/-- [S] `update_scaling` of the generalised power cone is TOTAL: the `assert: zeta > 0` of
`update_dual_grad_H` is guarded by the test of the same expression in `update_scaling`; the data
it stores have the lengths of the cone's dimensions (also when the update is refused) -/
theorem genpow_updateScaling_ok {al : Array α} {d2 : Nat} (ψ : α) {st : GenPow.State α}
    {z : Array α} (mu : α) (hst : ConeFull (ConeSt.genpow al d2 ψ st)) (hz : z.size = al.size + d2) :
    OkAnd (GenPow.updateScaling al st z mu) (fun r => ConeFull (ConeSt.genpow al d2 ψ r.2)) := by
  unfold GenPow.updateScaling
  rw [bind_ok_of (genpow_split_ok (by omega))]
  dsimp only
  split
  · exact ⟨_, rfl, hst⟩
  · rename_i hζ
    unfold GenPow.updateDualGradH
    rw [bind_ok_of (genpow_split_ok (by omega))]
    dsimp only
    rw [if_neg hζ]
    refine ⟨_, rfl, ?_⟩
    refine ⟨?_, ?_, ?_, ?_, ?_, hz⟩ <;>
    · dsimp only
      simp only [List.size_toArray, List.length_append, List.length_map, List.length_zip,
        Array.length_toList, Array.size_extract]
      omega

/-- [S] `update_scaling` of one cone on slices of the cone's dimension: the only failure is the
Wright-omega domain panic, of an EXPONENTIAL cone under the PrimalDual strategy (for every other
cone, and under the Dual strategy, it is total); the cone object stays consistently sized, with the
same KKT spec and dimension -/
theorem updateScaling1_okG {E : String → Prop} {c : ConeSt α} {s z : Array α} (mu : α) (dual : Bool)
    (hw : dual = false → c.kktSpec = Kkt.ConeSpec.exp → E "argument not in supported range")
    (hc : ConeFull c) (hs : s.size = c.numel) (hz : z.size = c.numel) :
    OkOr E (updateScaling1 c s z mu dual)
      (fun r => ConeFull r.2 ∧ r.2.kktSpec = c.kktSpec ∧ r.2.numel = c.numel) := by
  cases c with
  | sym c0 =>
    obtain ⟨⟨ok, c1⟩, h1, f1, k1, n1⟩ := Solver.updateScaling1_full (c := c0) hc hs hz
    unfold updateScaling1
    dsimp only
    rw [bind_ok_of h1]
    exact OkOr.ok (E := E) (a := (ok, ConeSt.sym c1)) ⟨f1, k1, n1⟩
  | exp K =>
    obtain ⟨sv, hsv⟩ := v3E_ok "s" hs
    obtain ⟨zv, hzv⟩ := v3E_ok "z" hz
    unfold updateScaling1
    dsimp only
    rw [bind_ok_of hsv, bind_ok_of hzv]
    refine (exp_updateScaling_ok sv zv mu dual (fun hd => hw hd rfl)).bind fun K' _ => ?_
    exact OkOr.ok (E := E) (a := (true, ConeSt.exp K')) ⟨trivial, rfl, rfl⟩
  | pow a K =>
    obtain ⟨sv, hsv⟩ := v3E_ok "s" hs
    obtain ⟨zv, hzv⟩ := v3E_ok "z" hz
    unfold updateScaling1
    dsimp only
    rw [bind_ok_of hsv, bind_ok_of hzv]
    exact OkOr.ok (E := E) (a := (true, ConeSt.pow a (Pow.updateScaling a sv zv mu dual)))
      ⟨trivial, rfl, rfl⟩
  | genpow al d2 ψ K =>
    obtain ⟨⟨ok, K'⟩, h1, f1⟩ := genpow_updateScaling_ok ψ mu hc hz
    unfold updateScaling1
    dsimp only
    rw [bind_ok_of h1]
    exact OkOr.ok (E := E) (a := (ok, ConeSt.genpow al d2 ψ K')) ⟨f1, rfl, rfl⟩

/-- [S] `update_scaling` of one cone, the site allowed whatever the cone -/
theorem updateScaling1_ok {E : String → Prop} {c : ConeSt α} {s z : Array α} (mu : α) (dual : Bool)
    (hw : dual = false → E "argument not in supported range") (hc : ConeFull c)
    (hs : s.size = c.numel) (hz : z.size = c.numel) :
    OkOr E (updateScaling1 c s z mu dual)
      (fun r => ConeFull r.2 ∧ r.2.kktSpec = c.kktSpec ∧ r.2.numel = c.numel) :=
  updateScaling1_okG mu dual (fun hd _ => hw hd) hc hs hz

/-- [S] the cone-by-cone recursion of `CompositeCone::update_scaling`: the Wright-omega site is
needed only under the PrimalDual strategy and only when the list has an exponential cone -/
theorem updateScaling_go_okG {E : String → Prop} (mu : α) (dual : Bool) :
    ∀ (cs : List (ConeSt α)) (ss zs : List (Array α)),
    (dual = false → hasExp (cs.map ConeSt.kktSpec) → E "argument not in supported range") →
    ConesFull cs → List.Forall₂ (fun c (p : Array α) => p.size = c.numel) cs ss →
    List.Forall₂ (fun c (p : Array α) => p.size = c.numel) cs zs →
    OkOr E (updateScaling.go mu dual cs ss zs) (fun r => ConesFull r.2
      ∧ r.2.map ConeSt.kktSpec = cs.map ConeSt.kktSpec ∧ numelAll r.2 = numelAll cs) := by
  intro cs
  induction cs with
  | nil =>
    intro ss zs _ h _ _
    unfold updateScaling.go
    exact OkOr.ok (E := E) (a := (true, [])) ⟨h, rfl, rfl⟩
  | cons c cs ih =>
    intro ss zs hw h hs hz
    have hw1 : dual = false → c.kktSpec = Kkt.ConeSpec.exp → E "argument not in supported range" := by
      intro hd he
      refine hw hd ?_
      show Kkt.ConeSpec.exp ∈ c.kktSpec :: cs.map ConeSt.kktSpec
      rw [he]
      exact List.mem_cons_self ..
    have hw2 : dual = false → hasExp (cs.map ConeSt.kktSpec) → E "argument not in supported range" :=
      fun hd he => hw hd (List.mem_cons_of_mem _ he)
    cases hs with
    | @cons _ si _ ss' hsi hss =>
    cases hz with
    | @cons _ zi _ zs' hzi hzs =>
    unfold updateScaling.go
    refine (updateScaling1_okG mu dual hw1 h.head hsi hzi).bind fun r1 hr1 => ?_
    obtain ⟨ok, c1⟩ := r1
    obtain ⟨f1, k1, n1⟩ := hr1
    cases ok with
    | false =>
      refine OkOr.ok (E := E) (a := (false, c1 :: cs)) ⟨ConesFull.cons f1 h.tail, ?_, ?_⟩
      · show (c1 :: cs).map ConeSt.kktSpec = _
        simp only [List.map_cons]
        rw [show c1.kktSpec = c.kktSpec from k1]
      · show numelAll (c1 :: cs) = _
        rw [numelAll_cons, numelAll_cons, show c1.numel = c.numel from n1]
    | true =>
      dsimp only [Bool.not_true, Bool.false_eq_true, ↓reduceIte]
      refine (ih ss' zs' hw2 h.tail hss hzs).bind fun r2 hr2 => ?_
      obtain ⟨ok2, cs2⟩ := r2
      obtain ⟨f2, k2, n2⟩ := hr2
      refine OkOr.ok (E := E) (a := (ok2, c1 :: cs2)) ⟨ConesFull.cons f1 f2, ?_, ?_⟩
      · show (c1 :: cs2).map ConeSt.kktSpec = _
        simp only [List.map_cons]
        rw [show c1.kktSpec = c.kktSpec from k1, show cs2.map ConeSt.kktSpec = _ from k2]
      · show numelAll (c1 :: cs2) = _
        rw [numelAll_cons, numelAll_cons, show c1.numel = c.numel from n1,
          show numelAll cs2 = numelAll cs from n2]

/-- [S] the cone-by-cone recursion, the site allowed whatever the cones -/
theorem updateScaling_go_ok {E : String → Prop} (mu : α) (dual : Bool)
    (hw : dual = false → E "argument not in supported range") :
    ∀ (cs : List (ConeSt α)) (ss zs : List (Array α)),
    ConesFull cs → List.Forall₂ (fun c (p : Array α) => p.size = c.numel) cs ss →
    List.Forall₂ (fun c (p : Array α) => p.size = c.numel) cs zs →
    OkOr E (updateScaling.go mu dual cs ss zs) (fun r => ConesFull r.2
      ∧ r.2.map ConeSt.kktSpec = cs.map ConeSt.kktSpec ∧ numelAll r.2 = numelAll cs) :=
  fun cs ss zs => updateScaling_go_okG mu dual cs ss zs (fun hd _ => hw hd)

/-- [S] `CompositeCone::update_scaling`: the Wright-omega site is needed only under the PrimalDual
strategy and only when the composite has an exponential cone -/
theorem updateScaling_okG {E : String → Prop} (cones : List (ConeSt α)) (s z : Array α) (mu : α)
    (dual : Bool)
    (hw : dual = false → hasExp (cones.map ConeSt.kktSpec) → E "argument not in supported range")
    (h : ConesFull cones) (hs : s.size = numelAll cones) (hz : z.size = numelAll cones) :
    OkOr E (updateScaling cones s z mu dual) (fun r => ConesFull r.2
      ∧ r.2.map ConeSt.kktSpec = cones.map ConeSt.kktSpec ∧ numelAll r.2 = numelAll cones) := by
  obtain ⟨ss, hss, hrel1⟩ := cutE_ok (cones := cones) (v := s) "update_scaling s" (by omega)
  obtain ⟨zs, hzs, hrel2⟩ := cutE_ok (cones := cones) (v := z) "update_scaling z" (by omega)
  unfold updateScaling
  rw [bind_ok_of hss, bind_ok_of hzs]
  exact updateScaling_go_okG mu dual cones ss zs hw h hrel1 hrel2

/-- [S] **`CompositeCone::update_scaling`, sharp form**: the only failure is the Wright-omega domain
panic, and it can only be reached when the composite HAS an exponential cone; the cone objects stay
consistently sized (also when a cone refuses the update), with the same KKT specs and total
dimension -/
theorem updateScaling_okC {E : String → Prop} (cones : List (ConeSt α)) (s z : Array α) (mu : α)
    (dual : Bool)
    (hw : hasExp (cones.map ConeSt.kktSpec) → E "argument not in supported range")
    (h : ConesFull cones) (hs : s.size = numelAll cones) (hz : z.size = numelAll cones) :
    OkOr E (updateScaling cones s z mu dual) (fun r => ConesFull r.2
      ∧ r.2.map ConeSt.kktSpec = cones.map ConeSt.kktSpec ∧ numelAll r.2 = numelAll cones) :=
  updateScaling_okG cones s z mu dual (fun _ => hw) h hs hz

/-- [S] a composite WITHOUT exponential cone: `update_scaling` is TOTAL under both strategies -/
theorem updateScaling_noExp_ok (cones : List (ConeSt α)) (s z : Array α) (mu : α) (dual : Bool)
    (hne : ¬ hasExp (cones.map ConeSt.kktSpec)) (h : ConesFull cones)
    (hs : s.size = numelAll cones) (hz : z.size = numelAll cones) :
    OkAnd (updateScaling cones s z mu dual) (fun r => ConesFull r.2
      ∧ r.2.map ConeSt.kktSpec = cones.map ConeSt.kktSpec ∧ numelAll r.2 = numelAll cones) :=
  (updateScaling_okC (E := fun _ => False) cones s z mu dual hne h hs hz).okAnd

/-- [S] `CompositeCone::update_scaling`, the allowed site being needed under the PrimalDual strategy
only -/
theorem updateScaling_ok' {E : String → Prop} (cones : List (ConeSt α)) (s z : Array α) (mu : α)
    (dual : Bool) (hw : dual = false → E "argument not in supported range") (h : ConesFull cones)
    (hs : s.size = numelAll cones) (hz : z.size = numelAll cones) :
    OkOr E (updateScaling cones s z mu dual) (fun r => ConesFull r.2
      ∧ r.2.map ConeSt.kktSpec = cones.map ConeSt.kktSpec ∧ numelAll r.2 = numelAll cones) :=
  updateScaling_okG cones s z mu dual (fun hd _ => hw hd) h hs hz

/-- [S] `CompositeCone::update_scaling`: the only failure is the Wright-omega domain panic of an
exponential cone under the PrimalDual strategy; the cone objects stay consistently sized (also when
a cone refuses the update), with the same KKT specs and total dimension
(field `updateScaling` of `ConeStage E`) -/
theorem updateScaling_ok {E : String → Prop} (hw : E "argument not in supported range")
    (cones : List (ConeSt α)) (s z : Array α) (mu : α) (dual : Bool) (h : ConesFull cones)
    (hs : s.size = numelAll cones) (hz : z.size = numelAll cones) :
    OkOr E (updateScaling cones s z mu dual) (fun r => ConesFull r.2
      ∧ r.2.map ConeSt.kktSpec = cones.map ConeSt.kktSpec ∧ numelAll r.2 = numelAll cones) :=
  updateScaling_ok' cones s z mu dual (fun _ => hw) h hs hz

/-- [S] under the Dual strategy `CompositeCone::update_scaling` is TOTAL (no panic site at all) -/
theorem updateScaling_dual_ok (cones : List (ConeSt α)) (s z : Array α) (mu : α)
    (h : ConesFull cones) (hs : s.size = numelAll cones) (hz : z.size = numelAll cones) :
    OkAnd (updateScaling cones s z mu true) (fun r => ConesFull r.2
      ∧ r.2.map ConeSt.kktSpec = cones.map ConeSt.kktSpec ∧ numelAll r.2 = numelAll cones) :=
  (updateScaling_ok' (E := fun _ => False) cones s z mu true (fun hd => by cases hd) h hs hz).okAnd

/-! ### non-vacuity: one cone of each nonsymmetric kind (and a symmetric one), as `make_cone`
builds them -/

example (a ψ : α) : ConesFull (α := α)
    [.sym (.zero 1), .exp expInit, .pow a powInit,
     .genpow #[a, a] 1 ψ (GenPow.State.init 2 1)] := by
  intro c hc
  simp only [List.mem_cons, List.not_mem_nil, or_false] at hc
  rcases hc with rfl | rfl | rfl | rfl
  · trivial
  · trivial
  · trivial
  · exact ⟨rfl, rfl, rfl, rfl, rfl, rfl⟩

/-! ### the fields of `ConeStage` -/

/-- the seven theorems above are literally the corresponding fields of the interface bundle (the
hypothesis `cones.map kktSpec = specs` is used by `updateScaling` only: the Wright-omega site needs
to be allowed only when `specs` has an exponential cone) -/
example {E : String → Prop} {specs : List Kkt.ConeSpec}
    (hw : hasExp specs → E "argument not in supported range") (C : ConeStage (α := α) E specs) :
    ConeStage (α := α) E specs :=
  { C with
    updateScaling := fun cones s z mu dual h hs hz hsp =>
      updateScaling_okC cones s z mu dual (fun he => hw (hsp ▸ he)) h hs hz
    getHs := fun cones h _ => getHs_ok cones h
    mulHs := fun cones y x h hy hx _ => mulHs_ok cones y x h hy hx
    affineDs := fun cones ds s h hds hs _ => affineDs_ok cones ds s h hds hs
    dsFromDzOffset := fun cones out ds z h h1 h2 h3 _ => dsFromDzOffset_ok cones out ds z h h1 h2 h3
    combinedDsShift := fun cones shift stepZ stepS σμ h h1 h2 h3 _ =>
      combinedDsShift_ok cones shift stepZ stepS σμ h h1 h2 h3
    setIdentity := fun cones hsym h _ => setIdentityScaling_ok cones hsym h }

/-- with `E := SiteFor specs` (the interface's sharp site predicate) the hypothesis is met -/
example {specs : List Kkt.ConeSpec} :
    hasExp specs → SiteFor specs "argument not in supported range" :=
  fun he => Or.inl ⟨rfl, he⟩

end

end Clarabel.SolverNS
