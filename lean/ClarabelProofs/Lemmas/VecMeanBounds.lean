/-
  C16 (round 5): `minimum ≤ mean ≤ maximum` for non-empty vectors, and which `spalloc` results
  are canonical encodings.
-/
import ClarabelProofs.Lemmas.VecKernels
import ClarabelProofs.Lemmas.CscMisc

namespace Clarabel.Vec
open Clarabel

theorem getD_mem_toList {α : Type} [OfNat α 0] (x : Array α) (i : Nat) (h : i < x.size) : x.getD i 0 ∈ x.toList := by
  rw [Array.getD_eq_getD_getElem?, Array.getElem?_eq_getElem h]
  simp

section
variable {α : Type} [Field α] [LinearOrder α] [IsStrictOrderedRing α] [FloatLike α] [LawfulFloatLike α]

/-- the mean of a non-empty vector lies between its minimum and its maximum -/
theorem min_le_mean_le_max (x : Array α) (hne : x.size ≠ 0) :
    ∃ lo hi, minimum? x = some lo ∧ maximum? x = some hi ∧ lo ≤ mean x ∧ mean x ≤ hi ∧ lo ≤ hi := by
  obtain ⟨lo, hlo, _, hlob⟩ := minimum?_spec x hne
  obtain ⟨hi, hhi, _, hhib⟩ := maximum?_spec x hne
  have hsum := mean_mul_size x hne
  have hn : (0 : α) < (x.size : α) := by exact_mod_cast Nat.pos_of_ne_zero hne
  have h1 : lo * (x.size : α) ≤ mean x * (x.size : α) := by
    rw [hsum]
    calc lo * (x.size : α) = ∑ _i ∈ Finset.range x.size, lo := by
          rw [Finset.sum_const, Finset.card_range, nsmul_eq_mul, mul_comm]
      _ ≤ ∑ i ∈ Finset.range x.size, x.getD i 0 :=
          Finset.sum_le_sum fun i hi => hlob _ (getD_mem_toList x i (Finset.mem_range.mp hi))
  have h2 : mean x * (x.size : α) ≤ hi * (x.size : α) := by
    rw [hsum]
    calc ∑ i ∈ Finset.range x.size, x.getD i 0 ≤ ∑ _i ∈ Finset.range x.size, hi :=
          Finset.sum_le_sum fun i hi' => hhib _ (getD_mem_toList x i (Finset.mem_range.mp hi'))
      _ = hi * (x.size : α) := by
          rw [Finset.sum_const, Finset.card_range, nsmul_eq_mul, mul_comm]
  have hl := le_of_mul_le_mul_right h1 hn
  have hr := le_of_mul_le_mul_right h2 hn
  exact ⟨lo, hi, hlo, hhi, hl, hr, hl.trans hr⟩

/-- a constant vector: minimum = mean = maximum -/
theorem mean_eq_of_min_eq_max (x : Array α) (hne : x.size ≠ 0) (lo : α)
    (hlo : minimum? x = some lo) (hhi : maximum? x = some lo) : mean x = lo := by
  obtain ⟨lo', hi', h1, h2, h3, h4, _⟩ := min_le_mean_le_max x hne
  rw [hlo] at h1; rw [hhi] at h2
  cases h1; cases h2
  exact le_antisymm h4 h3

end
end Clarabel.Vec

namespace Clarabel.Csc
open Clarabel Clarabel.C16

variable {α : Type} [OfNat α 0]

theorem spalloc_colRows (m n nnz j : Nat) :
    (spalloc m n nnz : Csc α).colRows j = if j + 1 = n then List.replicate nnz 0 else [] := by
  unfold colRows
  rw [spalloc_colptr_getD, spalloc_colptr_getD]
  by_cases h1 : j + 1 = n
  · have h2 : j ≠ n := by omega
    simp [h1, h2, spalloc]
  · by_cases h2 : j = n
    · simp [h2, spalloc]
    · simp [h1, h2]

theorem spalloc_colptr_mono (m n nnz : Nat) :
    NoBadAdjacent (fun a b => a > b) (spalloc m n nnz : Csc α).colptr.toList := by
  rw [noBadAdjacent_iff_getElem]
  intro k hk
  have hsz : (spalloc m n nnz : Csc α).colptr.size = n + 1 := by simp [spalloc]
  simp only [Array.length_toList] at hk
  rw [toList_getElem_eq_getD _ k (by omega), toList_getElem_eq_getD _ (k + 1) hk,
    spalloc_colptr_getD, spalloc_colptr_getD]
  have : k ≠ n := by omega
  simp [this]

/-- which `spalloc(m, n, nnz)` are canonical encodings (row indices are all `0`, and all stored
entries belong to the last column): nothing stored, or `m > 0` and at most one entry per column —
i.e. no column at all, or exactly one entry -/
theorem spalloc_canonical_iff (m n nnz : Nat) :
    Canonical (spalloc m n nnz : Csc α) ↔ nnz = 0 ∨ (0 < m ∧ (n = 0 ∨ nnz = 1)) := by
  constructor
  · intro hc
    by_cases h0 : nnz = 0
    · exact Or.inl h0
    · right
      have hm : 0 < m := by
        have := hc.rows_bound 0 (by
          show (0 : Nat) ∈ (Array.replicate nnz 0).toList
          simp; omega)
        exact this
      refine ⟨hm, ?_⟩
      by_cases hn : n = 0
      · exact Or.inl hn
      · right
        have hs := hc.rows_sorted (n - 1) (by show n - 1 < n; omega)
        rw [spalloc_colRows, if_pos (by omega), noBadAdjacent_iff_getElem] at hs
        by_contra h1
        have h2 : 0 + 1 < (List.replicate nnz 0).length := by simp; omega
        exact hs 0 h2 (by simp)
  · intro h
    have hcl : (spalloc m n nnz : Csc α).colptr.getD n 0 = nnz := by
      rw [spalloc_colptr_getD]; simp
    refine ⟨by simp [spalloc], by simp [spalloc], by rw [show (spalloc m n nnz : Csc α).n = n from rfl, hcl]; simp [spalloc],
      spalloc_colptr_mono m n nnz, ?_, ?_⟩
    · intro j hj
      have hj' : j < n := hj
      rw [spalloc_colRows]
      split
      · rcases h with h | ⟨_, h | h⟩
        · subst h; trivial
        · omega
        · subst h; trivial
      · trivial
    · intro r hr
      have hr' : r ∈ (Array.replicate nnz 0).toList := hr
      simp at hr'
      rcases h with h | ⟨hm, _⟩
      · omega
      · show r < m
        omega

/-- … and which ones `check_format` accepts (`colptr[0] = 0` in addition) -/
theorem spalloc_canonical0_iff (m n nnz : Nat) :
    Canonical0 (spalloc m n nnz : Csc α) ↔ nnz = 0 ∨ (0 < m ∧ 0 < n ∧ nnz = 1) := by
  constructor
  · rintro ⟨hc, h0⟩
    rw [spalloc_colptr_getD] at h0
    rcases (spalloc_canonical_iff m n nnz).mp hc with h | ⟨hm, h | h⟩
    · exact Or.inl h
    · subst h; simp at h0; exact Or.inl h0
    · by_cases hn : n = 0
      · subst hn; simp at h0; exact Or.inl h0
      · exact Or.inr ⟨hm, by omega, h⟩
  · intro h
    refine ⟨(spalloc_canonical_iff m n nnz).mpr ?_, ?_⟩
    · rcases h with h | ⟨hm, _, h⟩
      · exact Or.inl h
      · exact Or.inr ⟨hm, Or.inr h⟩
    · rw [spalloc_colptr_getD]
      rcases h with h | ⟨_, hn, _⟩
      · split <;> simp [h]
      · rw [if_neg (by omega)]

end Clarabel.Csc
