/-
  Solving twice on the whole-solver model WITH NONSYMMETRIC CONES (C05) — condition (iii) is gone.
  NS counterpart of `Lemmas/SolverStaleAnyStart.lean`.

  On the symmetric branch of `default_start` the incoming content of `variables.x/s/z` is dead since
  /repo 7c1c881 (`solve_initial_point` zero-fills them): `solve()` on the object = `solve()` on the
  object with zero-filled `variables.x/s/z` (`solve_zeroVars`, an equation), and the relational chain
  applies to the two zero-filled objects with `hinit := Or.inr …`.  On the nonsymmetric branch there
  never was a condition (`unit_initialization`).  All structural ([S]).
-/
import ClarabelProofs.Lemmas.SolverNSStaleIdem
import ClarabelProofs.Lemmas.SolverStaleAnyStart

namespace Clarabel.SolverNS
open Clarabel Info Residuals
open Clarabel.Solver (RelM SameFrom VarsShape StepShape ResidShape ListRel KRel KktSolver KktSys
  LinSettings QB Upd KInv LdlInv InfoEqv carryPrev PrevEq VarsXSZ SolShape VarsSized ResidSized DataOK
  KSized SolutionSized FmaxOK zeroXSZ)

set_option linter.unusedSectionVars false
set_option linter.unusedVariables false

variable {α : Type}
variable [Add α] [Sub α] [Mul α] [Div α] [Neg α] [LT α] [LE α] [DecidableLT α] [DecidableLE α]
  [BEq α] [OfNat α 0] [OfNat α 1] [OfNat α 2] [OfNat α 3] [OfNat α 4] [OfNat α 100] [OfNat α 1000]
  [OfScientific α] [FloatLike α]

/-- the solver state with `variables.x/s/z` zero-filled (`τ, κ` and everything else untouched) -/
def SolverSt.zeroVars (S : SolverSt α) : SolverSt α := { S with «variables» := zeroXSZ S.«variables» }

/-- the solver object with `variables.x/s/z` zero-filled -/
def Solver.zeroVars (S : Solver α) : Solver α := { S with st := S.st.zeroVars }

theorem defaultStart_zeroVars (S : SolverSt α) (st : Settings α) (hs : isSymmetric S.cones = true) :
    S.zeroVars.defaultStart st = S.defaultStart st := by
  unfold SolverSt.defaultStart SolverSt.zeroVars
  dsimp only
  simp only [hs, if_true, Solver.KktSys.solveInitialPoint_zeroXSZ]

theorem runSolve_zeroVars (S : SolverSt α) (st : Settings α) (hs : isSymmetric S.cones = true) :
    S.zeroVars.runSolve st = S.runSolve st := by
  have e : ∀ T : SolverSt α, T.runSolve st =
      ((resetInfo T).defaultStart st >>= fun S0 => runLoop st (st.info.max_iter + 3) (initLoopSt S0)) := fun _ => rfl
  rw [e, e]
  show (resetInfo S).zeroVars.defaultStart st >>= _ = _
  rw [defaultStart_zeroVars _ _ (show isSymmetric (resetInfo S).cones = true from hs)]

/-- **`solve()` does not read `variables.x/s/z`** (all cones symmetric: the `solve_initial_point`
branch of `default_start`): zero-filling the three vectors before the call changes nothing. -/
theorem solve_zeroVars (S : Solver α) (st : Settings α) (hs : isSymmetric S.st.cones = true) :
    S.zeroVars.solve st = S.solve st := by
  unfold Solver.solve Solver.zeroVars
  dsimp only
  rw [runSolve_zeroVars _ _ hs]

theorem Stale.zeroVars {Bw : KktSolver α → KktSolver α → Prop} {S S' : SolverSt α} (h : Stale Bw S S') :
    Stale Bw S.zeroVars S'.zeroVars := by
  obtain ⟨e1, e2, e3⟩ := Solver.zeroXSZ_congr h.«variables».x h.«variables».s.1 h.«variables».z.1
  exact ⟨h.data, ⟨congrArg Array.size e1, SameFrom.of_eq e2, SameFrom.of_eq e3⟩, h.residuals, h.kktsystem,
    h.cones, h.stepLhs, h.stepRhs, h.prevVars⟩

/-- **`solve()` on two `Stale`-related solver objects, no condition on the initial point** (model with
nonsymmetric cones): both fail with the same error, or both succeed with the same observable result. -/
theorem solve_rel_any (hbeq : ((0 : α) == 0) = true) {k : Nat} {Bw : KktSolver α → KktSolver α → Prop}
    (st : Settings α) (hsim : KktSimN k st.lin Bw) {S S' : Solver α} (h : Stale Bw S.st S'.st)
    (hk : k ≤ nSpN S.st.cones)
    (hsol : SolShape ((Solver.presolveMap S.st.data).map (fun m => m.keep.size)) S.solution S'.solution) :
    RelM SolveObs (S.solve st) (S'.solve st) := by
  by_cases hs : isSymmetric S.st.cones = true
  · have hs' : isSymmetric S'.st.cones = true := by rw [← isSymmetric_shape h.cones]; exact hs
    rw [← solve_zeroVars S st hs, ← solve_zeroVars S' st hs']
    exact solve_rel hbeq st hsim (S := S.zeroVars) (S' := S'.zeroVars) h.zeroVars hk hsol
      (Or.inr (Solver.VarsXSZ.zeroXSZ h.«variables».shape))
  · exact solve_rel_nonsymmetric hbeq st hsim h hk (by simpa using hs) hsol

/-- **the second of two `solve()` calls on one solver object** gives the observable result of the
first: structural invariants only, no condition on the initial point -/
theorem solve_twice_obsN_any (hbeq : ((0 : α) == 0) = true) (st : Settings α) {KI : KktSolver α → Prop}
    {d : ProblemData α} {specs : List Kkt.ConeSpec} {S : Solver α} {r1 : SolveResult α}
    (h1 : S.solve st = .ok r1) (hI : SolverInv KI d specs S)
    (hI1 : SolverInv KI r1.S.st.data specs r1.S)
    (hk : KktOk S.st) :
    ∃ r2, r1.S.solve st = .ok r2 ∧ SolveObs r1 r2 := by
  obtain ⟨hst, hsol⟩ := stale_putBack h1 hI hI1 hk
  have hrel := solve_rel_any hbeq st (kktSimN _ st.lin) (S' := r1.S.withData S.st.data) hst hk.fit hsol
  rw [← solve_putBack h1 st] at hrel
  exact hrel.ok_left h1

end Clarabel.SolverNS
