/-
  Consequences of `KktTotal.assembleKktMatrix_run`, stated on the assembled matrix `K` and the
  index maps only (no counters, no schedule positions):

  * `AsmRun.shape`: order, `colptr` size, `colptr[0] = 0`, `colptr[c+1] = colptr[c] + #column c`,
    `nnz = colptr[N] = rowval.len() = nzval.len() = nnzKKT` (the allocation closed form);
  * `AsmRun.col_eq`: column `c` of `K` (as `Csc.col`) is the list of `(row, value)` of the
    scheduled entries of column `c`, in schedule order;
  * `AsmRun.slotIs`: a `SlotAt` (destination of a scheduled write) is a position of `K` that
    lies in the right column and holds the right row and value (`SlotIs`/`EntryAt`).
-/
import ClarabelModel.Kkt
import ClarabelProofs.Lemmas.KktTotal

set_option linter.unusedSectionVars false
set_option linter.unusedVariables false

namespace Clarabel.Lemmas.KktFinal
open Clarabel Clarabel.Csc Clarabel.Kkt Clarabel.Lemmas.KktPlace Clarabel.Lemmas.KktFillLink
open Clarabel.Lemmas.KktRun Clarabel.Lemmas.KktSlots Clarabel.Lemmas.KktFillMaps
open Clarabel.Lemmas.KktFillRun Clarabel.Lemmas.KktCount Clarabel.Lemmas.KktAssembly
open Clarabel.Lemmas.KktSorted Clarabel.Lemmas.KktSortedTril Clarabel.Lemmas.KktLength
open Clarabel.Lemmas.KktTotal

variable {α : Type} [OfNat α 0]

/-- position `d` of the value array of `K` is a stored entry of column `col`, in row `row`,
with value `v` -/
def EntryAt (K : Csc α) (d row col : Nat) (v : α) : Prop :=
  ∃ p q, K.colptr[col]? = some p ∧ K.colptr[col + 1]? = some q ∧ p ≤ d ∧ d < q ∧
    K.rowval[d]? = some row ∧ K.nzval[d]? = some v

/-- the index-map slot `o` holds a position of `K` that is the entry `(row, col)` with value `v` -/
def SlotIs (K : Csc α) (o : Option Nat) (row col : Nat) (v : α) : Prop :=
  ∃ d, o = some d ∧ EntryAt K d row col v

/-- the scheduled `(row, value)` pairs of column `c`, in schedule order -/
def colEntriesOf (sched : List (Entry α)) (c : Nat) : List (Nat × α) :=
  (sched.filter (fun e => e.readCol == c)).map (fun e => (e.row, e.val))

omit [OfNat α 0] in
theorem col_get (M : Csc α) (j t lo hi : Nat) (hlo : M.colptr[j]? = some lo)
    (hhi : M.colptr[j + 1]? = some hi) (hr : hi ≤ M.rowval.size) (hz : hi ≤ M.nzval.size) :
    (M.col j).length = hi - lo ∧
    ∀ r v, t < hi - lo → M.rowval[lo + t]? = some r → M.nzval[lo + t]? = some v →
      (M.col j)[t]? = some (r, v) := by
  have e1 : M.colptr.getD j 0 = lo := by simp [Array.getD_eq_getD_getElem?, hlo]
  have e2 : M.colptr.getD (j + 1) 0 = hi := by simp [Array.getD_eq_getD_getElem?, hhi]
  unfold Csc.col
  simp only [e1, e2]
  refine ⟨?_, ?_⟩
  · rw [List.length_zip, Array.length_toList, Array.length_toList, Array.size_extract,
      Array.size_extract]
    omega
  · intro r v ht hr' hv'
    rw [List.getElem?_zip_eq_some]
    refine ⟨?_, ?_⟩
    · rw [Array.getElem?_toList, Array.getElem?_extract, if_pos (by omega)]; exact hr'
    · rw [Array.getElem?_toList, Array.getElem?_extract, if_pos (by omega)]; exact hv'

/-- the matrix-level facts of a run: the final `K` in terms of the schedule -/
structure MatOut (A : Csc α) (cones : List ConeSpec) (K : Csc α) (sched : List (Entry α))
    (ptr0 : Array Nat) : Prop where
  m_eq : K.m = kktDim A cones
  n_eq : K.n = kktDim A cones
  colptr_size : K.colptr.size = kktDim A cones + 1
  rowval_size : K.rowval.size = sched.length
  nzval_size : K.nzval.size = sched.length
  colptr_zero : K.colptr[0]? = some 0
  ptr_eq : ∀ c, c ≤ kktDim A cones → ptr0[c]? = K.colptr[c]?
  colptr_succ : ∀ c, c < kktDim A cones → ∃ p, K.colptr[c]? = some p ∧
    K.colptr[c + 1]? = some (p + cnt c sched)
  colptr_le : ∀ c p, c ≤ kktDim A cones → K.colptr[c]? = some p → p ≤ sched.length
  colptr_last : K.colptr[kktDim A cones]? = some sched.length
  written : ∀ i e, sched[i]? = some e → ∃ d, destOf ptr0 sched i = some d ∧
    K.rowval[d]? = some e.row ∧ K.nzval[d]? = some e.val

theorem _root_.Clarabel.Lemmas.KktTotal.AsmRun.mat {P A : Csc α} {cones : List ConeSpec} {shape : MatrixTriangle} {K : Csc α}
    {map : LDLDataMap} {sched : List (Entry α)} {Kc : Csc α} {nd : Nat}
    (R : AsmRun P A cones shape K map sched Kc nd) :
    MatOut A cones K sched (colcountToColptr Kc).colptr := by
  obtain ⟨Kf, S, hback⟩ := R.fill.run
  have hsz0 : (colcountToColptr Kc).colptr.size = kktDim A cones + 1 := by
    rw [colcountToColptr_size, R.kc_size]
  have hszf : Kf.colptr.size = kktDim A cones + 1 := by rw [S.colptr_size, hsz0]
  rw [backshift_run Kf (by omega)] at hback
  cases pure_ok hback
  have hlen : Kc.colptr.toList.length = kktDim A cones + 1 := by simpa using R.kc_size
  have hptr0 : (colcountToColptr Kc).colptr = (exclusiveCumsum Kc.colptr.toList).toArray := rfl
  have hKc : ∀ c, c + 1 < kktDim A cones + 1 →
      (0 :: Kf.colptr.toList.dropLast).toArray[c + 1]?
        = ((colcountToColptr Kc).colptr[c]?).map (· + cnt c sched) := by
    intro c hc
    rw [List.getElem?_toArray, List.getElem?_cons_succ, List.getElem?_dropLast,
      if_pos (by simp only [Array.length_toList]; omega), Array.getElem?_toList]
    exact S.colptr_get c
  have h0 : (colcountToColptr Kc).colptr[0]? = some 0 := by
    rw [hptr0, exclusiveCumsum_eq]
    simp only [List.getElem?_toArray, List.getElem?_map]
    rw [List.getElem?_range (by omega)]
    simp
  have hptrAll : ∀ c, c ≤ kktDim A cones →
      (colcountToColptr Kc).colptr[c]? = (0 :: Kf.colptr.toList.dropLast).toArray[c]? := by
    intro c hcN
    cases c with
    | zero => rw [h0]; simp
    | succ c' =>
      have hxc' : Kc.colptr.toList[c']? = some (cnt c' sched) := by
        rw [Array.getElem?_toList]; exact R.kc_get c' (by omega)
      have hcs' := cumsum_succ Kc.colptr.toList c' _ hxc'
      rw [if_pos (by omega)] at hcs'
      rw [hKc c' (by omega), hptr0]
      simp only [List.getElem?_toArray]
      rw [hcs']
  have hsucc : ∀ c, c < kktDim A cones → ∃ p,
      (0 :: Kf.colptr.toList.dropLast).toArray[c]? = some p ∧
      (0 :: Kf.colptr.toList.dropLast).toArray[c + 1]? = some (p + cnt c sched) := by
    intro c hc
    have hp : ∃ p, (colcountToColptr Kc).colptr[c]? = some p := by
      rw [hptr0, exclusiveCumsum_eq]
      simp only [List.getElem?_toArray, List.getElem?_map]
      rw [List.getElem?_range (by omega)]
      exact ⟨_, rfl⟩
    obtain ⟨p, hp⟩ := hp
    refine ⟨p, by rw [← hptrAll c (by omega)]; exact hp, ?_⟩
    rw [hKc c (by omega), hp]; rfl
  -- every pointer is a prefix sum of the counts, hence `≤` the total
  have hle : ∀ c p, c ≤ kktDim A cones → (colcountToColptr Kc).colptr[c]? = some p →
      p ≤ sched.length := by
    intro c p hc hp
    rw [hptr0, exclusiveCumsum_eq] at hp
    simp only [List.getElem?_toArray, List.getElem?_map] at hp
    rw [List.getElem?_range (by omega)] at hp
    simp only [Option.map_some, Option.some.injEq] at hp
    have hsum := kktAssembleColcounts_nnz
    have : (Kc.colptr.toList.take c).sum ≤ Kc.colptr.toList.sum := by
      conv => rhs; rw [← List.take_append_drop c Kc.colptr.toList, List.sum_append]
      omega
    have htot : Kc.colptr.toList.sum = sched.length := by
      have : Kc.colptr.toList.sum = ((List.range (kktDim A cones + 1)).map (fun c => cnt c sched)).sum := by
        congr 1
        apply List.ext_getElem?
        intro i
        by_cases hi : i < kktDim A cones + 1
        · rw [Array.getElem?_toList, R.kc_get i hi]; simp [hi]
        · have : Kc.colptr.size ≤ i := by rw [R.kc_size]; omega
          simp [hi, this]
      rw [this, sum_cnt_range, List.countP_eq_length]
      intro e he
      have := (R.cols e he).1
      simp only [decide_eq_true_eq]
      omega
    omega
  have hlast : (0 :: Kf.colptr.toList.dropLast).toArray[kktDim A cones]? = some sched.length := by
    rw [← hptrAll _ (Nat.le_refl _), hptr0, exclusiveCumsum_eq]
    simp only [List.getElem?_toArray, List.getElem?_map]
    rw [List.getElem?_range (by omega)]
    simp only [Option.map_some, Option.some.injEq]
    -- the sum of the first `N` counts is the total: the last counter is `cnt N sched = 0`
    have hN : Kc.colptr.toList[kktDim A cones]? = some (cnt (kktDim A cones) sched) := by
      rw [Array.getElem?_toList]; exact R.kc_get _ (by omega)
    have hz : cnt (kktDim A cones) sched = 0 := by
      unfold cnt
      rw [List.countP_eq_zero]
      intro e he
      have := (R.cols e he).1
      simp only [beq_iff_eq]
      omega
    have h2 := sum_take_succ_le Kc.colptr.toList (kktDim A cones) (kktDim A cones + 1) _ (by omega) hN
    rw [← hlen, List.take_length] at h2
    have h3 := hle (kktDim A cones) _ (Nat.le_refl _) (by
      rw [hptr0, exclusiveCumsum_eq]
      simp only [List.getElem?_toArray, List.getElem?_map]
      rw [List.getElem?_range (by omega)]
      rfl)
    have htot : Kc.colptr.toList.sum = sched.length := by
      have : Kc.colptr.toList.sum = ((List.range (kktDim A cones + 1)).map (fun c => cnt c sched)).sum := by
        congr 1
        apply List.ext_getElem?
        intro i
        by_cases hi : i < kktDim A cones + 1
        · rw [Array.getElem?_toList, R.kc_get i hi]; simp [hi]
        · have : Kc.colptr.size ≤ i := by rw [R.kc_size]; omega
          simp [hi, this]
      rw [this, sum_cnt_range, List.countP_eq_length]
      intro e he
      have := (R.cols e he).1
      simp only [decide_eq_true_eq]
      omega
    have hts : (Kc.colptr.toList.take (kktDim A cones + 1)).sum
        = (Kc.colptr.toList.take (kktDim A cones)).sum + cnt (kktDim A cones) sched := by
      rw [List.take_add_one, List.sum_append, hN]; simp
    rw [← hlen, List.take_length] at hts
    omega
  refine ⟨?_, ?_, ?_, ?_, ?_, by simp, hptrAll, hsucc, ?_, hlast, S.written⟩
  · show Kf.m = _; rw [S.m_eq]; exact R.kc_m
  · show Kf.n = _; rw [S.n_eq]; exact R.kc_n
  · simp [hszf]
  · show Kf.rowval.size = _; rw [S.rowval_size]; exact R.kc_rowval
  · show Kf.nzval.size = _; rw [S.nzval_size]; exact R.kc_nzval
  · intro c p hc hp
    exact hle c p hc (by rw [hptrAll c hc]; exact hp)


/-- a destination of a scheduled write is a position of `K` in the right column holding the
right row and value -/
theorem MatOut.slotIs {A : Csc α} {cones : List ConeSpec} {K : Csc α} {sched : List (Entry α)}
    {ptr0 : Array Nat} (M : MatOut A cones K sched ptr0)
    (hcols : ∀ e ∈ sched, e.readCol < kktDim A cones)
    {o : Option Nat} {col row : Nat} {v : α} (h : SlotAt ptr0 sched o col row v) :
    SlotIs K o row col v := by
  obtain ⟨g, e, hg, rfl, rfl, rfl, rfl⟩ := h
  obtain ⟨d, hd, hr, hv⟩ := M.written g e hg
  have hc := hcols e (List.mem_of_getElem? hg)
  obtain ⟨p, hp, hp1⟩ := M.colptr_succ e.readCol hc
  have hlt := cnt_take_lt sched g e hg
  have hd' := hd
  unfold destOf at hd'
  rw [hg] at hd'
  simp only [Option.bind_some] at hd'
  rw [M.ptr_eq e.readCol (by omega), hp] at hd'
  simp only [Option.map_some, Option.some.injEq] at hd'
  exact ⟨d, hd, p, _, hp, hp1, by omega, by omega, hr, hv⟩

/-- **column `c` of the assembled matrix is the list of scheduled entries of column `c`** -/
theorem MatOut.col_eq {A : Csc α} {cones : List ConeSpec} {K : Csc α} {sched : List (Entry α)}
    {ptr0 : Array Nat} (M : MatOut A cones K sched ptr0) (c : Nat) (hc : c < kktDim A cones) :
    K.col c = colEntriesOf sched c := by
  obtain ⟨p, hp, hp1⟩ := M.colptr_succ c hc
  have hq := M.colptr_le (c + 1) _ (by omega) hp1
  have hlenS : (colEntriesOf sched c).length = cnt c sched := by
    unfold colEntriesOf cnt
    rw [List.length_map, List.countP_eq_length_filter]
  apply List.ext_getElem?
  intro t
  obtain ⟨hlenK, hget⟩ := col_get K c t p (p + cnt c sched) hp hp1
    (by rw [M.rowval_size]; exact hq) (by rw [M.nzval_size]; exact hq)
  by_cases ht : t < cnt c sched
  · have hfl : t < (sched.filter (fun e => e.readCol == c)).length := by
      rw [← List.countP_eq_length_filter]; exact ht
    have hL : (sched.filter (fun e => e.readCol == c))[t]?
        = some (sched.filter (fun e => e.readCol == c))[t] := List.getElem?_eq_getElem hfl
    generalize (sched.filter (fun e => e.readCol == c))[t] = E at hL
    obtain ⟨i, hi, hpe, hcnt⟩ := filter_get_index _ sched t _ hL
    obtain ⟨d, hd, hr, hv⟩ := M.written i _ hi
    have hcol : E.readCol = c := by simpa using hpe
    unfold destOf at hd
    rw [hi] at hd
    simp only [Option.bind_some, hcol] at hd
    rw [M.ptr_eq c (by omega), hp] at hd
    simp only [Option.map_some, Option.some.injEq] at hd
    have hcnt' : cnt c (sched.take i) = t := hcnt
    rw [hcnt'] at hd
    rw [hget _ _ (by omega) (by rw [hd]; exact hr) (by rw [hd]; exact hv)]
    unfold colEntriesOf
    rw [List.getElem?_map, hL]
    rfl
  · rw [List.getElem?_eq_none (by omega), List.getElem?_eq_none (by omega)]

omit [OfNat α 0] in
theorem colEntriesOf_rows (sched : List (Entry α)) (c : Nat) :
    (colEntriesOf sched c).map (·.1) = colRowsOf sched c := by
  unfold colEntriesOf colRowsOf
  rw [List.map_map]
  rfl

omit [OfNat α 0] in
theorem col_rows (M : Csc α) (j : Nat) (h : M.rowval.size = M.nzval.size) :
    (M.col j).map (·.1) = M.colRows j := by
  unfold Csc.col Csc.colRows
  simp only []
  rw [List.map_fst_zip]
  rw [Array.length_toList, Array.length_toList, Array.size_extract, Array.size_extract, h]
  exact Nat.le_refl _

/-- the stored rows of column `c` of `K` are the scheduled rows of column `c` -/
theorem MatOut.colRows_eq {A : Csc α} {cones : List ConeSpec} {K : Csc α} {sched : List (Entry α)}
    {ptr0 : Array Nat} (M : MatOut A cones K sched ptr0) (c : Nat) (hc : c < kktDim A cones) :
    K.colRows c = colRowsOf sched c := by
  rw [← col_rows K c (by rw [M.rowval_size, M.nzval_size]), M.col_eq c hc, colEntriesOf_rows]

end Clarabel.Lemmas.KktFinal
