/-
  Helper lemmas about `Backtrack.loop` (structural: valid for every scalar type,
  including `Float`) and about the composite minimum.
-/
import ClarabelModel.Cones.Composite
import ClarabelProofs.Lemmas.ScalarInst

namespace Clarabel.Backtrack

variable {α : Type} [Add α] [Mul α] [OfNat α 0] [OfNat α 1] [LT α] [DecidableLT α]

/-- the `n`-th candidate after `a`: `a·step·…·step` (`n` factors, multiplied one by one as
the Rust loop does) -/
def iter (step : α) : α → Nat → α
  | a, 0 => a
  | a, n + 1 => iter step (a * step) n

/-- Specification of a finished search that started in state `(k, a)`. -/
def Spec (q dq : Array α) (amin step : α) (P : Nat → Array α → Bool) (k : Nat) (a : α)
    (r : α × Nat) : Prop :=
  ∃ n, r.2 = k + n ∧
    (∀ j, j < n → P (k + j) (candidate q dq (iter step a j)) = false ∧
        ¬ (iter step a (j + 1) < amin)) ∧
    ((r.1 = iter step a n ∧ P (k + n) (candidate q dq (iter step a n)) = true) ∨
     (r.1 = 0 ∧ P (k + n) (candidate q dq (iter step a n)) = false ∧ iter step a (n + 1) < amin))

theorem loop_spec (q dq : Array α) (amin step : α) (P : Nat → Array α → Bool) :
    ∀ (fuel k : Nat) (a : α) (r : α × Nat),
      loop q dq amin step P fuel k a = .ok r → Spec q dq amin step P k a r := by
  intro fuel
  induction fuel with
  | zero => intro k a r h; simp [loop] at h
  | succ f ih =>
    intro k a r h
    rw [loop] at h
    by_cases hP : P k (candidate q dq a) = true
    · rw [if_pos hP] at h
      cases h
      exact ⟨0, rfl, fun j hj => absurd hj (Nat.not_lt_zero _), Or.inl ⟨rfl, hP⟩⟩
    · rw [if_neg hP] at h
      have hPf : P k (candidate q dq a) = false := by simpa using hP
      by_cases hlt : a * step < amin
      · simp only [hlt, ↓reduceIte] at h
        cases h
        exact ⟨0, rfl, fun j hj => absurd hj (Nat.not_lt_zero _), Or.inr ⟨rfl, hPf, hlt⟩⟩
      · simp only [hlt, ↓reduceIte] at h
        obtain ⟨n, hn, hrej, hfin⟩ := ih (k + 1) (a * step) r h
        refine ⟨n + 1, by omega, ?_, ?_⟩
        · intro j hj
          cases j with
          | zero => exact ⟨hPf, hlt⟩
          | succ j =>
            have := hrej j (by omega)
            have e : k + 1 + j = k + (j + 1) := by omega
            rw [e] at this
            exact this
        · have e : k + 1 + n = k + (n + 1) := by omega
          rw [e] at hfin
          exact hfin

/-- if some candidate falls below `α_min`, that many units of fuel suffice -/
theorem loop_terminates (q dq : Array α) (amin step : α) (P : Nat → Array α → Bool) :
    ∀ (N : Nat) (fuel k : Nat) (a : α), iter step a (N + 1) < amin → N + 1 ≤ fuel →
      ∃ r, loop q dq amin step P fuel k a = .ok r := by
  intro N
  induction N with
  | zero =>
    intro fuel k a h hf
    cases fuel with
    | zero => omega
    | succ f =>
      rw [loop]
      by_cases hP : P k (candidate q dq a) = true
      · exact ⟨_, by rw [if_pos hP]; rfl⟩
      · rw [if_neg hP]
        have : a * step < amin := h
        exact ⟨_, by simp only [this, ↓reduceIte]; rfl⟩
  | succ N ih =>
    intro fuel k a h hf
    cases fuel with
    | zero => omega
    | succ f =>
      rw [loop]
      by_cases hP : P k (candidate q dq a) = true
      · exact ⟨_, by rw [if_pos hP]; rfl⟩
      · rw [if_neg hP]
        by_cases hlt : a * step < amin
        · exact ⟨_, by simp only [hlt, ↓reduceIte]; rfl⟩
        · simp only [hlt, ↓reduceIte]
          exact ih f (k + 1) (a * step) h (by omega)

end Clarabel.Backtrack

namespace Clarabel.Backtrack

theorem iter_eq_pow (step a : ℝ) (n : Nat) : iter step a n = a * step ^ n := by
  induction n generalizing a with
  | zero => simp [iter]
  | succ n ih => rw [iter, ih]; ring

end Clarabel.Backtrack

namespace Clarabel.Composite

variable {α : Type} [Field α] [LinearOrder α] [IsStrictOrderedRing α] [FloatLike α]
  [LawfulFloatLike α]

/-- the closed form of one pass of the closure `innerfcn` when every cone's step length
is a cap `min(αin, ·)` -/
def innerMin (caps : ConeFn α → α × α) (cones : List (ConeFn α)) (symcond : Bool) (a : α) : α :=
  cones.foldl (fun a c => if c.symmetric == symcond then a
    else min a (min (min a (caps c).1) (min a (caps c).2))) a

omit [IsStrictOrderedRing α] in
theorem inner_eq (caps : ConeFn α → α × α) (cones : List (ConeFn α)) (symcond : Bool)
    (h : ∀ c ∈ cones, ∀ a, c.stepLength a = .ok (min a (caps c).1, min a (caps c).2)) (a : α) :
    inner cones symcond a = .ok (innerMin caps cones symcond a) := by
  induction cones generalizing a with
  | nil => rfl
  | cons c t ih =>
    have ht : ∀ c ∈ t, ∀ a, c.stepLength a = .ok (min a (caps c).1, min a (caps c).2) :=
      fun c hc => h c (List.mem_cons_of_mem _ hc)
    simp only [inner, List.foldlM_cons, innerMin, List.foldl_cons, LawfulFloatLike.fmin_eq] at ih ⊢
    by_cases hs : (c.symmetric == symcond) = true
    · simp only [hs, ↓reduceIte]
      exact ih ht a
    · simp only [hs, Bool.false_eq_true, ↓reduceIte, h c List.mem_cons_self a]
      exact ih ht _

omit [IsStrictOrderedRing α] in
theorem innerMin_le (caps : ConeFn α → α × α) (cones : List (ConeFn α)) (symcond : Bool) (a : α) :
    innerMin caps cones symcond a ≤ a := by
  induction cones generalizing a with
  | nil => exact le_refl _
  | cons c t ih =>
    simp only [innerMin, List.foldl_cons] at ih ⊢
    refine le_trans (ih _) ?_
    split
    · exact le_refl _
    · exact min_le_left _ _

omit [IsStrictOrderedRing α] in
theorem innerMin_le_cap (caps : ConeFn α → α × α) (cones : List (ConeFn α)) (symcond : Bool) (a : α)
    (c : ConeFn α) (hc : c ∈ cones) (hs : (c.symmetric == symcond) = false) :
    innerMin caps cones symcond a ≤ (caps c).1 ∧ innerMin caps cones symcond a ≤ (caps c).2 := by
  induction cones generalizing a with
  | nil => cases hc
  | cons d t ih =>
    rcases List.mem_cons.mp hc with rfl | hm
    · have := innerMin_le caps t symcond
        (if c.symmetric == symcond then a else min a (min (min a (caps c).1) (min a (caps c).2)))
      simp only [innerMin, List.foldl_cons] at this ⊢
      rw [hs] at this ⊢
      simp only [Bool.false_eq_true, ↓reduceIte] at this ⊢
      constructor
      · exact le_trans this (le_trans (min_le_right _ _) (le_trans (min_le_left _ _) (min_le_right _ _)))
      · exact le_trans this (le_trans (min_le_right _ _) (le_trans (min_le_right _ _) (min_le_right _ _)))
    · simp only [innerMin, List.foldl_cons]
      exact ih _ hm

end Clarabel.Composite
