/-
  Round 4 (composition) — the trajectory induction on the whole-solver model
  (`ClarabelModel/Solver/Solve.lean`), against the interface of `Lemmas/SolverFullDefs.lean`.

  * `ConesShape.layout_eq`   : the cone layout (`layout`) is constant along `SameShape`.
  * `solve_traj_inv`         : a predicate `G` on the iterate that `default_start()` establishes
                               (`InitHyp`) and an accepted step preserves (`StepHyp`) holds of EVERY
                               recorded iterate of a `solve()`, and every record is `SRec` (written
                               from a sized state on the solver's data); sizes, data and layout of
                               the returned solver object are those of the one `solve()` started from.
  * `solve_solution_vectors` : without dropped rows the solution vectors are the returned
                               (un-scaled) variables.
  * `solve_full_verdict`     : a verdict `Solved` / `PrimalInfeasible` / `DualInfeasible` is decided
                               by `check_convergence_full` of the LAST pass, on the iterate that is
                               returned (no rollback, no `post_process` downgrade involved).

  All structural ([S]): every scalar type, `Float` included.
-/
import ClarabelProofs.Lemmas.SolverFullDefs
import ClarabelProofs.Lemmas.SolverReport

namespace Clarabel.Solver
open Clarabel Info Residuals Clarabel.InfoReport

set_option linter.unusedSectionVars false
set_option linter.unusedVariables false

variable {α : Type}

/-! ### A1: the layout is a function of the shape -/

theorem ConeShape.compSpec_eq {c c' : ConeSt α} (h : ConeShape c c') : c.compSpec = c'.compSpec := by
  cases c <;> cases c' <;> try exact h.elim
  · exact congrArg Composite.Spec.zero h
  · exact congrArg Composite.Spec.nonneg h.1
  · exact congrArg Composite.Spec.soc h.1

/-- [S] cone objects of the same shape have the same layout (kinds and dimensions) -/
theorem ConesShape.layout_eq {cs cs' : List (ConeSt α)} (h : ConesShape cs cs') :
    cs.map ConeSt.compSpec = cs'.map ConeSt.compSpec := by
  induction h with
  | nil => rfl
  | cons h _ ih => simp only [List.map_cons, ih, h.compSpec_eq]

/-- the decision table of `check_termination`: a full-tolerance verdict is the verdict of
`check_convergence_full` -/
theorem cti_full {s1 X : SolverStatus} {g r p1 p23 mx tm : Bool}
    (hX : X = .solved ∨ X = .primalInfeasible ∨ X = .dualInfeasible)
    (h : cti s1 g r p1 p23 mx tm = X) : s1 = X := by
  rcases hX with rfl | rfl | rfl <;>
    cases s1 <;> cases g <;> cases r <;> cases p1 <;> cases p23 <;> cases mx <;> cases tm <;>
      first | rfl | cases h

section
variable [Add α] [Sub α] [Mul α] [Div α] [Neg α] [OfNat α 0] [OfNat α 1] [OfNat α 2]
  [OfNat α 100] [OfNat α 1000] [LT α] [DecidableLT α] [LE α] [DecidableLE α] [BEq α] [FloatLike α]

theorem SameShape.layout_eq {S S' : SolverSt α} (h : SameShape S S') : layout S = layout S' :=
  ConesShape.layout_eq h.cones

/-! ### A2: the trajectory induction -/

/-- every pass (whatever its way out) appends ONE record: the iterate the pass started from and
what `topNumerics` assigned for it -/
theorem pass_rec {st : Settings α} {L L' : LoopSt α} {c : Bool} (hp : pass st L = .ok (c, L')) :
    ∃ (p : PassRec α) (res : Resid α) (mu : α), L'.traj = L.traj ++ [p] ∧ p.vars = L.S.variables
      ∧ topNumerics L.S L.iter = .ok (res, mu, p.info) ∧ p.dotBz = res.dot_bz ∧ p.dotQx = res.dot_qx := by
  cases pass_inv hp with
  | done residuals mu info1 htop hdone hip => exact ⟨_, residuals, mu, rfl, rfl, htop, rfl, rfl⟩
  | rollback residuals mu info1 vrs htop hdone hip hcopy =>
    exact ⟨_, residuals, mu, rfl, rfl, htop, rfl, rfl⟩
  | scaleFail residuals mu info1 scl htop hdone hsc hok => exact ⟨_, residuals, mu, rfl, rfl, htop, rfl, rfl⟩
  | kktFail residuals mu info1 scl k htop hdone hsc hok hk hkok =>
    exact ⟨_, residuals, mu, rfl, rfl, htop, rfl, rfl⟩
  | smallStep residuals mu info1 scl k a htop hdone hsc hok hk hkok ha hsmall =>
    exact ⟨_, residuals, mu, rfl, rfl, htop, rfl, rfl⟩
  | step residuals mu info1 scl k a pv htop hdone hsc hok hk hkok ha hsmall hpv =>
    exact ⟨_, residuals, mu, rfl, rfl, htop, rfl, rfl⟩

/-- the loop invariant of the trajectory induction -/
structure TInv (G : List Composite.Spec → Vars α → Prop) (l : List Composite.Spec) (d : ProblemData α)
    (L : LoopSt α) : Prop where
  sized : SizedSt L.S
  data : L.S.data = d
  lay : layout L.S = l
  g : G l L.S.variables
  recs : ∀ p ∈ L.traj, G l p.vars ∧ SRec d p

/-- the record part of the invariant after one more pass -/
theorem TInv.recs_pass {st : Settings α} {G : List Composite.Spec → Vars α → Prop} {l : List Composite.Spec}
    {d : ProblemData α} {L L' : LoopSt α} {c : Bool} (hT : TInv G l d L) (hp : pass st L = .ok (c, L')) :
    ∀ p ∈ L'.traj, G l p.vars ∧ SRec d p := by
  obtain ⟨p0, res, mu, ht, hv, htop, hbz, hqx⟩ := pass_rec hp
  intro p hpm
  rw [ht] at hpm
  rcases mem_concat_cases hpm with hpm | hpm
  · exact hT.recs p hpm
  · rw [hpm]
    refine ⟨?_, L.S, L.iter, res, mu, hT.data, hv.symm, hT.sized, htop, hbz, hqx⟩
    rw [hv]; exact hT.g

/-- sizes, data and layout after one more pass -/
theorem TInv.frame_pass {st : Settings α} {G : List Composite.Spec → Vars α → Prop} {l : List Composite.Spec}
    {d : ProblemData α} {L L' : LoopSt α} {c : Bool} (hT : TInv G l d L) (hp : pass st L = .ok (c, L')) :
    SizedSt L'.S ∧ L'.S.data = d ∧ layout L'.S = l := by
  obtain ⟨h1, h2⟩ := pass_sameShape hT.sized.conesOk hp
  exact ⟨hT.sized.of_sameShape h1 h2, by rw [pass_data hp]; exact hT.data, by rw [← h1.layout_eq]; exact hT.lay⟩

theorem pass_cont_tinv {st : Settings α} {G : List Composite.Spec → Vars α → Prop} (hG : StepHyp st G)
    {l : List Composite.Spec} {d : ProblemData α} {L L' : LoopSt α} (hT : TInv G l d L)
    (hp : pass st L = .ok (true, L')) : TInv G l d L' := by
  obtain ⟨f1, f2, f3⟩ := hT.frame_pass hp
  refine ⟨f1, f2, f3, ?_, hT.recs_pass hp⟩
  have hok := hT.sized.conesOk
  cases pass_inv hp with
  | step residuals mu info1 sc k a pv htop hdone hsc hok' hk hkok ha hsmall hpv =>
    obtain ⟨hcs, hco⟩ := updateScaling_shape hok hsc
    obtain ⟨hkS, -⟩ := kktNumerics_frame hk
    obtain ⟨k1, k2⟩ := kktStage_shape hok htop hsc hk
    have hS1 : SameShape L.S { (topS L residuals mu
        (Info.checkTermination info1 residuals.dot_bz residuals.dot_qx st.info L.iter false)) with cones := sc.2 } :=
      SameShape.build rfl (VarsShape.rfl' _) (topNumerics_shape htop) (KShape.rfl' _) hcs
        (VarsShape.rfl' _) (VarsShape.rfl' _) (VarsShape.rfl' _)
    have hl1 := hS1.layout_eq
    unfold stepVars at hpv
    obtain ⟨pvars, hc, hpv⟩ := bind_ok_inv hpv
    obtain ⟨nv, hadd, hpv⟩ := bind_ok_inv hpv
    cases hpv
    have e6 : k.S.variables = L.S.variables := by rw [hkS]; rfl
    have e7 : k.S.cones = sc.2 := by rw [hkS]
    have := hG { (topS L residuals mu
        (Info.checkTermination info1 residuals.dot_bz residuals.dot_qx st.info L.iter false)) with cones := sc.2 }
      mu (L.iter + 1) k a nv (hT.sized.of_sameShape hS1 hco)
      (by rw [← hl1, hT.lay]; exact hT.g) hk hkok (hT.sized.of_sameShape k1 k2) e6 e7 ha hsmall hadd
    rw [← hl1, hT.lay] at this
    exact this

theorem Reach.tinv {st : Settings α} {G : List Composite.Spec → Vars α → Prop} (hG : StepHyp st G)
    {l : List Composite.Spec} {d : ProblemData α} {L L' : LoopSt α} (h : Reach st L L')
    (hT : TInv G l d L) : TInv G l d L' := by
  induction h with
  | refl => exact hT
  | step hp _ ih => exact ih (pass_cont_tinv hG hT hp)

/-- `runSolve` = `info.reset`, `default_start()`, continuing passes, one breaking pass -/
theorem runSolve_reach {S : SolverSt α} {st : Settings α} {L : LoopSt α} (h : S.runSolve st = .ok L) :
    ∃ S0 Lm, (resetInfo S).defaultStart st = .ok S0 ∧ Reach st (initLoopSt S0) Lm
      ∧ pass st Lm = .ok (false, L) := by
  rw [runSolve_eq_runSolveO] at h
  obtain ⟨o, ho, hl⟩ := bind_ok_inv h
  unfold SolverSt.runSolveO at ho
  obtain ⟨S0, hds, ho⟩ := bind_ok_inv ho
  have hI := initLoopSt_inv hds
  have hspec := runLoopO_spec st (st.info.max_iter + 2) (initLoopSt S0) hI
    (by show st.info.max_iter - 0 < st.info.max_iter + 2; omega)
  rw [ho] at hspec
  cases o with
  | none => exact hspec.elim
  | some Lf =>
    cases hl
    obtain ⟨_, Lm, hr, hpm⟩ := hspec
    exact ⟨S0, Lm, hds, hr, hpm⟩

/-- [S] **the trajectory induction**: every recorded iterate of a `solve()` satisfies `G` and is
`SRec`; the returned solver object is sized, on the same data with the two norm caches filled
(`fillNorms`), with the same cone layout -/
theorem solve_traj_inv {st : Settings α} {G : List Composite.Spec → Vars α → Prop}
    (hG : StepHyp st G) (hI : InitHyp st G) {S : Solver α} {r : SolveResult α}
    (hS : SizedSt S.st) (hr : S.solve st = .ok r) :
    (∀ p ∈ r.traj, G (layout S.st) p.vars ∧ SRec S.st.data p)
      ∧ SizedSt r.S.st ∧ fillNorms S.st.data = .ok r.S.st.data ∧ layout r.S.st = layout S.st := by
  obtain ⟨hsh, hco, -⟩ := solve_frame hr hS.conesOk
  have hsz : SizedSt r.S.st := by
    have h0 := hS.of_sameShape hsh hco
    obtain ⟨nq, nb, _, _, e⟩ := solve_data_eq hr
    have en : r.S.st.data.n = S.st.data.n := by rw [e]
    have em : r.S.st.data.m = S.st.data.m := by rw [e]
    exact ⟨by rw [en, em]; exact h0.vars, by rw [en, em]; exact h0.resid, by rw [en, em]; exact h0.stepLhs,
      by rw [en, em]; exact h0.stepRhs, by rw [en, em]; exact h0.prevVars, by rw [em]; exact h0.numel,
      h0.conesOk⟩
  refine ⟨?_, hsz, solve_data hr, hsh.layout_eq.symm⟩
  unfold Solver.solve at hr
  obtain ⟨L, hL, hr⟩ := bind_ok_inv hr
  obtain ⟨q, hq, hr⟩ := bind_ok_inv hr
  obtain ⟨dN, hdN, hr⟩ := bind_ok_inv hr
  cases hr
  show ∀ p ∈ L.traj, _
  obtain ⟨S0, Lm, hds, hreach, hpm⟩ := runSolve_reach hL
  have hR : SizedSt (resetInfo S.st) := hS.of_sameShape (SameShape.setInfo S.st _) hS.conesOk
  obtain ⟨d1, d2⟩ := defaultStart_sameShape (S := resetInfo S.st) hS.conesOk hds
  have hT0 : TInv G (layout S.st) S.st.data (initLoopSt S0) := by
    have hl0 : layout S0 = layout S.st := d1.layout_eq.symm
    refine ⟨hR.of_sameShape d1 d2, d1.data.symm, hl0, ?_, fun p hp => by cases hp⟩
    rw [← hl0]
    exact hI (resetInfo S.st) S0 hR hds
  exact (hreach.tinv hG hT0).recs_pass hpm

/-! ### A3: the solution vectors when no rows were dropped -/

/-- [S] without a presolver row map, `solution.x/s/z` are the returned (un-scaled) variables -/
theorem solve_solution_vectors {S : Solver α} {st : Settings α} {r : SolveResult α}
    (hr : S.solve st = .ok r) (hp : presolveMap S.st.data = none) :
    r.S.solution.x = r.S.st.variables.x ∧ r.S.solution.s = r.S.st.variables.s
      ∧ r.S.solution.z = r.S.st.variables.z := by
  unfold Solver.solve at hr
  obtain ⟨L, hL, hr⟩ := bind_ok_inv hr
  obtain ⟨q, hq, hr⟩ := bind_ok_inv hr
  obtain ⟨dN, hdN, hr⟩ := bind_ok_inv hr
  cases hr
  unfold finish at hq
  obtain ⟨u, hu, hq⟩ := bind_ok_inv hq
  cases hq
  obtain ⟨-, hdat⟩ := runSolve_pexit hL
  obtain ⟨-, -, -, -, -, g6, -⟩ := finishInfo_frame st L
  have hpm : presolveMap (finishInfo st L).data = none := by rw [g6, hdat]; exact hp
  rw [hpm] at hu
  have hv := postProcess_vars _ _ _ _ _ _ hu
  obtain ⟨a1, a2, a3, -⟩ := postProcess_none _ _ _ _ _ hu
  show u.1.x = u.2.x ∧ u.1.s = u.2.s ∧ u.1.z = u.2.z
  rw [hv]
  exact ⟨a1, a2, a3⟩

/-! ### A4: a full-tolerance verdict -/

/-- `Info::post_process` never produces a full-tolerance verdict: it finds it -/
theorem postProcess_status_full {i : InfoS α} {bz qx : α} {s : Info.Settings α} {X : SolverStatus}
    (hX : X = .solved ∨ X = .primalInfeasible ∨ X = .dualInfeasible)
    (h : (Info.postProcess i bz qx s).status = X) : i.status = X := by
  unfold Info.postProcess at h
  split at h
  · unfold Info.checkConvergenceAlmost at h
    rcases checkConvergence_status_cases i bz qx s.reduced .almostSolved .almostPrimalInfeasible
      .almostDualInfeasible with h' | h' | h' | h' <;> rw [h'] at h
    · subst h; rcases hX with h | h | h <;> cases h
    · subst h; rcases hX with h | h | h <;> cases h
    · subst h; rcases hX with h | h | h <;> cases h
    · exact h
  · exact h

/-- a full-tolerance verdict of `check_termination` is the verdict of `check_convergence_full` -/
theorem checkTermination_status_full {i : InfoS α} {bz qx : α} {s : Info.Settings α} {iter : Nat} {tov : Bool}
    {X : SolverStatus} (hX : X = .solved ∨ X = .primalInfeasible ∨ X = .dualInfeasible)
    (h : (Info.checkTermination i bz qx s iter tov).1.status = X) :
    (Info.checkConvergenceFull i bz qx s).status = X := by
  rw [info_checkTermination_table] at h
  exact cti_full hX h

/-- the breaking pass, when the loop is left with a full-tolerance verdict: it is the `done` way
out, decided by `check_convergence_full` on the figures of the iterate the loop is left with -/
theorem pass_brk_full {st : Settings α} {L L' : LoopSt α} (hI : LInv st L)
    (hp : pass st L = .ok (false, L')) {X : SolverStatus}
    (hX : X = .solved ∨ X = .primalInfeasible ∨ X = .dualInfeasible) (h : L'.S.info.status = X) :
    ∃ l, L'.traj.getLast? = some l ∧ l.info.status = .unsolved
      ∧ (Info.checkConvergenceFull l.info l.dotBz l.dotQx st.info).status = X
      ∧ L'.S.variables = l.vars ∧ SameFigures L'.S.info l.info := by
  cases pass_inv hp with
  | done residuals mu info1 htop hdone hip =>
    obtain ⟨-, -, -, -, -, -, -, f8⟩ := topNumerics_frame htop
    refine ⟨_, List.getLast?_concat .., ?_, ?_, rfl, ?_⟩
    · show info1.status = .unsolved
      rw [f8]; exact hI.status
    · exact checkTermination_status_full hX h
    · exact sameFigures_ct info1 _ _ _ _
  | rollback residuals mu info1 vrs htop hdone hip hcopy =>
    have h' : (Info.checkTermination info1 residuals.dot_bz residuals.dot_qx st.info L.iter false).1.status = X := h
    rw [hip] at h'
    subst h'; rcases hX with h | h | h <;> cases h
  | scaleFail residuals mu info1 scl htop hdone hsc hok =>
    have h' : SolverStatus.numericalError = X := h
    subst h'; rcases hX with h | h | h <;> cases h
  | kktFail residuals mu info1 scl k htop hdone hsc hok hk hkok =>
    have h' : SolverStatus.numericalError = X := h
    subst h'; rcases hX with h | h | h <;> cases h
  | smallStep residuals mu info1 scl k a htop hdone hsc hok hk hkok ha hsmall =>
    have h' : SolverStatus.insufficientProgress = X := h
    subst h'; rcases hX with h | h | h <;> cases h

/-- [S] **a full-tolerance verdict** (`Solved`, `PrimalInfeasible`, `DualInfeasible`) is decided by
`check_convergence_full` in the LAST pass, on the figures `Info.update` assigned in that pass to the
iterate that is returned: no rollback, no downgrade by `post_process` -/
theorem solve_full_verdict {S : Solver α} {st : Settings α} {r : SolveResult α}
    (hr : S.solve st = .ok r) {X : SolverStatus}
    (hX : X = .solved ∨ X = .primalInfeasible ∨ X = .dualInfeasible)
    (h : r.S.solution.status = X) :
    ∃ l, r.traj.getLast? = some l ∧ l ∈ r.traj
      ∧ l.info.status = .unsolved
      ∧ (Info.checkConvergenceFull l.info l.dotBz l.dotQx st.info).status = X
      ∧ r.S.st.info.status = X
      ∧ InfoReport.SameFigures r.S.st.info l.info
      ∧ r.S.st.variables = Unscale.unscale l.vars (equilView S.st.data.equilibration) X.isInfeasible
      ∧ r.S.solution.obj_val = (if X.isInfeasible then none else some l.info.cost_primal)
      ∧ r.S.solution.obj_val_dual = (if X.isInfeasible then none else some l.info.cost_dual)
      ∧ r.S.solution.r_prim = some l.info.res_primal ∧ r.S.solution.r_dual = some l.info.res_dual := by
  unfold Solver.solve at hr
  obtain ⟨L, hL, hr⟩ := bind_ok_inv hr
  obtain ⟨q, hq, hr⟩ := bind_ok_inv hr
  obtain ⟨dN, hdN, hr⟩ := bind_ok_inv hr
  cases hr
  unfold finish at hq
  obtain ⟨u, hu, hq⟩ := bind_ok_inv hq
  cases hq
  obtain ⟨-, hdat⟩ := runSolve_pexit hL
  obtain ⟨S0, Lm, hds, hreach, hpm⟩ := runSolve_reach hL
  have hIm := hreach.inv (initLoopSt_inv hds)
  obtain ⟨g1, -, -, -, g5, g6, it, hit⟩ := finishInfo_frame st L
  obtain ⟨a1, a2, a3, a4, a5, -⟩ := postProcess_scalars _ _ _ _ _ _ hu
  have hu2 := postProcess_vars _ _ _ _ _ _ hu
  have hst : (finishInfo st L).info.status = X := by rw [← a5]; exact h
  have hLst : L.S.info.status = X := by
    rw [hit] at hst
    exact postProcess_status_full (i := { L.S.info with iterations := it }) hX hst
  obtain ⟨l, hl, hun, hcc, hv, hfig⟩ := pass_brk_full hIm hpm hX hLst
  have hfin : SameFigures (finishInfo st L).info l.info := g1.trans hfig
  refine ⟨l, hl, List.mem_of_getLast? hl, hun, hcc, hst, hfin, ?_, ?_, ?_, ?_, ?_⟩
  · show u.2 = _
    rw [hu2, g5, hv, g6, hdat, hst]
  · show u.1.obj_val = _
    rw [a1, hfin.cp, hst]
  · show u.1.obj_val_dual = _
    rw [a2, hfin.cd, hst]
  · show u.1.r_prim = _
    rw [a3, hfin.rp]
  · show u.1.r_dual = _
    rw [a4, hfin.rd]

end

end Clarabel.Solver
