/-
  C02 round 3 — the insufficient-progress ROLLBACK path, decided.

  In `solve()` the only way to reach `Info::post_process` with the variables rolled back
  (`reset_to_prev_iterate`) is: `check_termination` reports `InsufficientProgress`
  (`isdone`), `strategy_checkpoint_insufficient_progress` restores the previous iterate and
  answers `Fail`, the loop breaks.  (`small_step` / `numerical_error` failures break WITHOUT
  a rollback, and the `Update(Dual)` answer re-enters the loop, where `residuals.update` and
  `info.update` recompute everything from the restored iterate.)

  `check_termination` assigns `InsufficientProgress` only under `ktratio < ε·100` or
  `ktratio < 1`; `reset_to_prev_iterate` does not touch `ktratio`; and `check_convergence`
  looks at the infeasibility tests only when `ktratio > 1000 / tol_ktratio`.  Hence:

  * `rollback_never_infeasible`: if `1 ≤ (1 / reduced_tol_ktratio) · 1000` (every
    `reduced_tol_ktratio ≤ 1000`; the default is `1e-4`) the rollback path can NOT end
    `Almost{Primal,Dual}Infeasible`: it ends `AlmostSolved` — decided on the restored
    (`prev_*`) figures, which are the returned iterate's — or stays `InsufficientProgress`.
  * `rollback_counterexample`: with `reduced_tol_ktratio > 1000` the gate opens below 1 and
    the skeleton does return `AlmostPrimalInfeasible` for a restored iterate that FAILS the
    reduced test (the test was passed by the discarded iterate's stale `res_primal_inf`,
    `ktratio` and `dot_bz`).
-/
import ClarabelModel.Info
import ClarabelProofs.Lemmas.InfoConv
import ClarabelProofs.Lemmas.ScalarInst
import Mathlib.Tactic.NormNum
import Mathlib.Tactic.Linarith

set_option linter.unusedSectionVars false

namespace Clarabel.Info
open Clarabel

section field
variable {α : Type} [Field α] [LinearOrder α] [IsStrictOrderedRing α] [FloatLike α]

/-- the "poor progress" block of `check_termination` -/
def poorProgress (s : Settings α) (iter : Nat) (i : InfoS α) : InfoS α :=
  if i.status == .unsolved && decide (iter > 1)
      && (decide (i.res_dual > i.prev_res_dual) || decide (i.res_primal > i.prev_res_primal)) then
    let i :=
      if decide (i.ktratio < FloatLike.eps * 100)
          && (decide (i.prev_gap_abs < s.full.gap_abs) || decide (i.prev_gap_rel < s.full.gap_rel)) then
        { i with status := .insufficientProgress }
      else i
    if decide (i.ktratio < 1) then
      if (decide (i.res_dual > s.full.feas * 100) && decide (i.res_dual > i.prev_res_dual * 100))
          || (decide (i.res_primal > s.full.feas * 100) && decide (i.res_primal > i.prev_res_primal * 100)) then
        { i with status := .insufficientProgress }
      else i
    else i
  else i

/-- the "time or iteration limits" block of `check_termination` -/
def limits (s : Settings α) (timeOver : Bool) (i : InfoS α) : InfoS α :=
  if i.status == .unsolved then
    if s.max_iter == i.iterations then { i with status := .maxIterations }
    else if timeOver then { i with status := .maxTime }
    else i
  else i

theorem checkTermination_eq (i : InfoS α) (bz qx : α) (s : Settings α) (iter : Nat) (tov : Bool) :
    checkTermination i bz qx s iter tov
      = (limits s tov (poorProgress s iter (checkConvergenceFull i bz qx s)),
         (limits s tov (poorProgress s iter (checkConvergenceFull i bz qx s))).status != .unsolved) := rfl

theorem poorProgress_cases (s : Settings α) (iter : Nat) (i : InfoS α) :
    poorProgress s iter i = i
    ∨ (poorProgress s iter i = { i with status := .insufficientProgress }
        ∧ i.status = .unsolved ∧ (i.ktratio < FloatLike.eps * 100 ∨ i.ktratio < 1)) := by
  unfold poorProgress
  split
  · rename_i hc
    have hu : i.status = .unsolved := by
      simp only [Bool.and_eq_true, beq_iff_eq] at hc
      exact hc.1.1
    simp only
    by_cases h1 : (decide (i.ktratio < FloatLike.eps * 100)
          && (decide (i.prev_gap_abs < s.full.gap_abs) || decide (i.prev_gap_rel < s.full.gap_rel))) = true
    · have hk : i.ktratio < FloatLike.eps * 100 := by
        simp only [Bool.and_eq_true, decide_eq_true_eq] at h1; exact h1.1
      rw [if_pos h1]
      right
      refine ⟨?_, hu, Or.inl hk⟩
      simp only
      split
      · split <;> rfl
      · rfl
    · rw [if_neg h1]
      by_cases h2 : i.ktratio < 1
      · have d2 : decide (i.ktratio < 1) = true := by simpa using h2
        rw [if_pos d2]
        split
        · right; exact ⟨rfl, hu, Or.inr h2⟩
        · left; rfl
      · have d2 : ¬ (decide (i.ktratio < 1) = true) := by simpa using h2
        rw [if_neg d2]
        left; trivial
  · left; rfl

theorem limits_cases (s : Settings α) (tov : Bool) (i : InfoS α) :
    limits s tov i = i
    ∨ limits s tov i = { i with status := .maxIterations }
    ∨ limits s tov i = { i with status := .maxTime } := by
  unfold limits
  split
  · split
    · right; left; rfl
    · split
      · right; right; rfl
      · left; rfl
  · left; rfl

theorem checkConvergenceFull_status (i : InfoS α) (bz qx : α) (s : Settings α) :
    ∃ st, checkConvergenceFull i bz qx s = { i with status := st }
      ∧ (st = .solved ∨ st = .primalInfeasible ∨ st = .dualInfeasible ∨ st = i.status) := by
  unfold checkConvergenceFull
  rcases checkConvergence_cases i bz qx s.full .solved .primalInfeasible .dualInfeasible with h | h | h | h
  · exact ⟨_, h.1, Or.inl rfl⟩
  · exact ⟨_, h.1, Or.inr (Or.inl rfl)⟩
  · exact ⟨_, h.1, Or.inr (Or.inr (Or.inl rfl))⟩
  · exact ⟨i.status, by rw [h], Or.inr (Or.inr (Or.inr rfl))⟩

/-- `check_termination` never changes anything but the status -/
theorem checkTermination_fields (i : InfoS α) (bz qx : α) (s : Settings α) (iter : Nat) (tov : Bool) :
    ∃ st, (checkTermination i bz qx s iter tov).1 = { i with status := st } := by
  rw [checkTermination_eq]
  obtain ⟨st0, h0, -⟩ := checkConvergenceFull_status i bz qx s
  rw [h0]
  rcases poorProgress_cases s iter { i with status := st0 } with h1 | ⟨h1, -, -⟩ <;> rw [h1]
  · rcases limits_cases s tov { i with status := st0 } with h2 | h2 | h2 <;> rw [h2] <;> exact ⟨_, rfl⟩
  · rcases limits_cases s tov { i with status := SolverStatus.insufficientProgress } with h2 | h2 | h2 <;>
      rw [h2] <;> exact ⟨_, rfl⟩

/-- `check_termination` reports `InsufficientProgress` (from `Unsolved`) only for an iterate
with `ktratio < ε·100` or `ktratio < 1`. -/
theorem checkTermination_insufficient (i : InfoS α) (bz qx : α) (s : Settings α) (iter : Nat)
    (tov : Bool) (h0 : i.status = .unsolved)
    (h : (checkTermination i bz qx s iter tov).1.status = .insufficientProgress) :
    i.ktratio < FloatLike.eps * 100 ∨ i.ktratio < 1 := by
  rw [checkTermination_eq] at h
  obtain ⟨st0, hc, hst⟩ := checkConvergenceFull_status i bz qx s
  rw [hc] at h
  simp only at h
  have hst0 : st0 ≠ .insufficientProgress := by
    rcases hst with e | e | e | e <;> rw [e] <;> first | decide | (rw [h0]; decide)
  rcases poorProgress_cases s iter { i with status := st0 } with h1 | ⟨h1, -, hk⟩
  · rw [h1] at h
    rcases limits_cases s tov { i with status := st0 } with h2 | h2 | h2 <;> rw [h2] at h
    · exact absurd h hst0
    · cases h
    · cases h
  · exact hk

/-- **the rollback path never ends `Almost*Infeasible`** when the reduced κ/τ gate
`(1/reduced_tol_ktratio)·1000` is at least `1` (and `ε·100 ≤ 1`): the verdict of
`Info::post_process` on the restored info is `AlmostSolved` — in which case the reduced
optimality test holds on the RESTORED (`prev_*`) figures — or remains
`InsufficientProgress`. -/
theorem rollback_never_infeasible (i : InfoS α) (bz qx : α) (s : Settings α) (iter : Nat)
    (tov : Bool) (h0 : i.status = .unsolved)
    (hip : (checkTermination i bz qx s iter tov).1.status = .insufficientProgress)
    (heps : (FloatLike.eps : α) * 100 ≤ 1)
    (hgate : 1 ≤ (1 / s.reduced.ktratio) * 1000) :
    let j := (checkTermination i bz qx s iter tov).1
    let out := Info.postProcess (resetToPrev j) bz qx s
    j.ktratio < 1
    ∧ out.status ≠ .almostPrimalInfeasible ∧ out.status ≠ .almostDualInfeasible
    ∧ (out.status = .almostSolved ∨ out.status = .insufficientProgress)
    ∧ (out.status = .almostSolved →
        (j.prev_gap_abs < s.reduced.gap_abs ∨ j.prev_gap_rel < s.reduced.gap_rel)
        ∧ j.prev_res_primal < s.reduced.feas ∧ j.prev_res_dual < s.reduced.feas) := by
  intro j out
  obtain ⟨st, hj⟩ := checkTermination_fields i bz qx s iter tov
  have hst : j.status = .insufficientProgress := hip
  have hkt : j.ktratio = i.ktratio := by
    show (checkTermination i bz qx s iter tov).1.ktratio = _
    rw [hj]
  have hlt : j.ktratio < 1 := by
    rw [hkt]
    rcases checkTermination_insufficient i bz qx s iter tov h0 hip with h | h
    · exact lt_of_lt_of_le h heps
    · exact h
  have hrk : (resetToPrev j).ktratio = j.ktratio := rfl
  have hrs : (resetToPrev j).status = .insufficientProgress := hst
  have hnot : ¬ (resetToPrev j).ktratio > (1 / s.reduced.ktratio) * 1000 := by
    rw [hrk]; exact not_lt.mpr (le_trans hlt.le hgate)
  have hout : out = checkConvergenceAlmost (resetToPrev j) bz qx s := by
    show Info.postProcess (resetToPrev j) bz qx s = _
    unfold Info.postProcess
    rw [hrs]
    rfl
  rcases checkConvergence_cases (resetToPrev j) bz qx s.reduced .almostSolved
      .almostPrimalInfeasible .almostDualInfeasible with hc | hc | hc | hc
  · have e : out = { resetToPrev j with status := .almostSolved } := by
      rw [hout]; exact hc.1
    have hsol := (isSolved_iff _ _ _ _).mp hc.2.2
    have e' : out.status = .almostSolved := by rw [e]
    refine ⟨hlt, by rw [e']; decide, by rw [e']; decide, Or.inl e', fun _ => hsol⟩
  · exact absurd hc.2.2.1 hnot
  · exact absurd hc.2.2.1 hnot
  · have e : out = resetToPrev j := by rw [hout]; exact hc
    have e' : out.status = .insufficientProgress := by rw [e]; exact hrs
    refine ⟨hlt, by rw [e']; decide, by rw [e']; decide, Or.inr e', fun h => ?_⟩
    rw [e'] at h; cases h

end field

/-! ### the counterexample for `reduced_tol_ktratio > 1000` (over ℝ, `ε = 2⁻⁵²`) -/

section counterexample

/-- full tolerances (the defaults, as rationals) -/
noncomputable def cxFull : Tols ℝ :=
  { gap_abs := 1/100000000, gap_rel := 1/100000000, feas := 1/100000000,
    infeas_abs := 1/100000000, infeas_rel := 1/100000000, ktratio := 1/1000000 }
/-- reduced tolerances with the bizarre but accepted `reduced_tol_ktratio = 10⁶ > 1000` -/
noncomputable def cxReduced : Tols ℝ :=
  { gap_abs := 1/20000, gap_rel := 1/20000, feas := 1/10000,
    infeas_abs := 1/1000, infeas_rel := 1/10, ktratio := 1000000 }
noncomputable def cxSettings : Settings ℝ := { full := cxFull, reduced := cxReduced, max_iter := 200 }

/-- `info` as `Info.update` leaves it for the iterate that will be RESTORED and returned
(2×1 problem `A = [1; 0]`, `b = (0, −1)`, `ẑ = (3, 4)`: `‖Aᵀẑ‖/max(1,‖ẑ‖) = 3/5`,
`b̂ᵀẑ = −4`; identity scaling), pass `k` -/
noncomputable def cxPrev : InfoS ℝ :=
  { cost_primal := 0, cost_dual := 4, res_primal := 1/10, res_dual := 1/10,
    res_primal_inf := 3/5, res_dual_inf := 1, gap_abs := 4, gap_rel := 4, ktratio := 1/2,
    prev_cost_primal := 0, prev_cost_dual := 0, prev_res_primal := 1, prev_res_dual := 1,
    prev_gap_abs := 1, prev_gap_rel := 1, iterations := 5, status := .unsolved }

/-- `info` after `save_prev_iterate` and `Info.update` for the next iterate, which will be
DISCARDED (`ẑ = (0, 1)`: `‖Aᵀẑ‖ = 0`, `b̂ᵀẑ = −1`; residuals a thousand times worse) -/
noncomputable def cxDisc : InfoS ℝ :=
  { (savePrev cxPrev) with
    cost_primal := 0, cost_dual := 1, res_primal := 100, res_dual := 100,
    res_primal_inf := 0, res_dual_inf := 1, gap_abs := 1, gap_rel := 1, ktratio := 1/2,
    iterations := 6 }

theorem cx_eps : (FloatLike.eps : ℝ) = 2⁻¹ ^ 52 := rfl

/-- **counterexample on the model** (`reduced_tol_ktratio = 10⁶`).  Pass `k`: the iterate is
not terminal.  Pass `k+1`: `check_termination` says `InsufficientProgress` (residuals 100×
worse, `ktratio = 1/2 < 1`); the rollback restores pass `k`'s figures; `Info::post_process`
then reports `AlmostPrimalInfeasible`, because the gate `ktratio = 1/2 > 1000/10⁶` and the
reduced test are evaluated on the DISCARDED iterate's `ktratio`, `res_primal_inf = 0`,
`dot_bz = −1` — while the restored iterate, the one whose κ-normalisation is returned as the
certificate, FAILS the reduced test (`3/5 < (1/10)·4` is false). -/
theorem rollback_counterexample :
    -- pass k: not done
    (checkTermination cxPrev (-4) 0 cxSettings 5 false).2 = false
    -- pass k+1: InsufficientProgress
    ∧ (checkTermination cxDisc (-1) 0 cxSettings 6 false).1.status = .insufficientProgress
    -- verdict after the rollback: AlmostPrimalInfeasible
    ∧ (Info.postProcess (resetToPrev (checkTermination cxDisc (-1) 0 cxSettings 6 false).1)
          (-1) 0 cxSettings).status = .almostPrimalInfeasible
    -- the figures reported are the restored iterate's
    ∧ (resetToPrev (checkTermination cxDisc (-1) 0 cxSettings 6 false).1).res_primal = cxPrev.res_primal
    -- but the restored iterate does not pass the reduced test
    ∧ isPrimalInfeasible cxPrev (-4) cxReduced.infeas_abs cxReduced.infeas_rel = false := by
  have heps : (FloatLike.eps : ℝ) * 100 < 1/2 := by
    rw [cx_eps]
    have : (2⁻¹ : ℝ) ^ 52 ≤ 2⁻¹ ^ 10 := pow_le_pow_of_le_one (by norm_num) (by norm_num) (by norm_num)
    have h2 : (2⁻¹ : ℝ) ^ 10 = 1 / 1024 := by norm_num
    linarith
  have hne : ¬ ((1/2 : ℝ) < FloatLike.eps * 100) := not_lt.mpr heps.le
  have h1 : (checkTermination cxPrev (-4) 0 cxSettings 5 false)
      = (cxPrev, false) := by
    simp only [checkTermination, checkConvergenceFull, checkConvergence, isSolved,
      isPrimalInfeasible, isDualInfeasible, cxPrev, cxSettings, cxFull]
    norm_num
  have h2 : (checkTermination cxDisc (-1) 0 cxSettings 6 false).1
      = { cxDisc with status := .insufficientProgress } := by
    simp only [checkTermination, checkConvergenceFull, checkConvergence, isSolved,
      isPrimalInfeasible, isDualInfeasible, cxDisc, cxPrev, savePrev, cxSettings, cxFull]
    norm_num [hne]
  refine ⟨by rw [h1], by rw [h2], ?_, by rw [h2]; rfl, ?_⟩
  · rw [h2]
    simp only [Info.postProcess, resetToPrev, checkConvergenceAlmost, checkConvergence, isSolved,
      isPrimalInfeasible, isDualInfeasible, cxDisc, cxPrev, savePrev, cxSettings, cxReduced,
      SolverStatus.isErrored]
    norm_num
  · simp only [isPrimalInfeasible, cxPrev, cxReduced]
    norm_num

/-- the hypotheses of `rollback_never_infeasible` are satisfiable: the discarded iterate of the
counterexample with the DEFAULT gate (`reduced_tol_ktratio = 10⁻⁴`, so `1000/tol = 10⁷ ≥ 1`) -/
theorem rollback_hyps_example :
    let s : Settings ℝ := { cxSettings with reduced := { cxReduced with ktratio := 1/10000 } }
    cxDisc.status = .unsolved
    ∧ (checkTermination cxDisc (-1) 0 s 6 false).1.status = .insufficientProgress
    ∧ (FloatLike.eps : ℝ) * 100 ≤ 1
    ∧ 1 ≤ (1 / s.reduced.ktratio) * 1000 := by
  intro s
  have heps : (FloatLike.eps : ℝ) * 100 < 1/2 := by
    rw [cx_eps]
    have : (2⁻¹ : ℝ) ^ 52 ≤ 2⁻¹ ^ 10 := pow_le_pow_of_le_one (by norm_num) (by norm_num) (by norm_num)
    have h2 : (2⁻¹ : ℝ) ^ 10 = 1 / 1024 := by norm_num
    linarith
  have hne : ¬ ((1/2 : ℝ) < FloatLike.eps * 100) := not_lt.mpr heps.le
  refine ⟨rfl, ?_, by linarith, by norm_num [s, cxSettings, cxReduced]⟩
  simp only [checkTermination, checkConvergenceFull, checkConvergence, isSolved,
    isPrimalInfeasible, isDualInfeasible, cxDisc, cxPrev, savePrev, cxSettings, cxFull, s]
  norm_num [hne]

end counterexample

end Clarabel.Info
