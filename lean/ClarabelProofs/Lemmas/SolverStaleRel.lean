/-
  Solving twice (C05), the relational part — definitions.

  What may a `solve()` read of the mutable state it starts from?  The answer is a relation
  `Stale` between two solver states: two states related by it are indistinguishable for `solve()`
  (`Lemmas/SolverStaleSolve.lean`: same trajectory, same solution, same final figures).  The
  relation says exactly which components matter:

  * `data`, the array *lengths* of every work vector, the *shape* of the cone objects;
  * `residuals.Px` only through `Px.map (· * 0)`      (`symv`'s prologue `y.scale(0)`),
    `kktsystem.workx` only through `workx.map (0 * ·)` (`axpby(-1, q, 0)` in `solve_constant_rhs`);
  * three vectors only beyond the last cone (`rng_cones` never covers those entries);
  * the linear solver object only through a simulation pair `(Bw, Bs)` (`KktSim`): `Bw` before the
    first `update`, `Bs` after it.
  Nothing else: iterate, residuals, step vectors, `prev_vars`, the whole `info` block (including
  `prev_*`), cone scalings (`w, λ, η, u, v, d`), `x1, z1, x2, z2, workz, work_conic` are dead.

  `RelM R x x'`: both computations fail with the same error or both succeed with `R`-related results.
-/
import ClarabelModel.Solver.Solve
import ClarabelProofs.Lemmas.SolverModelIdem

namespace Clarabel.Solver
open Clarabel Info Residuals

set_option linter.unusedSectionVars false
set_option linter.unusedVariables false

variable {α : Type}

/-- both fail with the same error, or both succeed with related results -/
def RelM {β γ : Type} (R : β → γ → Prop) : MErr β → MErr γ → Prop
  | .ok a, .ok a' => R a a'
  | .error e, .error e' => e = e'
  | _, _ => False

theorem RelM.bind {β γ β' γ' : Type} {R : β → γ → Prop} {Q : β' → γ' → Prop} {x : MErr β} {x' : MErr γ}
    {f : β → MErr β'} {f' : γ → MErr γ'} (h : RelM R x x') (hf : ∀ a a', R a a' → RelM Q (f a) (f' a')) :
    RelM Q (x >>= f) (x' >>= f') := by
  cases x with
  | error e =>
    cases x' with
    | error e' => exact h
    | ok a' => exact h.elim
  | ok a =>
    cases x' with
    | error e' => exact h.elim
    | ok a' => exact hf a a' h

theorem RelM.of_eq {β : Type} {R : β → β → Prop} {x x' : MErr β} (h : x = x') (hr : ∀ a, R a a) :
    RelM R x x' := by
  subst h
  cases x with
  | error e => rfl
  | ok a => exact hr a

theorem RelM.refl_eq {β : Type} (x : MErr β) : RelM (· = ·) x x := RelM.of_eq rfl fun _ => rfl

theorem RelM.mono {β γ : Type} {R Q : β → γ → Prop} {x : MErr β} {x' : MErr γ} (h : RelM R x x')
    (hq : ∀ a a', R a a' → Q a a') : RelM Q x x' := by
  cases x with
  | error e => cases x' with
    | error e' => exact h
    | ok a' => exact h.elim
  | ok a => cases x' with
    | error e' => exact h.elim
    | ok a' => exact hq a a' h

theorem RelM.pure {β γ : Type} {R : β → γ → Prop} {a : β} {a' : γ} (h : R a a') :
    RelM R (Pure.pure a : MErr β) (Pure.pure a' : MErr γ) := h

theorem RelM.ok_left {β γ : Type} {R : β → γ → Prop} {x : MErr β} {x' : MErr γ} {a : β} (h : RelM R x x')
    (hx : x = .ok a) : ∃ a', x' = .ok a' ∧ R a a' := by
  subst hx
  cases x' with
  | error e' => exact h.elim
  | ok a' => exact ⟨a', rfl, h⟩

theorem RelM.eq {β : Type} {x x' : MErr β} (h : RelM (· = ·) x x') : x = x' := by
  cases x with
  | error e => cases x' with
    | error e' => exact congrArg _ h
    | ok a' => exact h.elim
  | ok a => cases x' with
    | error e' => exact h.elim
    | ok a' => exact congrArg _ h

/-! ### relations on arrays -/

/-- same length, same entries from index `n` on -/
def SameFrom (n : Nat) (a a' : Array α) : Prop :=
  a.size = a'.size ∧ a.extract n a.size = a'.extract n a'.size

theorem SameFrom.rfl' (n : Nat) (a : Array α) : SameFrom n a a := ⟨rfl, rfl⟩
theorem SameFrom.of_eq {n : Nat} {a a' : Array α} (h : a = a') : SameFrom n a a' := h ▸ ⟨rfl, rfl⟩

/-- the length of the vectors is the only thing that matters of them -/
structure VarsShape (v v' : Vars α) : Prop where
  x : v.x.size = v'.x.size
  s : v.s.size = v'.s.size
  z : v.z.size = v'.z.size

theorem VarsShape.of_eq {v v' : Vars α} (h : v = v') : VarsShape v v' := h ▸ ⟨rfl, rfl, rfl⟩

/-- a step vector (`step_lhs`, `step_rhs`): lengths, and the entries of `s` past the last cone -/
structure StepShape (n : Nat) (v v' : Vars α) : Prop where
  x : v.x.size = v'.x.size
  s : SameFrom n v.s v'.s
  z : v.z.size = v'.z.size

theorem StepShape.of_eq {n : Nat} {v v' : Vars α} (h : v = v') : StepShape n v v' :=
  h ▸ ⟨rfl, SameFrom.rfl' _ _, rfl⟩

section
variable [Mul α] [OfNat α 0]

/-- what `y.scale(0)` (`symv`) leaves of a stale vector -/
def zmulR (y : Array α) : Array α := y.map (fun v => v * 0)
/-- what `axpby(a, x, 0)` reads of a stale vector -/
def zmulL (y : Array α) : Array α := y.map (fun v => 0 * v)

theorem zmulR_size {y y' : Array α} (h : zmulR y = zmulR y') : y.size = y'.size := by
  have := congrArg Array.size h
  simpa [zmulR] using this
theorem zmulL_size {y y' : Array α} (h : zmulL y = zmulL y') : y.size = y'.size := by
  have := congrArg Array.size h
  simpa [zmulL] using this

/-- `DefaultResiduals`: the five lengths (since /repo 1706c1f `symv` with `b = 0` fills `Px` with zeros
instead of scaling it by zero: `Px` is no longer read through `Px·0`) -/
structure ResidShape (r r' : Resid α) : Prop where
  rx : r.rx.size = r'.rx.size
  rz : r.rz.size = r'.rz.size
  rx_inf : r.rx_inf.size = r'.rx_inf.size
  rz_inf : r.rz_inf.size = r'.rz_inf.size
  Px : r.Px.size = r'.Px.size

theorem ResidShape.of_eq {r r' : Resid α} (h : r = r') : ResidShape r r' := h ▸ ⟨rfl, rfl, rfl, rfl, rfl⟩
end

/-! ### cones -/

/-- two cone objects of the same shape (what `set_identity_scaling` keeps) -/
def ConeShape : ConeSt α → ConeSt α → Prop
  | .zero d, .zero d' => d = d'
  | .nonneg K, .nonneg K' => K.w.size = K'.w.size ∧ K.lam.size = K'.lam.size
  | .soc K, .soc K' => K.dim = K'.dim ∧ K.w.size = K'.w.size ∧
      (match K.sparse, K'.sparse with
        | none, none => True
        | some sp, some sp' => sp.u.size = sp'.u.size ∧ sp.v.size = sp'.v.size
        | _, _ => False)
  | _, _ => False

/-- equal up to the content of `λ` (the state between `set_identity_scaling` and the first
successful `update_scaling`) -/
def ConeEqvLam : ConeSt α → ConeSt α → Prop
  | .zero d, .zero d' => d = d'
  | .nonneg K, .nonneg K' => K.w = K'.w ∧ K.lam.size = K'.lam.size
  | .soc K, .soc K' => K.dim = K'.dim ∧ K.w = K'.w ∧ K.eta = K'.eta ∧ K.sparse = K'.sparse
  | _, _ => False

theorem ConeEqvLam.rfl' (c : ConeSt α) : ConeEqvLam c c := by
  cases c with
  | zero d => exact rfl
  | nonneg K => exact ⟨rfl, rfl⟩
  | soc K => exact ⟨rfl, rfl, rfl, rfl⟩

theorem ConeEqvLam.numel {c c' : ConeSt α} (h : ConeEqvLam c c') : c.numel = c'.numel := by
  cases c <;> cases c' <;> try exact h.elim
  · exact h
  · exact congrArg Array.size h.1
  · exact h.1

/-- pointwise relation of two lists of the same length -/
inductive ListRel {β γ : Type} (R : β → γ → Prop) : List β → List γ → Prop
  | nil : ListRel R [] []
  | cons {a b l l'} : R a b → ListRel R l l' → ListRel R (a :: l) (b :: l')

abbrev ConesShape (cs cs' : List (ConeSt α)) : Prop := ListRel ConeShape cs cs'
abbrev ConesEqvLam (cs cs' : List (ConeSt α)) : Prop := ListRel ConeEqvLam cs cs'

theorem ConesEqvLam.rfl' (cs : List (ConeSt α)) : ConesEqvLam cs cs := by
  induction cs with
  | nil => exact .nil
  | cons c cs ih => exact .cons (ConeEqvLam.rfl' c) ih

theorem ConesEqvLam.numelAll {cs cs' : List (ConeSt α)} (h : ConesEqvLam cs cs') :
    cs.map ConeSt.numel = cs'.map ConeSt.numel := by
  induction h with
  | nil => rfl
  | cons h _ ih => simp only [List.map_cons, ih, h.numel]

/-! ### the linear solver, seen through its three entry points -/

section
variable [Add α] [Sub α] [Mul α] [Div α] [Neg α] [OfNat α 0] [OfNat α 1] [LT α] [DecidableLT α]
  [LE α] [DecidableLE α] [BEq α] [FloatLike α]

/-- A simulation pair for the KKT solver object: `Bw` relates two objects before an `update`
(`update` may forget everything numeric), `Bs` after it.  The solve loop uses the object only
through `update` and through `setrhs` followed by `solve`; related objects give the same answers
(`is_success`, the `x` and `z` parts of the solution) and related objects again. -/
structure KktSim (Bw Bs : KktSolver α → KktSolver α → Prop) : Prop where
  update : ∀ {K K'} (cones : List (ConeSt α)) (st : LinSettings α), Bw K K' →
    RelM (fun r r' => r.1 = r'.1 ∧ Bs r.2 r'.2) (K.update cones st) (K'.update cones st)
  weaken : ∀ {K K'}, Bs K K' → Bw K K'
  solve : ∀ {K K'} (rhsx rhsz : Array α) (st : LinSettings α), Bs K K' →
    RelM (fun r r' => r.1 = r'.1 ∧ r.2.1 = r'.2.1 ∧ r.2.2.1 = r'.2.2.1 ∧ Bs r.2.2.2 r'.2.2.2)
      (K.setrhs rhsx rhsz >>= fun K1 => K1.solve st) (K'.setrhs rhsx rhsz >>= fun K1 => K1.solve st)

/-- `DefaultKKTSystem` (`n` = total cone dimension, `nq` = length of `q`): the linear solver object up
to `B`, the lengths of `x1, z1, x2, z2, workx, workz`; `work_conic` past the last cone and `workx` past
the length of `q` (`workx.scalarop_from(|q| -q, &data.q)` is a `zip`: since /repo 1706c1f `workx` is
no longer read through `0·workx`) -/
structure KRel (B : KktSolver α → KktSolver α → Prop) (n nq : Nat) (K K' : KktSys α) : Prop where
  solver : B K.kktsolver K'.kktsolver
  x1 : K.x1.size = K'.x1.size
  z1 : K.z1.size = K'.z1.size
  x2 : K.x2.size = K'.x2.size
  z2 : K.z2.size = K'.z2.size
  workx : SameFrom nq K.workx K'.workx
  workz : K.workz.size = K'.workz.size
  workConic : SameFrom n K.workConic K'.workConic

/-- **What `solve()` may read of the state it starts from.**  Two solver states related by `Stale`
are indistinguishable for `solve()` (`Lemmas/SolverStaleSolve.lean`). -/
structure Stale (Bw : KktSolver α → KktSolver α → Prop) (S S' : SolverSt α) : Prop where
  data : S.data = S'.data
  variables : VarsShape S.variables S'.variables
  residuals : ResidShape S.residuals S'.residuals
  kktsystem : KRel Bw (numelAll S.cones) S.data.q.size S.kktsystem S'.kktsystem
  cones : ConesShape S.cones S'.cones
  stepLhs : StepShape (numelAll S.cones) S.stepLhs S'.stepLhs
  stepRhs : StepShape (numelAll S.cones) S.stepRhs S'.stepRhs
  prevVars : VarsShape S.prevVars S'.prevVars

/-- the purely structural part of `Stale`: same data, every work vector has the same length, the
cone objects have the same shape.  (`solve()` preserves it: `Lemmas/SolverStaleFrame.lean`.) -/
structure SameShape (S S' : SolverSt α) : Prop where
  data : S.data = S'.data
  variables : VarsShape S.variables S'.variables
  rx : S.residuals.rx.size = S'.residuals.rx.size
  rz : S.residuals.rz.size = S'.residuals.rz.size
  rx_inf : S.residuals.rx_inf.size = S'.residuals.rx_inf.size
  rz_inf : S.residuals.rz_inf.size = S'.residuals.rz_inf.size
  Px : S.residuals.Px.size = S'.residuals.Px.size
  x1 : S.kktsystem.x1.size = S'.kktsystem.x1.size
  z1 : S.kktsystem.z1.size = S'.kktsystem.z1.size
  x2 : S.kktsystem.x2.size = S'.kktsystem.x2.size
  z2 : S.kktsystem.z2.size = S'.kktsystem.z2.size
  workx : S.kktsystem.workx.size = S'.kktsystem.workx.size
  workz : S.kktsystem.workz.size = S'.kktsystem.workz.size
  workConic : S.kktsystem.workConic.size = S'.kktsystem.workConic.size
  cones : ConesShape S.cones S'.cones
  stepLhs : VarsShape S.stepLhs S'.stepLhs
  stepRhs : VarsShape S.stepRhs S'.stepRhs
  prevVars : VarsShape S.prevVars S'.prevVars

/-- the three vectors that are cut along `rng_cones` are not longer than the cones are (they have
length `m = cones.numel` in every solver object built by `DefaultSolver::new`) -/
structure WellSized (S : SolverSt α) : Prop where
  stepLhs : S.stepLhs.s.size ≤ numelAll S.cones
  stepRhs : S.stepRhs.s.size ≤ numelAll S.cones
  workConic : S.kktsystem.workConic.size ≤ numelAll S.cones

/-- `workx` is not longer than `q` (both have length `n` in every solver object built by
`DefaultSolver::new`), so `workx.scalarop_from(|q| -q, &data.q)` overwrites all of it -/
def WorkxSized (S : SolverSt α) : Prop := S.kktsystem.workx.size ≤ S.data.q.size

end

end Clarabel.Solver
