/-
  The flat column of a structured KKT index is a BIJECTION between the structured index type
  `KktIdx n cones = (primal ⊕ plus-aux) ⊕ Σ cone, (rows ⊕ minus-aux)` of `listKkt` and the columns
  `0 … N-1` of the assembled matrix (`N = n + Σ numel + Σ pdim`):

  * `flatPos_lt`, `flatPos_injective`, `flatPos_surjective`;
  * `kktEquiv : Fin N ≃ KktIdx n cones` with `flatPos (kktEquiv k) = k`;
  * `rowPos`, `auxPos`: the column of a cone row / of an auxiliary variable, and the decoding of a
    decomposition `cones = pre ++ c :: post` (as used by `MapsOut`, `Intended`) into a position
    `i : Fin cones.length`.
-/
import ClarabelModel.Kkt
import ClarabelProofs.Lemmas.KktInertiaCones
import ClarabelProofs.Lemmas.KktDistinct
import Mathlib.Logic.Equiv.Defs

namespace Clarabel.Lemmas.KktSymOfIdx
open Clarabel Clarabel.Kkt
open Clarabel.Lemmas.KktInertiaCones Clarabel.Lemmas.KktSigns
open Clarabel.Lemmas.KktDistinct (pre pre_succ_le pre_le_total block_decode)

/-- total number of cone rows -/
def mTot (cones : List ConeSpec) : Nat := (cones.map ConeSpec.numel).sum

/-- total number of auxiliary variables -/
def pTot (cones : List ConeSpec) : Nat := (cones.map conePdim).sum

/-- the column of row `a` of cone `i` -/
def rowPos (n : Nat) (cones : List ConeSpec) (i a : Nat) : Nat := n + pre ConeSpec.numel cones i + a

/-- the column of auxiliary variable `j` of cone `i` -/
def auxPos (n : Nat) (cones : List ConeSpec) (i j : Nat) : Nat :=
  n + mTot cones + pre conePdim cones i + j

/-- a plus-auxiliary index as an auxiliary-variable number of its cone -/
theorem plus_lt {cones : List ConeSpec} (i : Fin cones.length) (b : Fin (nPlus cones[i])) :
    nMinus (cones[i.val]'i.isLt) + b.val < conePdim (cones[i.val]'i.isLt) := by
  have hb : b.val < nPlus (cones[i.val]'i.isLt) := b.isLt
  rw [conePdim_eq]
  omega

/-- a minus-auxiliary index as an auxiliary-variable number of its cone -/
theorem minus_lt {cones : List ConeSpec} (i : Fin cones.length) (c : Fin (nMinus cones[i])) :
    c.val < nMinus (cones[i.val]'i.isLt) ∧ c.val < conePdim (cones[i.val]'i.isLt) := by
  have hc : c.val < nMinus (cones[i.val]'i.isLt) := c.isLt
  rw [conePdim_eq]
  omega

theorem row_lt {cones : List ConeSpec} (i : Fin cones.length) (a : Fin (cones[i].numel)) :
    a.val < (cones[i.val]'i.isLt).numel := a.isLt

theorem flatPos_primal (n : Nat) (cones : List ConeSpec) (x : Fin n) :
    flatPos n cones (.inl (.inl x)) = x.val := rfl

theorem flatPos_plus (n : Nat) (cones : List ConeSpec) (i : Fin cones.length)
    (b : Fin (nPlus cones[i])) :
    flatPos n cones (.inl (.inr ⟨i, b⟩))
      = auxPos n cones i.val (nMinus (cones[i.val]'i.isLt) + b.val) := by
  show n + (cones.map ConeSpec.numel).sum + ((cones.take i.val).map conePdim).sum
    + nMinus (cones[i.val]'i.isLt) + b.val = _
  simp only [auxPos, mTot, pre]
  omega

theorem flatPos_row (n : Nat) (cones : List ConeSpec) (i : Fin cones.length)
    (a : Fin (cones[i].numel)) :
    flatPos n cones (.inr ⟨i, .inl a⟩) = rowPos n cones i.val a.val := rfl

theorem flatPos_minus (n : Nat) (cones : List ConeSpec) (i : Fin cones.length)
    (c : Fin (nMinus cones[i])) :
    flatPos n cones (.inr ⟨i, .inr c⟩) = auxPos n cones i.val c.val := rfl

/-- a position inside a block of a prefix-sum layout determines the block and the offset -/
theorem pre_block_inj (f : ConeSpec → Nat) (cones : List ConeSpec) {i i' a a' : Nat}
    (hi : i < cones.length) (hi' : i' < cones.length) (ha : a < f cones[i]) (ha' : a' < f cones[i'])
    (h : pre f cones i + a = pre f cones i' + a') : i = i' ∧ a = a' := by
  rcases Nat.lt_trichotomy i i' with hlt | heq | hgt
  · have := pre_succ_le f cones i i' hlt hi
    omega
  · subst heq
    exact ⟨rfl, by omega⟩
  · have := pre_succ_le f cones i' i hgt hi'
    omega

theorem rowPos_lt (n : Nat) (cones : List ConeSpec) {i a : Nat} (hi : i < cones.length)
    (ha : a < cones[i].numel) : n ≤ rowPos n cones i a ∧ rowPos n cones i a < n + mTot cones := by
  have := pre_le_total ConeSpec.numel cones i hi
  unfold rowPos mTot
  omega

theorem auxPos_lt (n : Nat) (cones : List ConeSpec) {i j : Nat} (hi : i < cones.length)
    (hj : j < conePdim cones[i]) :
    n + mTot cones ≤ auxPos n cones i j ∧ auxPos n cones i j < n + mTot cones + pTot cones := by
  have := pre_le_total conePdim cones i hi
  unfold auxPos pTot
  omega

theorem rowPos_inj (n : Nat) (cones : List ConeSpec) {i i' a a' : Nat} (hi : i < cones.length)
    (hi' : i' < cones.length) (ha : a < cones[i].numel) (ha' : a' < cones[i'].numel)
    (h : rowPos n cones i a = rowPos n cones i' a') : i = i' ∧ a = a' :=
  pre_block_inj ConeSpec.numel cones hi hi' ha ha' (by unfold rowPos at h; omega)

theorem auxPos_inj (n : Nat) (cones : List ConeSpec) {i i' j j' : Nat} (hi : i < cones.length)
    (hi' : i' < cones.length) (hj : j < conePdim cones[i]) (hj' : j' < conePdim cones[i'])
    (h : auxPos n cones i j = auxPos n cones i' j') : i = i' ∧ j = j' :=
  pre_block_inj conePdim cones hi hi' hj hj' (by unfold auxPos at h; omega)

/-- every structured index lands inside the matrix -/
theorem flatPos_lt (n : Nat) (cones : List ConeSpec) (idx : KktIdx n cones) :
    flatPos n cones idx < n + mTot cones + pTot cones := by
  rcases idx with (x | ⟨i, b⟩) | ⟨i, a | c⟩
  · have := x.isLt
    rw [flatPos_primal]; omega
  · rw [flatPos_plus]
    exact (auxPos_lt n cones i.isLt (plus_lt i b)).2
  · rw [flatPos_row]
    have := (rowPos_lt n cones i.isLt (row_lt i a)).2
    omega
  · rw [flatPos_minus]
    exact (auxPos_lt n cones i.isLt (minus_lt i c).2).2

/-- **different structured indices sit in different columns** -/
theorem flatPos_injective (n : Nat) (cones : List ConeSpec) :
    Function.Injective (flatPos n cones) := by
  intro x y h
  rcases x with (x | ⟨i, b⟩) | ⟨i, a | c⟩ <;> rcases y with (y | ⟨i', b'⟩) | ⟨i', a' | c'⟩
  · rw [flatPos_primal, flatPos_primal] at h
    rw [Fin.ext h]
  · exfalso
    rw [flatPos_primal, flatPos_plus] at h
    have := x.isLt
    have := (auxPos_lt n cones i'.isLt (plus_lt i' b')).1
    omega
  · exfalso
    rw [flatPos_primal, flatPos_row] at h
    have := x.isLt
    have := (rowPos_lt n cones i'.isLt (row_lt i' a')).1
    omega
  · exfalso
    rw [flatPos_primal, flatPos_minus] at h
    have := x.isLt
    have := (auxPos_lt n cones i'.isLt (minus_lt i' c').2).1
    omega
  · exfalso
    rw [flatPos_primal, flatPos_plus] at h
    have := y.isLt
    have := (auxPos_lt n cones i.isLt (plus_lt i b)).1
    omega
  · rw [flatPos_plus, flatPos_plus] at h
    obtain ⟨h1, h2⟩ := auxPos_inj n cones i.isLt i'.isLt (plus_lt i b) (plus_lt i' b') h
    obtain rfl : i = i' := Fin.ext h1
    obtain rfl : b = b' := Fin.ext (by omega)
    rfl
  · exfalso
    rw [flatPos_plus, flatPos_row] at h
    have := (auxPos_lt n cones i.isLt (plus_lt i b)).1
    have := (rowPos_lt n cones i'.isLt (row_lt i' a')).2
    omega
  · exfalso
    rw [flatPos_plus, flatPos_minus] at h
    obtain ⟨h1, h2⟩ := auxPos_inj n cones i.isLt i'.isLt (plus_lt i b) (minus_lt i' c').2 h
    obtain rfl : i = i' := Fin.ext h1
    have := (minus_lt i c').1
    omega
  · exfalso
    rw [flatPos_row, flatPos_primal] at h
    have := y.isLt
    have := (rowPos_lt n cones i.isLt (row_lt i a)).1
    omega
  · exfalso
    rw [flatPos_row, flatPos_plus] at h
    have := (auxPos_lt n cones i'.isLt (plus_lt i' b')).1
    have := (rowPos_lt n cones i.isLt (row_lt i a)).2
    omega
  · rw [flatPos_row, flatPos_row] at h
    obtain ⟨h1, h2⟩ := rowPos_inj n cones i.isLt i'.isLt (row_lt i a) (row_lt i' a') h
    obtain rfl : i = i' := Fin.ext h1
    obtain rfl : a = a' := Fin.ext h2
    rfl
  · exfalso
    rw [flatPos_row, flatPos_minus] at h
    have := (auxPos_lt n cones i'.isLt (minus_lt i' c').2).1
    have := (rowPos_lt n cones i.isLt (row_lt i a)).2
    omega
  · exfalso
    rw [flatPos_minus, flatPos_primal] at h
    have := y.isLt
    have := (auxPos_lt n cones i.isLt (minus_lt i c).2).1
    omega
  · exfalso
    rw [flatPos_minus, flatPos_plus] at h
    obtain ⟨h1, h2⟩ := auxPos_inj n cones i.isLt i'.isLt (minus_lt i c).2 (plus_lt i' b') h
    obtain rfl : i = i' := Fin.ext h1
    have := (minus_lt i c).1
    omega
  · exfalso
    rw [flatPos_minus, flatPos_row] at h
    have := (auxPos_lt n cones i.isLt (minus_lt i c).2).1
    have := (rowPos_lt n cones i'.isLt (row_lt i' a')).2
    omega
  · rw [flatPos_minus, flatPos_minus] at h
    obtain ⟨h1, h2⟩ := auxPos_inj n cones i.isLt i'.isLt (minus_lt i c).2 (minus_lt i' c').2 h
    obtain rfl : i = i' := Fin.ext h1
    obtain rfl : c = c' := Fin.ext h2
    rfl

/-- **every column of the matrix carries a structured index** -/
theorem flatPos_surjective (n : Nat) (cones : List ConeSpec) (k : Nat)
    (hk : k < n + mTot cones + pTot cones) : ∃ idx : KktIdx n cones, flatPos n cones idx = k := by
  by_cases h1 : k < n
  · exact ⟨.inl (.inl ⟨k, h1⟩), rfl⟩
  · by_cases h2 : k < n + mTot cones
    · obtain ⟨i, hi, ha, hb⟩ := block_decode ConeSpec.numel cones (k - n) (by unfold mTot at h2; omega)
      refine ⟨.inr ⟨⟨i, hi⟩, .inl ⟨k - n - pre ConeSpec.numel cones i, by
        show k - n - pre ConeSpec.numel cones i < cones[i].numel
        omega⟩⟩, ?_⟩
      rw [flatPos_row]
      unfold rowPos
      show n + pre ConeSpec.numel cones i + (k - n - pre ConeSpec.numel cones i) = k
      omega
    · obtain ⟨i, hi, ha, hb⟩ := block_decode conePdim cones (k - n - mTot cones)
        (by unfold pTot at hk; omega)
      by_cases h3 : k - n - mTot cones - pre conePdim cones i < nMinus cones[i]
      · refine ⟨.inr ⟨⟨i, hi⟩, .inr ⟨k - n - mTot cones - pre conePdim cones i, h3⟩⟩, ?_⟩
        rw [flatPos_minus]
        unfold auxPos
        show n + mTot cones + pre conePdim cones i + (k - n - mTot cones - pre conePdim cones i) = k
        omega
      · rw [conePdim_eq] at hb
        refine ⟨.inl (.inr ⟨⟨i, hi⟩, ⟨k - n - mTot cones - pre conePdim cones i - nMinus cones[i], by
          show k - n - mTot cones - pre conePdim cones i - nMinus cones[i] < nPlus cones[i]
          omega⟩⟩), ?_⟩
        rw [flatPos_plus]
        unfold auxPos
        show n + mTot cones + pre conePdim cones i
          + (nMinus cones[i] + (k - n - mTot cones - pre conePdim cones i - nMinus cones[i])) = k
        omega

/-- the flat column as a map into `Fin N` -/
def flatFin (n : Nat) (cones : List ConeSpec) (N : Nat) (hN : N = n + mTot cones + pTot cones)
    (idx : KktIdx n cones) : Fin N :=
  ⟨flatPos n cones idx, by rw [hN]; exact flatPos_lt n cones idx⟩

theorem flatFin_bijective (n : Nat) (cones : List ConeSpec) (N : Nat)
    (hN : N = n + mTot cones + pTot cones) : Function.Bijective (flatFin n cones N hN) := by
  refine ⟨?_, ?_⟩
  · intro x y h
    exact flatPos_injective n cones (congrArg Fin.val h)
  · intro k
    obtain ⟨idx, h⟩ := flatPos_surjective n cones k.val (by rw [← hN]; exact k.isLt)
    exact ⟨idx, Fin.ext h⟩

/-- **the equivalence between the columns of the assembled matrix and the structured indices of
`listKkt`**; `flatPos (kktEquiv k) = k` (`flatPos_kktEquiv`). -/
noncomputable def kktEquiv (n : Nat) (cones : List ConeSpec) (N : Nat)
    (hN : N = n + mTot cones + pTot cones) : Fin N ≃ KktIdx n cones :=
  (Equiv.ofBijective (flatFin n cones N hN) (flatFin_bijective n cones N hN)).symm

theorem flatPos_kktEquiv (n : Nat) (cones : List ConeSpec) (N : Nat)
    (hN : N = n + mTot cones + pTot cones) (k : Fin N) :
    flatPos n cones (kktEquiv n cones N hN k) = k.val := by
  have := (Equiv.ofBijective (flatFin n cones N hN) (flatFin_bijective n cones N hN)).apply_symm_apply k
  exact congrArg Fin.val this

theorem kktEquiv_symm_val (n : Nat) (cones : List ConeSpec) (N : Nat)
    (hN : N = n + mTot cones + pTot cones) (idx : KktIdx n cones) :
    ((kktEquiv n cones N hN).symm idx).val = flatPos n cones idx := rfl

/-- the position in the cone list of the middle element of a decomposition -/
theorem decomp_pos {cones pre' post : List ConeSpec} {c : ConeSpec} (h : cones = pre' ++ c :: post) :
    ∃ hi : pre'.length < cones.length, cones[pre'.length] = c ∧ cones.take pre'.length = pre' := by
  subst h
  refine ⟨by simp, by simp, by simp⟩

theorem decomp_pre {cones pre' post : List ConeSpec} {c : ConeSpec} (h : cones = pre' ++ c :: post)
    (f : ConeSpec → Nat) : (pre'.map f).sum = pre f cones pre'.length := by
  obtain ⟨_, _, ht⟩ := decomp_pos h
  unfold pre
  rw [ht]

end Clarabel.Lemmas.KktSymOfIdx
