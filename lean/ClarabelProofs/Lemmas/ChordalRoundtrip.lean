/-
  Round trips and the remaining data of the transformed problems.

  * `compact_b_eq` [S]: `b_new[NewRow r] = b[r]` as an equation (injectivity of the placement).
  * `decompAugmentCompact_spec` [S]: `decomp_augment_compact` = `find_compact_A_b_and_cones` +
    `P_new = blockdiag(P, 0)`, `q_new = (q, 0)` with `n_overlaps` zeros; `padSquare_cols`.
  * `revS_eq_origSum` [F]: the slack returned by `decomp_reverse_compact` is, in EVERY row, the sum
    `S[r] = Σ_{ρ : OrigOf ρ r} st[ρ]` of `compact_equiv`.
  * `compact_roundtrip` [F]: a point satisfying the compact equalities, mapped back by
    `decomp_reverse_compact` on the cone list / cone maps of the transformation, satisfies the
    original equalities.
  * `standard_roundtrip` [F]: the same for the standard form (`decomp_reverse_standard`).
-/
import ClarabelProofs.Lemmas.ChordalCompactBridge
import ClarabelProofs.Lemmas.ChordalStdBlocks
import ClarabelModel.Chordal.AugCompactFull

namespace Clarabel.Chordal
open Finset ChordalInfo
variable {α : Type}

/-! ## `b_new` -/

theorem list_map_getD_rt {β γ : Type} (l : List β) (f : β → γ) (k : Nat) (d : β) (d' : γ) (hk : k < l.length) :
    (l.map f).getD k d' = f (l.getD k d) := by
  simp [List.getD_eq_getElem?_getD, List.getElem?_eq_getElem hk]

theorem array_toList_getD_rt (a : Array Nat) (k : Nat) : a.toList.getD k 0 = a.getD k 0 := by
  simp [Array.getD_eq_getD_getElem?, List.getD_eq_getElem?_getD]

/-- [S] **`b_new[NewRow r] = b[r]`**: on valid input the right-hand side of the compact problem
holds, in the new row of EVERY original row `r` (whether `b[r]` is zero or not), the value `b[r]`;
by `compact_assembled` it is `0` in every row that is not the new row of a non-zero of `b`. -/
theorem compact_b_eq [Ring α] [BEq α] [LawfulBEq α] (ci : ChordalInfo) (A : Csc α)
    (b : Array α) (H : CompactHyp ci A (bIndOf b)) (hnz : A.colptr.getD A.n 0 ≤ A.nzval.size)
    (hpos : A.colptr.getD A.n 0 + 2 * ci.ovBefore ci.initCones.size ≠ 0) :
    ∃ tr Anew bnew, findCompactTriplets ci A b = .ok tr ∧
      findCompactAbAndCones ci A b = .ok (Anew, bnew, tr.conesNew, tr.coneMaps) ∧
      bnew.size = tr.dim ∧
      ∀ r v, NewRow ci r v → bnew.getD v 0 = b.getD r 0 := by
  obtain ⟨tr, Anew, bnew, htr, hab, _, _, _, _, hbs, hb0, hbk⟩ :=
    findCompactAbAndCones_spec ci A b H hnz hpos
  obtain ⟨tr', htr', _, _, _, _, _, hbI, hbV, _, _, _, hB, _, _⟩ :=
    findCompactTriplets_spec ci A b H hnz hpos
  rw [htr] at htr'
  cases htr'
  refine ⟨tr, Anew, bnew, htr, hab, hbs, fun r v hrv => ?_⟩
  have hv := H.valid
  have hstrict := bIndOf_strict b
  by_cases hmem : ∃ k, k < (bIndOf b).size ∧ (bIndOf b).getD k 0 = r
  · obtain ⟨k, hk, hkr⟩ := hmem
    have hnk := hB k hk
    rw [hkr] at hnk
    have hvk : v = tr.baI.getD k 0 := hrv.unique hv hnk
    have hk' : k < tr.bInd.size := by rw [hbI]; exact hk
    have hlast : ∀ k', k < k' → k' < tr.bInd.size → tr.baI.getD k' 0 ≠ tr.baI.getD k 0 := by
      intro k' hkk hk'' e
      rw [hbI] at hk''
      have h1 := hB k' hk''
      rw [e] at h1
      have h2 := hB k hk
      have := h1.inj hv h2
      have := hstrict k k' (Nat.zero_le _) hkk hk''
      omega
    rw [hvk, hbk k hk' hlast, hbV,
      list_map_getD_rt _ _ k 0 0 (by rw [Array.length_toList]; exact hk), array_toList_getD_rt, hkr]
  · have hno : ∀ k, k < tr.bInd.size → tr.baI.getD k 0 ≠ v := by
      intro k hk e
      rw [hbI] at hk
      have h1 := hB k hk
      rw [e] at h1
      exact hmem ⟨k, hk, h1.inj hv hrv⟩
    rw [hb0 v hno]
    by_cases hr : r < b.size
    · have hnot : r ∉ (bIndOf b).toList := by
        intro hm
        obtain ⟨k, hk, hke⟩ := exists_pos_of_mem hm
        rw [array_toList_getD_rt] at hke
        exact hmem ⟨k, by simpa using hk, hke⟩
      unfold bIndOf at hnot
      simp only [List.mem_filter, List.mem_range, hr, true_and, Bool.not_eq_true', beq_eq_false_iff_ne,
        ne_eq] at hnot
      exact (Classical.not_not.1 hnot).symm
    · rw [Array.getD_eq_getD_getElem?, Array.getElem?_eq_none (by omega)]
      rfl

/-! ## `decomp_augment_compact` -/

private theorem getD_append_left_rt {β : Type} (a b : Array β) (k : Nat) (d : β) (h : k < a.size) :
    (a ++ b).getD k d = a.getD k d := by
  simp only [Array.getD_eq_getD_getElem?, Array.getElem?_append, h, if_true]

private theorem getD_append_right_rt {β : Type} (a b : Array β) (k : Nat) (d : β) (h : a.size ≤ k) :
    (a ++ b).getD k d = b.getD (k - a.size) d := by
  have hnk : ¬ k < a.size := by omega
  simp only [Array.getD_eq_getD_getElem?, Array.getElem?_append, hnk, if_false]

/-- [S] `blockdiag(P, zeros(k, k))`: the columns of `P` followed by `k` empty columns -/
theorem padSquare_cols (P : Csc α) (k : Nat) (hcp : P.colptr.size = P.n + 1) :
    (padSquare P k).m = P.m + k ∧ (padSquare P k).n = P.n + k ∧
    (∀ j, j < P.n → (padSquare P k).col j = P.col j) ∧
    (∀ j, j < k → (padSquare P k).col (P.n + j) = []) := by
  have c1 : ∀ j, j ≤ P.n → (padSquare P k).colptr.getD j 0 = P.colptr.getD j 0 :=
    fun j hj => getD_append_left_rt _ _ _ _ (by omega)
  have c2 : ∀ j, j ≤ k → (padSquare P k).colptr.getD (P.n + j) 0 = P.colptr.getD P.n 0 := by
    intro j hj
    rcases j with _ | j
    · exact c1 P.n (Nat.le_refl _)
    · show (P.colptr ++ Array.replicate k (P.colptr.getD P.n 0)).getD (P.n + (j + 1)) 0 = _
      rw [getD_append_right_rt _ _ _ _ (by omega), hcp,
        show P.n + (j + 1) - (P.n + 1) = j by omega, Array.getD_eq_getD_getElem?,
        Array.getElem?_replicate, if_pos (by omega)]
      rfl
  refine ⟨rfl, rfl, fun j hj => ?_, fun j hj => ?_⟩
  · unfold Csc.col
    simp only [c1 j (by omega), c1 (j + 1) (by omega)]
    rfl
  · unfold Csc.col
    simp only [c2 j (by omega), show P.n + j + 1 = P.n + (j + 1) by omega, c2 (j + 1) (by omega)]
    rw [Array.extract_empty_of_stop_le_start (Nat.le_refl _)]
    rfl

/-- [S] **`decomp_augment_compact`** on valid input: no panic (`A_new.n - A.n` does not wrap),
`A_new`, `b_new`, the cones and the cone maps are those of `find_compact_A_b_and_cones`, the number
of added variables is `n_overlaps`, `P_new = blockdiag(P, 0)` and `q_new = (q, 0, …, 0)`. -/
theorem decompAugmentCompact_spec [Ring α] [BEq α] (ci : ChordalInfo) (P : Csc α) (q : Array α)
    (A : Csc α) (b : Array α) (H : CompactHyp ci A (bIndOf b)) (hnz : A.colptr.getD A.n 0 ≤ A.nzval.size)
    (hpos : A.colptr.getD A.n 0 + 2 * ci.ovBefore ci.initCones.size ≠ 0) :
    ∃ tr Anew bnew, findCompactTriplets ci A b = .ok tr ∧
      findCompactAbAndCones ci A b = .ok (Anew, bnew, tr.conesNew, tr.coneMaps) ∧
      Anew.n = A.n + tr.nOverlaps ∧
      decompAugmentCompact ci P q A b =
        .ok (padSquare P tr.nOverlaps, q ++ Array.replicate tr.nOverlaps 0, Anew, bnew,
          tr.conesNew, tr.coneMaps) := by
  obtain ⟨tr, Anew, bnew, htr, hab, _, _, hn, _⟩ := findCompactAbAndCones_spec ci A b H hnz hpos
  refine ⟨tr, Anew, bnew, htr, hab, hn, ?_⟩
  unfold decompAugmentCompact
  rw [hab]
  simp only [bind, Except.bind]
  rw [if_neg (by omega), hn, Nat.add_sub_cancel_left]
  rfl

/-! ## the slack returned by `decomp_reverse_compact` is the `S` of `compact_equiv`, in every row -/

open Classical in
/-- a row of a cone that is not decomposed is held by exactly one row of the compact problem -/
theorem origSum_plain_eq [AddCommMonoid α] (ci : ChordalInfo) (hv : ValidInfo ci) (c : Nat)
    (hc : c < ci.initCones.size) (hp : ci.patAt c = none) (k' : Nat) (hk' : k' < ci.nv c) (st : Nat → α) :
    (∑ ρ ∈ range (ci.newStart ci.initCones.size), if OrigOf ci ρ (ci.rs c + k') then st ρ else 0) =
      st (ci.newStart c + k') := by
  have hiff : ∀ ρ, OrigOf ci ρ (ci.rs c + k') ↔ ρ = ci.newStart c + k' := by
    intro ρ
    constructor
    · rintro ⟨c', hc', h3⟩
      have hcc : c' = c := by
        rcases h3 with ⟨_, h1, h2, hr⟩ | ⟨p', hp', i, x, y, hi, hxy, hy, _, hr⟩
        · exact cone_unique ci c' c (ci.rs c + k') hc' hc (by omega) (by omega) (by omega) (by omega)
        · have hvp' := (hv.pat c' hc' p' hp').1
          have hf := cliqueFacts p' hvp' i hi
          have h1 := (getD_le_iff_of_sorted hf.clique_sorted (by omega) hy).2 hxy
          have h2 := hf.clique_lt _ (getD_mem_of_lt hy)
          have h3 := coord_index_lt h1 h2
          have hnv : ci.nv c' = triangularNumber p'.ordering.size := by
            unfold ChordalInfo.nv; rw [(hv.pat c' hc' p' hp').2]; rfl
          exact cone_unique ci c' c (ci.rs c + k') hc' hc (by omega) (by omega) (by omega) (by omega)
      subst hcc
      rcases h3 with ⟨_, h1, h2, hr⟩ | ⟨p', hp', _⟩
      · omega
      · rw [hp] at hp'; cases hp'
    · rintro rfl
      exact ⟨c, hc, Or.inl ⟨hp, by omega, by omega, by omega⟩⟩
  have hlt : ci.newStart c + k' < ci.newStart ci.initCones.size := by
    have h2 := ci.newStart_le_dim (c + 1) (by omega)
    rw [ci.newStart_succ_none c hp] at h2
    omega
  rw [Finset.sum_eq_single (ci.newStart c + k')]
  · rw [if_pos ((hiff _).2 rfl)]
  · intro ρ _ hne
    rw [if_neg (fun h => hne ((hiff ρ).1 h))]
  · intro hn; exact absurd (Finset.mem_range.2 hlt) hn

/-- a row held by some row of the compact problem lies in a cone -/
theorem OrigOf.in_cone {ci : ChordalInfo} (hv : ValidInfo ci) {ρ r : Nat} (h : OrigOf ci ρ r) :
    ∃ c, c < ci.initCones.size ∧ ci.rs c ≤ r ∧ r < ci.rs c + ci.nv c := by
  obtain ⟨c, hc, h3⟩ := h
  refine ⟨c, hc, ?_⟩
  rcases h3 with ⟨_, h1, h2, hr⟩ | ⟨p, hp, i, x, y, hi, hxy, hy, _, hr⟩
  · omega
  · have hvp := (hv.pat c hc p hp).1
    have hf := cliqueFacts p hvp i hi
    have h1 := (getD_le_iff_of_sorted hf.clique_sorted (by omega) hy).2 hxy
    have h2 := hf.clique_lt _ (getD_mem_of_lt hy)
    have h3 := coord_index_lt h1 h2
    have hnv : ci.nv c = triangularNumber p.ordering.size := by
      unfold ChordalInfo.nv; rw [(hv.pat c hc p hp).2]; rfl
    omega

open Classical in
/-- [F] **the slack of the reversal is the `S` of `compact_equiv` in every row**: if `s` is what
`decomp_reverse_compact` returns (described by `reverse_compact`) for `old_s` storing the slack
`st` of the compact problem, then `s[r] = Σ_{ρ : OrigOf ρ r} st[ρ]` for every `r` -/
theorem revS_eq_origSum [AddCommMonoid α] (ci : ChordalInfo) (hv : ValidInfo ci) (st : Nat → α)
    (oldS s : Array α)
    (hold : ∀ ρ, ρ < ci.newStart ci.initCones.size → oldS.getD ρ 0 = st ρ)
    (hplain : ∀ c, c < ci.initCones.size → ci.patAt c = none → ∀ k', k' < ci.nv c →
      s.getD (ci.rs c + k') 0 = oldS.getD (ci.newStart c + k') 0)
    (hpsd : ∀ c, c < ci.initCones.size → ∀ p, ci.patAt c = some p → ∀ k', k' < ci.nv c →
      s.getD (ci.rs c + k') 0 = revFoldS p (ci.newStart c) oldS (upperTriangularIndexToCoord k').1
        (upperTriangularIndexToCoord k').2 p.sntree.nCliques)
    (hout : ∀ r, (∀ c, c < ci.initCones.size → ¬(ci.rs c ≤ r ∧ r < ci.rs c + ci.nv c)) → s.getD r 0 = 0)
    (r : Nat) :
    s.getD r 0 = ∑ ρ ∈ range (ci.newStart ci.initCones.size), if OrigOf ci ρ r then st ρ else 0 := by
  by_cases hin : ∃ c, c < ci.initCones.size ∧ ci.rs c ≤ r ∧ r < ci.rs c + ci.nv c
  · obtain ⟨c, hc, h1, h2⟩ := hin
    obtain ⟨k', rfl⟩ : ∃ k', r = ci.rs c + k' := ⟨r - ci.rs c, by omega⟩
    have hk' : k' < ci.nv c := by omega
    cases hp : ci.patAt c with
    | none =>
      rw [hplain c hc hp k' hk', origSum_plain_eq ci hv c hc hp k' hk' st]
      have hlt : ci.newStart c + k' < ci.newStart ci.initCones.size := by
        have h2 := ci.newStart_le_dim (c + 1) (by omega)
        rw [ci.newStart_succ_none c hp] at h2
        omega
      exact hold _ hlt
    | some p =>
      rw [hpsd c hc p hp k' hk']
      exact revFoldS_eq_origSum ci hv c hc p hp k' hk' st oldS hold
  · rw [hout r (fun c hc hh => hin ⟨c, hc, hh.1, hh.2⟩)]
    symm
    apply Finset.sum_eq_zero
    intro ρ _
    rw [if_neg]
    intro ho
    exact hin (ho.in_cone hv)

/-! ## the round trip of the compact form -/

open Classical in
/-- [F] **`compact_roundtrip`**: on valid input let `tr` be the triplets of the compact problem, and
let `(xx, old_s)` satisfy its equalities (`xx`: the `n + n_overlaps` variables, `old_s` of length
`≥ dim` the slack).  Then `decomp_reverse_compact`, run on the cone list and cone maps that the
transformation produced, does not panic and returns `(s, z)` of the ORIGINAL length `m` such that
every original row `r` satisfies `(A x)[r] + s[r] = b[r]` where `x` = the first `n` entries of `xx`
(`A_J[k] < n` for the original entries): the reversed point satisfies the original equalities. -/
theorem compact_roundtrip [Ring α] [BEq α] (ci : ChordalInfo) (A : Csc α) (b : Array α)
    (H : CompactHyp ci A (bIndOf b)) (hnz : A.colptr.getD A.n 0 ≤ A.nzval.size)
    (hpos : A.colptr.getD A.n 0 + 2 * ci.ovBefore ci.initCones.size ≠ 0)
    (hfit : ∀ c, c < ci.initCones.size → ci.rs c + ci.nv c ≤ ci.initDims.2) :
    ∃ tr, findCompactTriplets ci A b = .ok tr ∧
      (∀ k, k < A.colptr.getD A.n 0 → tr.AaJ.getD k 0 < A.n) ∧
      ∀ (xx : Nat → α) (oldS oldZ : Array α), tr.dim ≤ oldS.size → tr.dim ≤ oldZ.size →
        (∀ ρ, ρ < tr.dim →
          (∑ k ∈ range tr.AaI.size,
              if tr.AaI.getD k 0 = ρ then tr.AaV.getD k 0 * xx (tr.AaJ.getD k 0) else 0) + oldS.getD ρ 0 =
          ∑ k ∈ range tr.bInd.size, if tr.baI.getD k 0 = ρ then tr.bVal.getD k 0 else 0) →
        ∃ s z, decompReverseCompact ci tr.coneMaps tr.conesNew oldS oldZ = .ok (s, z) ∧
          s.size = ci.initDims.2 ∧ z.size = ci.initDims.2 ∧
          ∀ r,
            (∑ k ∈ range (A.colptr.getD A.n 0),
                if A.rowval.getD k 0 = r then A.nzval.getD k 0 * xx (tr.AaJ.getD k 0) else 0) +
              s.getD r 0 =
            ∑ k ∈ range tr.bInd.size, if tr.bInd.getD k 0 = r then tr.bVal.getD k 0 else 0 := by
  obtain ⟨tr, htr, hfwd⟩ := compact_equiv_forward ci A b H hnz hpos
  obtain ⟨tr', htr', hdim, _, _, hJ, _, _, _, _, _, _, _, hcones, hmaps⟩ :=
    findCompactTriplets_spec ci A b H hnz hpos
  rw [htr] at htr'
  cases htr'
  have hv := H.valid
  refine ⟨tr, htr, ?_, fun xx oldS oldZ hS hZ heq => ?_⟩
  · intro k hk
    have hJlen := findnzJ_length A H.wf
    rw [hJ, getD_append_left' _ _ _ _ (by rw [List.size_toArray, hJlen]; exact hk)]
    have hmem : ((List.range A.n).flatMap (fun c =>
        List.replicate (A.colptr.getD (c + 1) 0 - A.colptr.getD c 0) c)).toArray.getD k 0 ∈
        (List.range A.n).flatMap (fun c =>
          List.replicate (A.colptr.getD (c + 1) 0 - A.colptr.getD c 0) c) := by
      rw [Array.getD_eq_getD_getElem?, List.getElem?_toArray,
        List.getElem?_eq_getElem (by rw [hJlen]; exact hk), Option.getD_some]
      exact List.getElem_mem _
    obtain ⟨c, hc, hcm⟩ := List.mem_flatMap.1 hmem
    rw [(List.mem_replicate.1 hcm).2]
    exact List.mem_range.1 hc
  · rw [hdim] at hS hZ
    obtain ⟨s, z, hrev, hs, hz, hplain, hpsd, hout⟩ :=
      decompReverseCompact_spec ci hv hfit tr.conesNew tr.coneMaps hcones hmaps oldS oldZ hS hZ
    refine ⟨s, z, hrev, hs, hz, fun r => ?_⟩
    have hS' := revS_eq_origSum ci hv (fun ρ => oldS.getD ρ 0) oldS s (fun _ _ => rfl)
      (fun c hc hp k' hk' => (hplain c hc hp k' hk').1)
      (fun c hc p hp k' hk' => (hpsd c hc p hp k' hk').1)
      (fun r hr => (hout r hr).1) r
    rw [hS', ← hdim]
    exact hfwd xx (fun ρ => oldS.getD ρ 0) heq r

/-! ## the round trip of the standard form -/

/-- [F] **`standard_roundtrip`**: let `(x, y)` and the slack `(s₀, s̃)` with `s₀ = 0` (the zero cone
of the augmented problem) satisfy the augmented equalities `[A H; 0 -I](x, y) + (s₀, s̃) = (b, 0)`
(`ax` stands for `A x`).  Then `decomp_reverse_standard` applied to the slack `old_s = (s₀, s̃)` does
not panic and returns `(s, z)` of the original length with `A x + s = b` in every row, `s = H s̃`
the sum of the scattered blocks. -/
theorem standard_roundtrip [Ring α] [Div α] [LT α] [DecidableLT α] (ci : ChordalInfo) (h : StdH)
    (hok : ci.findStandardHAndCones = .ok h) (hci : ci.StdOK) (s0 st oldZ : Array α)
    (ax b y : Nat → α) (hs0 : s0.size = h.rows) (hst : st.size = h.lenH)
    (hZ : oldZ.size = h.rows + h.lenH)
    (haug : (∀ r, r < h.rows → ax r + blockSum (stdBlocks ci) 0 y r + 0 = b r) ∧
      (∀ j, j < h.lenH → - y j + st.getD j 0 = 0)) :
    ∃ s z : Array α, decompReverseStandard h h.rows (s0 ++ st) oldZ = .ok (s, z) ∧
      s.size = h.rows ∧ z.size = h.rows ∧
      (∀ j, j < h.lenH → y j = st.getD j 0) ∧
      (∀ r, r < h.rows → s.getD r 0 = blockSum (stdBlocks ci) 0 (fun j => st.getD j 0) r) ∧
      ∀ r, r < h.rows → ax r + s.getD r 0 = b r := by
  obtain ⟨s', _, _, _, hiff⟩ := Clarabel.Chordal.standard_equiv_blocks ci h hok hci st ax b y hst
  obtain ⟨hy, hrow⟩ := hiff.1 haug
  obtain ⟨s, z, hrev, hs, hz, hsz⟩ := decomp_reverse_standard_blocks ci h hok hci (s0 ++ st) oldZ
    (by rw [Array.size_append, hs0, hst]) hZ
  have hfun : (fun j => (s0 ++ st).getD (h.rows + j) 0) = (fun j => st.getD j 0) := by
    funext j
    rw [getD_append_right_rt _ _ _ _ (by omega), hs0, Nat.add_sub_cancel_left]
  refine ⟨s, z, hrev, hs, hz, hy, fun r hr => ?_, fun r hr => ?_⟩
  · rw [(hsz r hr).1, hfun]
  · rw [(hsz r hr).1, hfun]
    exact hrow r hr

end Clarabel.Chordal
