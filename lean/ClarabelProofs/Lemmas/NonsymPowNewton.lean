/-
  Power cone (C14): `_newton_raphson_powcone` as a whole.

  * the target `f0` is strictly decreasing and convex on `x > 0` (`f1` negative and monotone);
  * finding NR-START-RIGHT-OF-ROOT (the PRE-FIX code, before /repo 54b486f) as a theorem: for every
    `a ∈ (0,1)` and every interior point the loop returned the start `nrX0Old` after one pass, unrefined; the start is the exact root iff the
    AM–GM step is an equality (`a = 1/2`: proved exact);
  * every positive root lies in `[2s/(φ-s²), nrX0Old]`;
  * repair: started from `x₁ = 2s/(φ-s²)` the same loop is one-sided — all iterates stay in `[x₁, root]`.
-/
import ClarabelProofs.Lemmas.NonsymPowNR
import ClarabelProofs.Lemmas.NonsymNewton
import Mathlib.Analysis.Convex.Deriv

namespace Clarabel.Pow
open Clarabel Nonsym Set

/-- partial-fraction form of `f1` -/
theorem nrF1_eq {a s3 x : ℝ} (ha0 : 0 < a) (ha1 : a < 1) (h3 : 0 < s3) (hx : 0 < x) :
    nrF1 s3 a x = 2 * a / (x + (1 + a) / (a * s3)) + 2 * (1 - a) / (x + (2 - a) / ((1 - a) * s3))
      - 1 / x - 1 / (x + 2 / s3) := by
  have h1a : 0 < 1 - a := by linarith
  have n3 : s3 ≠ 0 := ne_of_gt h3
  have nx : x ≠ 0 := ne_of_gt hx
  have na : a ≠ 0 := ne_of_gt ha0
  have n1a : 1 - a ≠ 0 := ne_of_gt h1a
  have pA : 0 < a * x + (1 + a) / s3 := by positivity
  have pB : 0 < (1 - a) * x + (2 - a) / s3 := by
    have : 0 < (2 - a) / s3 := div_pos (by linarith) h3
    have : 0 < (1 - a) * x := mul_pos h1a hx
    linarith
  have pA' : 0 < x + (1 + a) / (a * s3) := by positivity
  have pB' : 0 < x + (2 - a) / ((1 - a) * s3) := by
    have : 0 < (2 - a) / ((1 - a) * s3) := div_pos (by linarith) (mul_pos h1a h3)
    linarith
  have pk : 0 < x + 2 / s3 := by positivity
  unfold nrF1
  simp only [recip]
  have e1 : a * a * 2 / (a * x + (1 + a) / s3) = 2 * a / (x + (1 + a) / (a * s3)) := by
    rw [div_eq_div_iff (ne_of_gt pA) (ne_of_gt pA')]
    field_simp
  have e2 : (1 - a) * 2 * (1 - a) / ((1 - a) * x + (2 - a) / s3) = 2 * (1 - a) / (x + (2 - a) / ((1 - a) * s3)) := by
    rw [div_eq_div_iff (ne_of_gt pB) (ne_of_gt pB')]
    field_simp
  have e3 : (x + 1 / s3) * 2 / (x * x + 2 * x / s3) = 1 / x + 1 / (x + 2 / s3) := by
    have : x * x + 2 * x / s3 = x * (x + 2 / s3) := by ring
    rw [this, div_add_div _ _ nx (ne_of_gt pk), div_eq_div_iff (mul_ne_zero nx (ne_of_gt pk)) (mul_ne_zero nx (ne_of_gt pk))]
    ring
  rw [e1, e2, e3]
  ring

theorem recip_diff {x y d : ℝ} (hx : 0 < x + d) (hy : 0 < y + d) :
    1 / (x + d) - 1 / (y + d) = (y - x) / ((x + d) * (y + d)) := by
  rw [div_sub_div _ _ (ne_of_gt hx) (ne_of_gt hy)]
  congr 1; ring

/-- `1/(x+d) - 1/(y+d)` decreases with the shift `d` (for `x ≤ y`) -/
theorem recip_diff_anti {x y d k : ℝ} (hx : 0 < x) (hxy : x ≤ y) (hk : 0 ≤ k) (hkd : k ≤ d) :
    1 / (x + d) - 1 / (y + d) ≤ 1 / (x + k) - 1 / (y + k) := by
  have hy : 0 < y := lt_of_lt_of_le hx hxy
  rw [recip_diff (by linarith) (by linarith), recip_diff (by linarith) (by linarith)]
  apply div_le_div_of_nonneg_left (by linarith) (by positivity)
  apply mul_le_mul <;> nlinarith

/-- `f1` is monotone on `x > 0`: the target `f0` is convex -/
theorem nrF1_mono {a s3 : ℝ} (ha0 : 0 < a) (ha1 : a < 1) (h3 : 0 < s3) : MonotoneOn (nrF1 s3 a) (Ioi 0) := by
  intro x hx y hy hxy
  simp only [mem_Ioi] at hx hy
  have h1a : 0 < 1 - a := by linarith
  rw [nrF1_eq ha0 ha1 h3 hx, nrF1_eq ha0 ha1 h3 hy]
  have hk : (0 : ℝ) ≤ 2 / s3 := by positivity
  have hd1 : 2 / s3 ≤ (1 + a) / (a * s3) := by
    rw [div_le_div_iff₀ h3 (mul_pos ha0 h3)]; nlinarith
  have hd2 : 2 / s3 ≤ (2 - a) / ((1 - a) * s3) := by
    rw [div_le_div_iff₀ h3 (mul_pos h1a h3)]; nlinarith
  have i1 := recip_diff_anti hx hxy hk hd1
  have i2 := recip_diff_anti hx hxy hk hd2
  have i3 := recip_diff_anti hx hxy (le_refl (0 : ℝ)) hk
  simp only [add_zero] at i3
  have m1 := mul_le_mul_of_nonneg_left i1 (by linarith : 0 ≤ 2 * a)
  have m2 := mul_le_mul_of_nonneg_left i2 (by linarith : 0 ≤ 2 * (1 - a))
  have q1 : 2 * a / (x + (1 + a) / (a * s3)) = 2 * a * (1 / (x + (1 + a) / (a * s3))) := by ring
  have q2 : 2 * a / (y + (1 + a) / (a * s3)) = 2 * a * (1 / (y + (1 + a) / (a * s3))) := by ring
  have q3 : 2 * (1 - a) / (x + (2 - a) / ((1 - a) * s3)) = 2 * (1 - a) * (1 / (x + (2 - a) / ((1 - a) * s3))) := by ring
  have q4 : 2 * (1 - a) / (y + (2 - a) / ((1 - a) * s3)) = 2 * (1 - a) * (1 / (y + (2 - a) / ((1 - a) * s3))) := by ring
  rw [q1, q2, q3, q4]
  nlinarith

theorem nrF0_convexOn {a s3 phi : ℝ} (ha0 : 0 < a) (ha1 : a < 1) (h3 : 0 < s3) :
    ConvexOn ℝ (Ioi 0) (nrF0 s3 phi a) := by
  have hd : ∀ x ∈ Ioi (0 : ℝ), HasDerivAt (nrF0 s3 phi a) (nrF1 s3 a x) x :=
    fun x hx => nrF0_hasDerivAt ha0 ha1 h3 hx
  apply MonotoneOn.convexOn_of_deriv (convex_Ioi 0)
  · exact fun x hx => (hd x hx).continuousAt.continuousWithinAt
  · rw [interior_Ioi]; exact fun x hx => (hd x hx).differentiableAt.differentiableWithinAt
  · rw [interior_Ioi]
    intro x hx y hy hxy
    rw [(hd x hx).deriv, (hd y hy).deriv]
    exact nrF1_mono ha0 ha1 h3 hx hy hxy

theorem nrF0_strictAnti {a s3 phi : ℝ} (ha0 : 0 < a) (ha1 : a < 1) (h3 : 0 < s3) :
    StrictAntiOn (nrF0 s3 phi a) (Ioi 0) := by
  have hd : ∀ x ∈ Ioi (0 : ℝ), HasDerivAt (nrF0 s3 phi a) (nrF1 s3 a x) x :=
    fun x hx => nrF0_hasDerivAt ha0 ha1 h3 hx
  apply strictAntiOn_of_deriv_neg (convex_Ioi 0)
  · exact fun x hx => (hd x hx).continuousAt.continuousWithinAt
  · rw [interior_Ioi]
    intro x hx
    rw [(hd x hx).deriv]
    exact nrF1_neg ha0 ha1 h3 hx

/-- tangent inequality at `x` towards a point `r > x` -/
theorem nrF0_tangent {a s3 phi x r : ℝ} (ha0 : 0 < a) (ha1 : a < 1) (h3 : 0 < s3) (hx : 0 < x) (hxr : x ≤ r) :
    nrF0 s3 phi a x + nrF1 s3 a x * (r - x) ≤ nrF0 s3 phi a r := by
  rcases eq_or_lt_of_le hxr with rfl | hlt
  · simp
  have hr : 0 < r := lt_trans hx hlt
  have h := (nrF0_convexOn (phi := phi) ha0 ha1 h3).le_slope_of_hasDerivAt (mem_Ioi.mpr hx) (mem_Ioi.mpr hr) hlt
    (nrF0_hasDerivAt ha0 ha1 h3 hx)
  rw [slope_def_field, le_div_iff₀ (by linarith)] at h
  linarith

/-- **NR-START-RIGHT-OF-ROOT**: for every exponent `a ∈ (0,1)`, every `s₃ > 0` and `φ > s₃²` (i.e.
every interior `s` with `s₃ ≠ 0`) `_newton_raphson_powcone` returns its start point after a single
pass through the loop: the iteration never refines `x0`. -/
theorem newtonRaphsonOld_returns_start {a s3 phi : ℝ} (ha0 : 0 < a) (ha1 : a < 1) (h3 : 0 < s3)
    (hphi : s3 * s3 < phi) : newtonRaphsonOld s3 phi a = (nrX0Old s3 phi, 1) := by
  obtain ⟨hx, hf⟩ := nrF0_start_nonpos ha0 ha1 h3 hphi
  unfold newtonRaphsonOld
  exact newton_stop_right _ _ 99 _ 0 hf (nrF1_neg ha0 ha1 h3 hx).le

/-- at `a = 1/2` the start is the exact root -/
theorem nrF0_start_half {s3 phi : ℝ} (h3 : 0 < s3) (hphi : s3 * s3 < phi) :
    nrF0 s3 phi (1 / 2) (nrX0Old s3 phi) = 0 := by
  have hφ : 0 < phi := lt_trans (mul_pos h3 h3) hphi
  rw [nrX0Old_eq_start]
  obtain ⟨hx, -⟩ := nrStart_spec (by norm_num : (1 : ℝ) ≤ 2) h3 hphi
  have hl := log_at_start (by norm_num : (1 : ℝ) ≤ 2) h3 hphi
  rw [nrF0_eq (by norm_num) (by norm_num) h3 hφ hx]
  have e1 : (1 / 2 * (nrStart 2 s3 phi * s3) + 1 + 1 / 2) / (1 / 2) = nrStart 2 s3 phi * s3 + 1 + 2 := by
    field_simp; ring
  have e2 : ((1 - 1 / 2) * (nrStart 2 s3 phi * s3) + 2 - 1 / 2) / (1 - 1 / 2) = nrStart 2 s3 phi * s3 + 1 + 2 := by
    field_simp; ring
  rw [e1, e2]
  linarith

/-- every positive root of the target lies between the one-sided start `2s₃/(φ-s₃²)` and the code's
start `nrX0Old` -/
theorem root_bracket {a s3 phi r : ℝ} (ha0 : 0 < a) (ha1 : a < 1) (h3 : 0 < s3) (hphi : s3 * s3 < phi)
    (hr : 0 < r) (hroot : nrF0 s3 phi a r = 0) :
    2 * s3 / (phi - s3 * s3) ≤ r ∧ r ≤ nrX0Old s3 phi := by
  have hanti := nrF0_strictAnti (phi := phi) ha0 ha1 h3
  obtain ⟨hL, hfL⟩ := nrF0_left_start_nonneg ha0 ha1 h3 hphi
  obtain ⟨hR, hfR⟩ := nrF0_start_nonpos ha0 ha1 h3 hphi
  constructor
  · by_contra hlt
    rw [not_le] at hlt
    have := hanti (mem_Ioi.mpr hr) (mem_Ioi.mpr hL) hlt
    linarith
  · by_contra hlt
    rw [not_le] at hlt
    have := hanti (mem_Ioi.mpr hR) (mem_Ioi.mpr hr) hlt
    linarith

/-- **repair of the finding**: with the start `x₁ = 2s₃/(φ-s₃²)` the loop of
`newton_raphson_onesided` on the same `f0`, `f1` is one-sided — for any number of passes the
returned value lies between `x₁` and the root. -/
theorem newton_from_left_start {a s3 phi r : ℝ} (ha0 : 0 < a) (ha1 : a < 1) (h3 : 0 < s3)
    (hphi : s3 * s3 < phi) (hr : 0 < r) (hroot : nrF0 s3 phi a r = 0) (fuel it : Nat) :
    let res := newtonRaphsonOnesided (nrF0 s3 phi a) (nrF1 s3 a) fuel (2 * s3 / (phi - s3 * s3)) it
    2 * s3 / (phi - s3 * s3) ≤ res.1 ∧ res.1 ≤ r := by
  have hanti := nrF0_strictAnti (phi := phi) ha0 ha1 h3
  obtain ⟨hL, -⟩ := nrF0_left_start_nonneg (a := a) ha0 ha1 h3 hphi
  obtain ⟨hLr, -⟩ := root_bracket ha0 ha1 h3 hphi hr hroot
  apply newton_loop_onesided (lo := 2 * s3 / (phi - s3 * s3)) _ fuel _ it (le_refl _) hLr
  intro y hy hyr
  have hy0 : 0 < y := lt_of_lt_of_le hL hy
  refine ⟨nrF1_neg ha0 ha1 h3 hy0, ?_, ?_⟩
  · rcases eq_or_lt_of_le hyr with rfl | hlt
    · rw [hroot]
    · have := hanti (mem_Ioi.mpr hy0) (mem_Ioi.mpr hr) hlt
      linarith
  · have := nrF0_tangent (phi := phi) ha0 ha1 h3 hy0 hyr
    rw [hroot] at this
    exact this

/-! ### the exponent-dependent one-sided start `x_ψ(a)` -/

/-- the exponent-dependent start parameter `ψ = 1/(a² + (1-a)²) ∈ [1, 2]` (the generalised power
cone's `ψ = 1/Σαᵢ²` for `α = (a, 1-a)`) -/
noncomputable def psiOf (a : ℝ) : ℝ := 1 / (a * a + (1 - a) * (1 - a))

theorem psiOf_bounds {a : ℝ} (ha0 : 0 < a) (ha1 : a < 1) : 1 ≤ psiOf a ∧ psiOf a ≤ 2 := by
  unfold psiOf
  have hq : 0 < a * a + (1 - a) * (1 - a) := by nlinarith
  constructor
  · rw [le_div_iff₀ hq]; nlinarith
  · rw [div_le_iff₀ hq]; nlinarith [sq_nonneg (2 * a - 1)]

theorem psiOf_half : psiOf (1 / 2) = 2 := by unfold psiOf; norm_num

/-- weighted harmonic–geometric mean inequality, logarithmic form -/
theorem log_hmgm {a p q : ℝ} (ha0 : 0 < a) (ha1 : a < 1) (hp : 0 < p) (hq : 0 < q) :
    -Real.log (a / p + (1 - a) / q) ≤ a * Real.log p + (1 - a) * Real.log q := by
  have h := log_amgm ha0 ha1 (inv_pos.mpr hp) (inv_pos.mpr hq)
  rw [Real.log_inv, Real.log_inv] at h
  have e : a * p⁻¹ + (1 - a) * q⁻¹ = a / p + (1 - a) / q := by ring
  rw [e] at h
  linarith

/-- Jensen for the concave `w ↦ w/(wc+1)` at the two points `a`, `1-a` with weights `a`, `1-a` -/
theorem rational_jensen {a c : ℝ} (ha0 : 0 < a) (ha1 : a < 1) (hc : 0 < c) :
    a / (c + 1 / a) + (1 - a) / (c + 1 / (1 - a)) ≤ 1 / (c + psiOf a) := by
  have h1a : 0 < 1 - a := by linarith
  have hq : 0 < a * a + (1 - a) * (1 - a) := by nlinarith
  have e1 : a / (c + 1 / a) = a * a / (a * c + 1) := by
    have : a ≠ 0 := ne_of_gt ha0
    have : a * c + 1 ≠ 0 := by positivity
    field_simp
  have e2 : (1 - a) / (c + 1 / (1 - a)) = (1 - a) * (1 - a) / ((1 - a) * c + 1) := by
    have : 1 - a ≠ 0 := ne_of_gt h1a
    have : (1 - a) * c + 1 ≠ 0 := by positivity
    field_simp
  have e3 : 1 / (c + psiOf a) = (a * a + (1 - a) * (1 - a)) / ((a * a + (1 - a) * (1 - a)) * c + 1) := by
    unfold psiOf
    have : a * a + (1 - a) * (1 - a) ≠ 0 := ne_of_gt hq
    have : (a * a + (1 - a) * (1 - a)) * c + 1 ≠ 0 := by positivity
    field_simp
  rw [e1, e2, e3, div_add_div _ _ (by positivity) (by positivity), div_le_div_iff₀ (by positivity) (by positivity)]
  have hp : 0 ≤ a * (1 - a) := by positivity
  have hp4 : a * (1 - a) ≤ 1 / 4 := by nlinarith [sq_nonneg (2 * a - 1)]
  have key : 0 ≤ c * (a * (1 - a)) * (1 - 4 * (a * (1 - a))) := by
    apply mul_nonneg (mul_nonneg hc.le hp); linarith
  nlinarith [key]

/-- sharper lower bound (harmonic–geometric mean + Jensen): `f0(x) ≥ 2 log(xs+1+ψ(a)) - log φ - log(x²+2x/s)` -/
theorem nrF0_ge_psi {a s3 phi x : ℝ} (ha0 : 0 < a) (ha1 : a < 1) (h3 : 0 < s3) (hphi : 0 < phi) (hx : 0 < x) :
    2 * Real.log (x * s3 + 1 + psiOf a) - Real.log phi - Real.log (x * x + x * 2 / s3) ≤ nrF0 s3 phi a x := by
  have h1a : 0 < 1 - a := by linarith
  have hy : 0 < x * s3 := mul_pos hx h3
  have hc : 0 < x * s3 + 1 := by linarith
  have hψ := (psiOf_bounds ha0 ha1).1
  rw [nrF0_eq ha0 ha1 h3 hphi hx]
  have eP : (a * (x * s3) + 1 + a) / a = (x * s3 + 1) + 1 / a := by
    have : a ≠ 0 := ne_of_gt ha0
    field_simp; ring
  have eQ : ((1 - a) * (x * s3) + 2 - a) / (1 - a) = (x * s3 + 1) + 1 / (1 - a) := by
    have : 1 - a ≠ 0 := ne_of_gt h1a
    field_simp; ring
  rw [eP, eQ]
  have hP : 0 < (x * s3 + 1) + 1 / a := by positivity
  have hQ : 0 < (x * s3 + 1) + 1 / (1 - a) := by positivity
  have h1 := log_hmgm ha0 ha1 hP hQ
  have hj := rational_jensen ha0 ha1 hc
  have hsum : 0 < a / (x * s3 + 1 + 1 / a) + (1 - a) / (x * s3 + 1 + 1 / (1 - a)) := by positivity
  have h2 := Real.log_le_log hsum hj
  have e3 : Real.log (1 / (x * s3 + 1 + psiOf a)) = -Real.log (x * s3 + 1 + psiOf a) := by
    rw [one_div, Real.log_inv]
  rw [e3] at h2
  linarith

/-- the exponent-dependent start `x_ψ(a)` is positive and `f0 ≥ 0` there: it is left of the root.
For `a = ½` it is the code's start `nrX0Old` (the exact root). -/
theorem nrF0_psi_start_nonneg {a s3 phi : ℝ} (ha0 : 0 < a) (ha1 : a < 1) (h3 : 0 < s3) (hphi : s3 * s3 < phi) :
    0 < nrStart (psiOf a) s3 phi ∧ 0 ≤ nrF0 s3 phi a (nrStart (psiOf a) s3 phi) := by
  have hφ : 0 < phi := lt_trans (mul_pos h3 h3) hphi
  have hψ := (psiOf_bounds ha0 ha1).1
  obtain ⟨hx, -⟩ := nrStart_spec hψ h3 hphi
  refine ⟨hx, ?_⟩
  have h := nrF0_ge_psi ha0 ha1 h3 hφ hx
  have hl := log_at_start hψ h3 hphi
  linarith

theorem nrStart_psi_half (s3 phi : ℝ) : nrStart (psiOf (1 / 2)) s3 phi = nrX0Old s3 phi := by
  rw [psiOf_half, nrX0Old_eq_start]

/-- one-sided Newton from any positive start with `f0 ≥ 0` -/
theorem newton_from_left {a s3 phi r x0 : ℝ} (ha0 : 0 < a) (ha1 : a < 1) (h3 : 0 < s3)
    (hr : 0 < r) (hroot : nrF0 s3 phi a r = 0) (hx0 : 0 < x0) (hf0 : 0 ≤ nrF0 s3 phi a x0) (fuel it : Nat) :
    x0 ≤ r ∧ x0 ≤ (newtonRaphsonOnesided (nrF0 s3 phi a) (nrF1 s3 a) fuel x0 it).1 ∧
      (newtonRaphsonOnesided (nrF0 s3 phi a) (nrF1 s3 a) fuel x0 it).1 ≤ r := by
  have hanti := nrF0_strictAnti (phi := phi) ha0 ha1 h3
  have hx0r : x0 ≤ r := by
    by_contra hlt
    rw [not_le] at hlt
    have := hanti (mem_Ioi.mpr hr) (mem_Ioi.mpr hx0) hlt
    linarith
  refine ⟨hx0r, ?_⟩
  apply newton_loop_onesided (lo := x0) _ fuel _ it (le_refl _) hx0r
  intro y hy hyr
  have hy0 : 0 < y := lt_of_lt_of_le hx0 hy
  refine ⟨nrF1_neg ha0 ha1 h3 hy0, ?_, ?_⟩
  · rcases eq_or_lt_of_le hyr with rfl | hlt
    · rw [hroot]
    · have := hanti (mem_Ioi.mpr hy0) (mem_Ioi.mpr hr) hlt
      linarith
  · have := nrF0_tangent (phi := phi) ha0 ha1 h3 hy0 hyr
    rw [hroot] at this
    exact this

/-! ### existence and uniqueness of the root -/

theorem root_unique {a s3 phi r r' : ℝ} (ha0 : 0 < a) (ha1 : a < 1) (h3 : 0 < s3)
    (hr : 0 < r) (hroot : nrF0 s3 phi a r = 0) (hr' : 0 < r') (hroot' : nrF0 s3 phi a r' = 0) : r' = r := by
  have hanti := nrF0_strictAnti (phi := phi) ha0 ha1 h3
  rcases lt_trichotomy r' r with h | h | h
  · have := hanti (mem_Ioi.mpr hr') (mem_Ioi.mpr hr) h; linarith
  · exact h
  · have := hanti (mem_Ioi.mpr hr) (mem_Ioi.mpr hr') h; linarith

/-- for interior data the target has a positive root, between the one-sided start `x_ψ(a)` and the
code's start `nrX0Old` (intermediate value theorem) -/
theorem exists_root {a s3 phi : ℝ} (ha0 : 0 < a) (ha1 : a < 1) (h3 : 0 < s3) (hphi : s3 * s3 < phi) :
    ∃ r, 0 < r ∧ nrF0 s3 phi a r = 0 ∧ nrStart (psiOf a) s3 phi ≤ r ∧ r ≤ nrX0Old s3 phi := by
  obtain ⟨hx0, hf0⟩ := nrF0_psi_start_nonneg ha0 ha1 h3 hphi
  obtain ⟨hxn, hfn⟩ := nrF0_start_nonpos ha0 ha1 h3 hphi
  have hanti := nrF0_strictAnti (phi := phi) ha0 ha1 h3
  have hle : nrStart (psiOf a) s3 phi ≤ nrX0Old s3 phi := by
    by_contra hlt
    rw [not_le] at hlt
    have := hanti (mem_Ioi.mpr hxn) (mem_Ioi.mpr hx0) hlt
    linarith
  have hcont : ContinuousOn (nrF0 s3 phi a) (Icc (nrStart (psiOf a) s3 phi) (nrX0Old s3 phi)) := by
    intro y hy
    exact (nrF0_hasDerivAt ha0 ha1 h3 (lt_of_lt_of_le hx0 hy.1)).continuousAt.continuousWithinAt
  obtain ⟨r, hr, hval⟩ := intermediate_value_Icc' hle hcont (show (0 : ℝ) ∈ Icc _ _ from ⟨hfn, hf0⟩)
  exact ⟨r, lt_of_lt_of_le hx0 hr.1, hval, hr.1, hr.2⟩

/-! ### the code since /repo 54b486f: start `nrX0 a = x_ψ(a)` -/

theorem nrPsi_eq (a : ℝ) : nrPsi a = psiOf a := rfl

/-- the code's start is the member `ψ = ψ(a)` of the start family -/
theorem nrX0_eq_start (a s3 phi : ℝ) : nrX0 a s3 phi = nrStart (psiOf a) s3 phi := by
  unfold nrX0 nrStart
  simp only [recip, real_sqrt_eq, nrPsi_eq]
  have e : phi * phi / (s3 * s3) + phi * (psiOf a * psiOf a - 1) = (phi / s3 / s3 + psiOf a * psiOf a - 1) * phi := by
    by_cases h : s3 = 0
    · subst h; simp; ring
    · field_simp; ring
  rw [e]
  ring

/-- error bound behind the stopping rule: left of the root, the distance to the root is at most the
residual divided by the slope at the root (`f0` convex, decreasing) -/
theorem root_dist_le {a s3 phi x r : ℝ} (ha0 : 0 < a) (ha1 : a < 1) (h3 : 0 < s3) (hx : 0 < x) (hxr : x ≤ r)
    (hroot : nrF0 s3 phi a r = 0) :
    r - x ≤ nrF0 s3 phi a x / (-(nrF1 s3 a r)) := by
  have hr : 0 < r := lt_of_lt_of_le hx hxr
  have hn : 0 < -(nrF1 s3 a r) := by linarith [nrF1_neg ha0 ha1 h3 hr]
  rw [le_div_iff₀ hn]
  rcases eq_or_lt_of_le hxr with rfl | hlt
  · rw [hroot]; simp
  have h := (nrF0_convexOn (phi := phi) ha0 ha1 h3).slope_le_of_hasDerivAt (mem_Ioi.mpr hx) (mem_Ioi.mpr hr) hlt
    (nrF0_hasDerivAt ha0 ha1 h3 hr)
  rw [slope_def_field, div_le_iff₀ (by linarith), hroot] at h
  linarith

/-- **the code since 54b486f**: for interior data the target has exactly one positive root `ρ`; the
start is positive and left of it; the value `_newton_raphson_powcone` returns lies in `[x0, ρ]`;
either all 100 passes were used or one of the three stopping tests holds at the returned point; and
the distance to the root is at most `f0(x)/|f1(ρ)|`. -/
theorem newtonRaphson_onesided {a s3 phi : ℝ} (ha0 : 0 < a) (ha1 : a < 1) (h3 : 0 < s3) (hphi : s3 * s3 < phi) :
    ∃ ρ, 0 < ρ ∧ nrF0 s3 phi a ρ = 0 ∧ (∀ ρ', 0 < ρ' → nrF0 s3 phi a ρ' = 0 → ρ' = ρ) ∧
      0 < nrX0 a s3 phi ∧ 0 ≤ nrF0 s3 phi a (nrX0 a s3 phi) ∧
      nrX0 a s3 phi ≤ (newtonRaphson s3 phi a).1 ∧ (newtonRaphson s3 phi a).1 ≤ ρ ∧
      ρ - (newtonRaphson s3 phi a).1 ≤ nrF0 s3 phi a (newtonRaphson s3 phi a).1 / (-(nrF1 s3 a ρ)) ∧
      ((newtonRaphson s3 phi a).2 = 100 ∨ NewtonStopped (nrF0 s3 phi a) (nrF1 s3 a) (newtonRaphson s3 phi a).1) := by
  obtain ⟨ρ, hρ, hroot, -, -⟩ := exists_root ha0 ha1 h3 hphi
  obtain ⟨hx0, hf0⟩ := nrF0_psi_start_nonneg ha0 ha1 h3 hphi
  rw [← nrX0_eq_start] at hx0 hf0
  obtain ⟨-, hlo, hhi⟩ := newton_from_left ha0 ha1 h3 hρ hroot hx0 hf0 100 0
  have hst := newton_loop_stopped (nrF0 s3 phi a) (nrF1 s3 a) 100 (nrX0 a s3 phi) 0
  rw [Nat.zero_add] at hst
  refine ⟨ρ, hρ, hroot, fun ρ' hρ' hroot' => root_unique ha0 ha1 h3 hρ hroot hρ' hroot', hx0, hf0, hlo, hhi, ?_, hst⟩
  exact root_dist_le ha0 ha1 h3 (lt_of_lt_of_le hx0 hlo) hhi hroot

/-- every partial run of the loop from the code's start is monotone: more passes never move left,
and never pass the root -/
theorem newton_iterates_monotone {a s3 phi r : ℝ} (ha0 : 0 < a) (ha1 : a < 1) (h3 : 0 < s3)
    (hphi : s3 * s3 < phi) (hr : 0 < r) (hroot : nrF0 s3 phi a r = 0) (fuel it : Nat) :
    nrX0 a s3 phi ≤ (newtonRaphsonOnesided (nrF0 s3 phi a) (nrF1 s3 a) fuel (nrX0 a s3 phi) it).1 ∧
      (newtonRaphsonOnesided (nrF0 s3 phi a) (nrF1 s3 a) fuel (nrX0 a s3 phi) it).1 ≤ r := by
  obtain ⟨hx0, hf0⟩ := nrF0_psi_start_nonneg ha0 ha1 h3 hphi
  rw [← nrX0_eq_start] at hx0 hf0
  exact (newton_from_left ha0 ha1 h3 hr hroot hx0 hf0 fuel it).2

end Clarabel.Pow
