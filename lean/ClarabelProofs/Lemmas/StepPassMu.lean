/-
  C06, round 7 — the aggregated linearised complementarity of one ACCEPTED pass of the
  whole-solver model (`Solver.pass`) for zero / nonnegative / second-order cones, scalar ℝ: the
  hypothesis `hagg` of `C06.pass_mu_update_partial`, discharged.

  With `cones' = L'.S.cones` (the cones after this pass's `update_scaling` at the old iterate
  `(s, z)`, which is interior: `ConesInterior`), `e = coneIdFn cones'`:

    `pass_Hs_z_eq_s`                 `Hs z = s`                       (`Hs = hsMat cones'`)
    `pass_offset_dot`                `z · workConic = ⟨e, rhs.s⟩`     (`workConic = Δs_from_Δz_offset(rhs.s, z)`)
    `pass_complementarity_retained`  `s·Δz + z·Δs = −⟨e, rhs.s⟩`
    `pass_rhs_identity`              `⟨e, rhs.s⟩ = s·z + m·Δsᵃ·Δzᵃ − ν σμ`, `(Δsᵃ, Δzᵃ)` the affine
                                     step of the same pass (`PassAffineStep`), `m` its Mehrotra factor
    `pass_complementarity_aggregated` the two combined: `hagg` with `C = m·Δsᵃ·Δzᵃ`.

  No exactness hypothesis on the linear solves is needed: the `Δs` rows of both solves are computed
  by `DefaultKKTSystem::solve` itself (`Δs = −Δs_const − Hs Δz`).
-/
import ClarabelProofs.Lemmas.StepPass
import ClarabelProofs.Lemmas.StepPassMuLift

namespace Clarabel.Solver
open Clarabel Clarabel.Lemmas Matrix Residuals

set_option linter.unusedVariables false

/-! ## what an accepted pass ran (structural) -/

/-- the calls an accepted pass made, in order, on the state it started from -/
theorem pass_mu_inv {st : Settings ℝ} {L L' : LoopSt ℝ} (hp : pass st L = .ok (true, L')) :
    ∃ (res : Resid ℝ) (info1 : Info.InfoS ℝ) (kk1 kk2 : KktSys ℝ) (rhsA lhsA lhsA' : Vars ℝ) (aAff : ℝ),
      topNumerics L.S L.iter = .ok (res, L'.mu, info1)
      ∧ updateScaling L.S.cones L.S.variables.s L.S.variables.z = .ok (true, L'.S.cones)
      ∧ L.S.kktsystem.update L.S.data L'.S.cones st.lin = .ok (true, kk1)
      ∧ affineStepRhs L.S.stepRhs res L.S.variables L'.S.cones = .ok rhsA
      ∧ kk1.solve L.S.stepLhs rhsA L.S.data L.S.variables L'.S.cones .affine st.lin = .ok (true, lhsA, kk2)
      ∧ calcStepLength L.S.variables lhsA L'.S.cones st.maxValue st.maxStepFraction .affine = .ok aAff
      ∧ L'.sigma = Step.centeringParameter aAff
      ∧ combinedStepRhs rhsA res L.S.variables L'.S.cones lhsA L'.sigma L'.mu
          (Step.mehrotraM (L.iter + 1) aAff) = .ok (L'.S.stepRhs, lhsA')
      ∧ kk2.solve lhsA' L'.S.stepRhs L.S.data L.S.variables L'.S.cones .combined st.lin
          = .ok (true, L'.S.stepLhs, L'.S.kktsystem) := by
  have hcase := pass_inv hp
  cases hcase with
  | step residuals mu info1 sc k a pv htop hdone hsc hok hk hkok ha hsmall hpv =>
    obtain ⟨kk1, rhsA, lhsA, kk2, aAff, rhsC, lhsA', lhsC, kk3, hupd, hrA, hsA, haA, hrC, hsC, hkS, hkaff⟩ :=
      kktNumerics_inv hk hkok
    dsimp only [topS] at hupd hrA hsA haA hrC hsC hkS
    have hσ : sigmaOf k L = Step.centeringParameter aAff := by
      unfold sigmaOf; rw [hkaff]
    have hsc' : updateScaling L.S.cones L.S.variables.s L.S.variables.z = .ok (true, sc.2) := by
      have : scaleCones L.S.variables L.S.cones = .ok sc := hsc
      unfold scaleCones at this
      rw [this, ← hok]
    refine ⟨residuals, info1, kk1, kk2, rhsA, lhsA, lhsA', aAff, ?_⟩
    rw [hkS]
    dsimp only
    rw [hσ]
    exact ⟨htop, hsc', hupd, hrA, hsA, haA, rfl, hrC, hsC⟩

/-! ## arrays, lists and `Fin m → ℝ` -/

theorem dot_toFn_list {m : ℕ} (x y : Array ℝ) (hx : x.size = m) (hy : y.size = m) :
    toFn x m ⬝ᵥ toFn y m = hsDotL x.toList y.toList := by
  rw [toList_eq_ofFn x hx, toList_eq_ofFn y hy, hsDotL_ofFn]
  rfl

theorem coneIdFn_eq (cones : List (ConeSt ℝ)) (m : ℕ) :
    coneIdFn cones m = toFn (coneIdL cones).toArray m := (toFn_toArray _ _).symm

theorem coneIdFn_dot {cones : List (ConeSt ℝ)} {m : ℕ} (hc : ConesFull cones) (hm : numelAll cones = m)
    (x : Array ℝ) (hx : x.size = m) :
    coneIdFn cones m ⬝ᵥ toFn x m = hsDotL (coneIdL cones) x.toList := by
  rw [coneIdFn_eq, dot_toFn_list _ x (by simp [coneIdL_length cones hc, hm]) hx]

theorem axpby_toList (a b : ℝ) (x y : Array ℝ) :
    (Vec.axpby a x b y).toList = List.zipWith (fun yi xi => a * xi + b * yi) y.toList x.toList := by
  unfold Vec.axpby
  rw [List.zip, List.map_zipWith]

theorem hsDotL_map_mul_right (c : ℝ) : ∀ (u v : List ℝ),
    hsDotL u (v.map (· * c)) = c * hsDotL u v
  | [], v => by simp [hsDotL_nil_left]
  | u0 :: u, [] => by simp [hsDotL_nil_right]
  | u0 :: u, v0 :: v => by
    rw [List.map_cons, hsDotL_cons, hsDotL_cons, hsDotL_map_mul_right c u v]; ring

/-- the `Δs` of the affine solve, `−s − Hs Δz`, vanishes on the zero-cone rows (where `s = 0` and
`Hs = 0`) -/
theorem zeroConeRows_affine : ∀ (cones : List (ConeSt ℝ)) (s z x : List ℝ), NTCones cones s z →
    ConesFull cones → x.length = numelAll cones →
    ZeroConeRows cones (List.zipWith (fun h si => -1 * si + -1 * h) (mulHsL cones x) s)
  | [], _, _, _, _, _, _ => trivial
  | c :: cs, s, z, x, h, hc, hx => by
    rw [numelAll_cons] at hx
    have hx1 : (x.take c.numel).length = c.numel := by rw [List.length_take]; omega
    have hl : (hs1L c (x.take c.numel)).length = c.numel := hs1L_length c hc.head _ hx1
    refine ⟨?_, ?_⟩
    · intro n hn v hv
      subst hn
      rw [mulHsL, List.take_zipWith, List.take_left' hl] at hv
      rw [List.mem_iff_getElem] at hv
      obtain ⟨i, hi, rfl⟩ := hv
      rw [List.getElem_zipWith]
      have hi2 : i < (s.take (ConeSt.zero n : ConeSt ℝ).numel).length := by
        simp only [List.length_zipWith] at hi; omega
      have h0 : (s.take (ConeSt.zero n : ConeSt ℝ).numel)[i] = 0 := h.1.2.2 _ (List.getElem_mem hi2)
      have h1 : (hs1L (ConeSt.zero n) (x.take (ConeSt.zero n : ConeSt ℝ).numel))[i]'(by
          simp only [List.length_zipWith] at hi; omega) = 0 := by
        simp [hs1L]
      rw [h0, h1]; ring
    · rw [mulHsL, List.drop_zipWith, List.drop_left' hl]
      exact zeroConeRows_affine cs _ _ _ h.2 hc.tail (by rw [List.length_drop]; omega)

/-! ## the affine step of a pass -/

/-- **`(Δsᵃ, Δzᵃ)` is the affine (predictor) step of the accepted pass `L → L'` and `mcorr` its
Mehrotra factor**: there are the residuals `res` of the old iterate (`topNumerics`), the refactored
KKT system `kk1` (`kktsystem.update` with the rescaled cones `L'.S.cones`), the affine right-hand
side `rhsA` (`affine_step_rhs`) and the result `lhsA` of the affine `solve` such that
`Δsᵃ = lhsA.s`, `Δzᵃ = lhsA.z`; the affine step length `aAff` of `lhsA` gives the pass's
`σ = (1 − aAff)³` and `mcorr = mehrotraM(iter + 1, aAff)`; `combined_step_rhs` applied to these
produced the right-hand side retained in `L'.S.stepRhs`; and `Δsᵃ = −s − Hs Δzᵃ` (the `Δs` row of
the affine system, `Δs_const = s`). -/
def PassAffineStep (st : Settings ℝ) (L L' : LoopSt ℝ) (m : ℕ) (dsA dzA : Fin m → ℝ) (mcorr : ℝ) : Prop :=
  ∃ (res : Resid ℝ) (info1 : Info.InfoS ℝ) (kk1 kk2 : KktSys ℝ) (rhsA lhsA lhsA' : Vars ℝ) (aAff : ℝ),
    topNumerics L.S L.iter = .ok (res, L'.mu, info1)
    ∧ L.S.kktsystem.update L.S.data L'.S.cones st.lin = .ok (true, kk1)
    ∧ affineStepRhs L.S.stepRhs res L.S.variables L'.S.cones = .ok rhsA
    ∧ kk1.solve L.S.stepLhs rhsA L.S.data L.S.variables L'.S.cones .affine st.lin = .ok (true, lhsA, kk2)
    ∧ calcStepLength L.S.variables lhsA L'.S.cones st.maxValue st.maxStepFraction .affine = .ok aAff
    ∧ L'.sigma = Step.centeringParameter aAff
    ∧ mcorr = Step.mehrotraM (L.iter + 1) aAff
    ∧ combinedStepRhs rhsA res L.S.variables L'.S.cones lhsA L'.sigma L'.mu mcorr
        = .ok (L'.S.stepRhs, lhsA')
    ∧ dsA = toFn lhsA.s m ∧ dzA = toFn lhsA.z m
    ∧ dsA = -toFn L.S.variables.s m - hsMat L'.S.cones m *ᵥ dzA

/-! ## the composition -/

/-- everything the `μ`-update theorems need from an accepted pass at an interior iterate -/
theorem pass_mu_core {st : Settings ℝ} {L L' : LoopSt ℝ} {n m : ℕ} (hS : PassShape L.S n m)
    (hp : pass st L = .ok (true, L'))
    (hint : ConesInterior L.S.cones L.S.variables.s.toList L.S.variables.z.toList) :
    -- (b)
    hsMat L'.S.cones m *ᵥ toFn L.S.variables.z m = toFn L.S.variables.s m
    -- (c)
    ∧ toFn L.S.variables.z m ⬝ᵥ toFn L'.S.kktsystem.workConic m
        = coneIdFn L'.S.cones m ⬝ᵥ toFn L'.S.stepRhs.s m
    -- the `Δs` row of the combined solve
    ∧ toFn L'.S.stepLhs.s m = -toFn L'.S.kktsystem.workConic m - hsMat L'.S.cones m *ᵥ toFn L'.S.stepLhs.z m
    -- the right-hand side
    ∧ ∃ (dsA dzA : Fin m → ℝ) (mcorr : ℝ), PassAffineStep st L L' m dsA dzA mcorr
        ∧ coneIdFn L'.S.cones m ⬝ᵥ toFn L'.S.stepRhs.s m
          = toFn L.S.variables.s m ⬝ᵥ toFn L.S.variables.z m + mcorr * (dsA ⬝ᵥ dzA)
            - (degreeAll L.S.cones : ℝ) * (L'.sigma * L'.mu) := by
  obtain ⟨res, info1, kk1, kk2, rhsA, lhsA, lhsA', aAff, htop, hscale, hupd, hrA, hsA, haA, hσ, hrC, hsC⟩ :=
    pass_mu_inv hp
  obtain ⟨res', ys, an⟩ := pass_step_anatomy hS hp
  -- the scaled cones
  obtain ⟨nt, cf, cn, cd⟩ := ntCones_of_update hS.cones (by rw [hS.numel]; exact hS.vs)
    (by rw [hS.numel]; exact hS.vz) hint hscale
  have cm : numelAll L'.S.cones = m := cn.trans hS.numel
  have hsl : L.S.variables.s.toList.length = numelAll L'.S.cones := by
    rw [Array.length_toList, cm]; exact hS.vs
  have hzl : L.S.variables.z.toList.length = numelAll L'.S.cones := by
    rw [Array.length_toList, cm]; exact hS.vz
  -- residual sizes
  obtain ⟨_, r1, r2, _⟩ := topNumerics_dense L.S L.iter n m res L'.mu info1
    hS.canP hS.canA hS.Pn hS.Pm hS.An hS.Am hS.q hS.b hS.vx hS.vs hS.vz hS.rPx hS.rrx hS.rrz hS.rrxi
    hS.rrzi htop
  -- the affine right-hand side and solve
  obtain ⟨ax, az, aτ, aκ, hads, _, _⟩ := affineStepRhs_inv hrA
  obtain ⟨s1, s2, s3, s4, s5, s6, s7, s8, s9⟩ := KktSys.solve_sizes hsA hS.vx hS.lx hS.lz
    (by rw [az]; exact r2)
  obtain ⟨dsA0, hsAff, hdA, _, _, _, _, _, _, _, _, _, _, _, _, _, _, _, hhsA, _, _, _, hmulA, hlsA, _⟩ :=
    KktSys.solve_inv hsA
  obtain ⟨hdA1, _⟩ := hdA rfl
  subst hdA1
  have hhsAs : hsAff.size = m := by rw [hhsA]; exact hS.vs
  have hmulA' := hmulA
  rw [mulHs_eq_list cf L.S.stepLhs.s lhsA.z (by rw [cm, ← mulHs_size cf.ok hmulA]; exact hhsAs)
    (by rw [cm]; exact s8)] at hmulA'
  have hhsAe : hsAff = (mulHsL L'.S.cones lhsA.z.toList).toArray := (Except.ok.inj hmulA').symm
  -- the combined right-hand side
  obtain ⟨_, _, _, _, cx, _, _, shift, stepz0, stepz, steps, hrz, hrzs, hz0, hsh, hrs, hshs, hsz, hss⟩ :=
    combinedStepRhs_inv hrC
  have hshift : shift.size = m := by rw [← hrzs]; exact r2
  have hrAs : rhsA.s.size = m := by rw [← hshs]; exact hshift
  have hrCs : L'.S.stepRhs.s.size = m := by rw [hrs]; exact Lemmas.axpby_size _ _ _ _ hshift hrAs
  have hold : L.S.stepRhs.s.size = m := by rw [← affineDs_size hads]; exact hrAs
  have hrAz : rhsA.z.size = m := by rw [az]; exact r2
  have hz0s : stepz0.size = m := by
    rw [hz0]; split
    · unfold Vec.scale; rw [Array.size_map]; exact s8
    · exact s8
  -- the combined solve
  obtain ⟨dsC, hsC', _, hdC, hwc, _, _, _, _, _, _, _, _, _, _, _, _, _, hhsC, _, _, _, hmulC, hlsC, _⟩ :=
    KktSys.solve_inv hsC
  have hoff := hdC rfl
  rw [dsFromDzOffset_eq_list cf kk2.workConic L'.S.stepRhs.s L.S.variables.z (by rw [cm]; exact s5)
    (by rw [cm]; exact hrCs) (by rw [cm]; exact hS.vz)] at hoff
  have hdCe : dsC = (offL L'.S.cones L'.S.stepRhs.s.toList L.S.variables.z.toList).toArray :=
    (Except.ok.inj hoff).symm
  have hdCs : dsC.size = m := by rw [← hwc]; exact an.wc
  have hhsCs : hsC'.size = m := by rw [hhsC]; exact hdCs
  -- (b)
  have hb : hsMat L'.S.cones m *ᵥ toFn L.S.variables.z m = toFn L.S.variables.s m := by
    obtain ⟨r, hr, -, hrv⟩ := mulHs_hsMat cf cm L.S.variables.z L.S.variables.z hS.vz hS.vz
    rw [mulHs_eq_list cf _ _ (by rw [cm]; exact hS.vz) (by rw [cm]; exact hS.vz),
      mulHsL_nt _ _ _ nt hsl] at hr
    have : r = L.S.variables.s := by
      rw [← Except.ok.inj hr, Array.toArray_toList]
    rw [← hrv, this]
  -- (c)
  have hcdot : toFn L.S.variables.z m ⬝ᵥ toFn L'.S.kktsystem.workConic m
      = coneIdFn L'.S.cones m ⬝ᵥ toFn L'.S.stepRhs.s m := by
    rw [dot_toFn_list _ _ hS.vz an.wc, hwc, hdCe, coneIdFn_dot cf cm _ hrCs]
    exact offL_dot _ _ _ _ nt cf hzl (by rw [Array.length_toList, cm]; exact hrCs)
  -- the `Δs` row of the combined solve
  have hrow : toFn L'.S.stepLhs.s m
      = -toFn L'.S.kktsystem.workConic m - hsMat L'.S.cones m *ᵥ toFn L'.S.stepLhs.z m := by
    obtain ⟨r, hr, -, hrv⟩ := mulHs_hsMat cf cm lhsA'.s L'.S.stepLhs.z
      (by rw [← mulHs_size cf.ok hmulC]; exact hhsCs) an.lhs_z
    rw [hmulC] at hr
    rw [← Except.ok.inj hr] at hrv
    rw [hlsC, toFn_axpby _ _ _ _ hdCs hhsCs, hrv, hwc]
    funext i
    simp only [Pi.add_apply, Pi.smul_apply, Pi.sub_apply, Pi.neg_apply, smul_eq_mul]
    ring
  refine ⟨hb, hcdot, hrow, toFn lhsA.s m, toFn lhsA.z m, Step.mehrotraM (L.iter + 1) aAff, ?_, ?_⟩
  · -- the affine step
    refine ⟨res, info1, kk1, kk2, rhsA, lhsA, lhsA', aAff, htop, hupd, hrA, hsA, haA, hσ, rfl, hrC, rfl, rfl, ?_⟩
    obtain ⟨r, hr, -, hrv⟩ := mulHs_hsMat cf cm L.S.stepLhs.s lhsA.z
      (by rw [← mulHs_size cf.ok hmulA]; exact hhsAs) s8
    rw [hmulA] at hr
    rw [← Except.ok.inj hr] at hrv
    rw [hlsA, toFn_axpby _ _ _ _ hS.vs hhsAs, hrv]
    funext i
    simp only [Pi.add_apply, Pi.smul_apply, Pi.sub_apply, Pi.neg_apply, smul_eq_mul]
    ring
  · -- the right-hand side
    -- `rhs.s = shift + affine_ds`
    have hsplit : coneIdFn L'.S.cones m ⬝ᵥ toFn L'.S.stepRhs.s m
        = coneIdFn L'.S.cones m ⬝ᵥ toFn shift m + coneIdFn L'.S.cones m ⬝ᵥ toFn rhsA.s m := by
      rw [hrs, toFn_axpby _ _ _ _ hshift hrAs, one_smul, one_smul, dotProduct_add]
    -- the shift
    obtain ⟨rr, hrr, hrr1⟩ := combinedDsShift_eq_list cf rhsA.z stepz0 lhsA.s (L'.sigma * L'.mu)
      (by rw [cm]; exact hrAz) (by rw [cm]; exact hz0s) (by rw [cm]; exact s9)
    rw [hsh] at hrr
    have hshe : shift = (shiftL L'.S.cones stepz0.toList lhsA.s.toList (L'.sigma * L'.mu)).toArray := by
      rw [← hrr1, ← Except.ok.inj hrr]
    have hzr : ZeroConeRows L'.S.cones lhsA.s.toList := by
      rw [hlsA, axpby_toList, hhsAe]
      exact zeroConeRows_affine _ _ _ _ nt cf (by rw [Array.length_toList, cm]; exact s8)
    have hshdot : coneIdFn L'.S.cones m ⬝ᵥ toFn shift m
        = hsDotL lhsA.s.toList stepz0.toList - (degreeAll L'.S.cones : ℝ) * (L'.sigma * L'.mu) := by
      rw [coneIdFn_dot cf cm _ hshift, hshe]
      exact shiftL_dot _ _ _ _ _ _ nt cf (by rw [Array.length_toList, cm]; exact hz0s)
        (by rw [Array.length_toList, cm]; exact s9) hzr
    have hz0dot : hsDotL lhsA.s.toList stepz0.toList
        = Step.mehrotraM (L.iter + 1) aAff * (toFn lhsA.s m ⬝ᵥ toFn lhsA.z m) := by
      rw [dot_toFn_list _ _ s9 s8, hz0]
      split
      · unfold Vec.scale
        rw [Array.toList_map, hsDotL_map_mul_right]
      · rename_i hne
        have h1 : Step.mehrotraM (L.iter + 1) aAff = 1 := by
          rw [LawfulFloatLike.isNaN_eq] at hne
          simp only [Bool.false_eq_true, or_false, not_or, not_lt] at hne
          exact le_antisymm hne.2 hne.1
        rw [h1, one_mul]
    -- the affine part
    have hads' := hads
    rw [affineDs_eq_list cf _ (by rw [cm]; exact hold)] at hads'
    have hadot : coneIdFn L'.S.cones m ⬝ᵥ toFn rhsA.s m
        = toFn L.S.variables.s m ⬝ᵥ toFn L.S.variables.z m := by
      rw [coneIdFn_dot cf cm _ hrAs, ← Except.ok.inj hads', dot_toFn_list _ _ hS.vs hS.vz]
      exact adsL_dot _ _ _ nt cf hsl hzl
    rw [hsplit, hshdot, hz0dot, hadot, cd]
    ring

/-- **`Hs z = s` after the pass's `update_scaling`** -/
theorem pass_Hs_z_eq_s {st : Settings ℝ} {L L' : LoopSt ℝ} {n m : ℕ} (hS : PassShape L.S n m)
    (hp : pass st L = .ok (true, L'))
    (hint : ConesInterior L.S.cones L.S.variables.s.toList L.S.variables.z.toList) :
    hsMat L'.S.cones m *ᵥ toFn L.S.variables.z m = toFn L.S.variables.s m :=
  (pass_mu_core hS hp hint).1

/-- **`z · Δs_from_Δz_offset(rhs.s, z) = ⟨e, rhs.s⟩`** for the `Δs_const_term` of the combined solve -/
theorem pass_offset_dot {st : Settings ℝ} {L L' : LoopSt ℝ} {n m : ℕ} (hS : PassShape L.S n m)
    (hp : pass st L = .ok (true, L'))
    (hint : ConesInterior L.S.cones L.S.variables.s.toList L.S.variables.z.toList) :
    toFn L.S.variables.z m ⬝ᵥ toFn L'.S.kktsystem.workConic m
      = coneIdFn L'.S.cones m ⬝ᵥ toFn L'.S.stepRhs.s m :=
  (pass_mu_core hS hp hint).2.1

/-- the `Δs` row of the combined solve: `Δs = −Δs_const − Hs Δz`, computed by `solve` itself -/
theorem pass_ds_row {st : Settings ℝ} {L L' : LoopSt ℝ} {n m : ℕ} (hS : PassShape L.S n m)
    (hp : pass st L = .ok (true, L'))
    (hint : ConesInterior L.S.cones L.S.variables.s.toList L.S.variables.z.toList) :
    toFn L'.S.stepLhs.s m
      = -toFn L'.S.kktsystem.workConic m - hsMat L'.S.cones m *ᵥ toFn L'.S.stepLhs.z m :=
  (pass_mu_core hS hp hint).2.2.1

/-- **aggregated complementarity of the combined step in retained-state form**:
`s·Δz + z·Δs = −⟨e, rhs.s⟩` -/
theorem pass_complementarity_retained {st : Settings ℝ} {L L' : LoopSt ℝ} {n m : ℕ}
    (hS : PassShape L.S n m) (hp : pass st L = .ok (true, L'))
    (hint : ConesInterior L.S.cones L.S.variables.s.toList L.S.variables.z.toList) :
    toFn L.S.variables.s m ⬝ᵥ toFn L'.S.stepLhs.z m + toFn L.S.variables.z m ⬝ᵥ toFn L'.S.stepLhs.s m
      = -(coneIdFn L'.S.cones m ⬝ᵥ toFn L'.S.stepRhs.s m) := by
  obtain ⟨hb, hc, hrow, -⟩ := pass_mu_core hS hp hint
  obtain ⟨res, ys, an⟩ := pass_step_anatomy hS hp
  have hsym : toFn L.S.variables.z m ⬝ᵥ (hsMat L'.S.cones m *ᵥ toFn L'.S.stepLhs.z m)
      = toFn L.S.variables.s m ⬝ᵥ toFn L'.S.stepLhs.z m := by
    rw [Matrix.dotProduct_mulVec, ← hb]
    congr 1
    conv_lhs => rw [← hsMat_transpose an.conesFull an.numel]
    exact Matrix.vecMul_transpose _ _
  rw [hrow, dotProduct_sub, dotProduct_neg, hc, hsym]
  ring

/-- **the right-hand side of the combined step**: `⟨e, rhs.s⟩ = s·z + m·Δsᵃ·Δzᵃ − ν σμ` -/
theorem pass_rhs_identity {st : Settings ℝ} {L L' : LoopSt ℝ} {n m : ℕ} (hS : PassShape L.S n m)
    (hp : pass st L = .ok (true, L'))
    (hint : ConesInterior L.S.cones L.S.variables.s.toList L.S.variables.z.toList) :
    ∃ (dsA dzA : Fin m → ℝ) (mcorr : ℝ), PassAffineStep st L L' m dsA dzA mcorr
      ∧ coneIdFn L'.S.cones m ⬝ᵥ toFn L'.S.stepRhs.s m
        = toFn L.S.variables.s m ⬝ᵥ toFn L.S.variables.z m + mcorr * (dsA ⬝ᵥ dzA)
          - (degreeAll L.S.cones : ℝ) * (L'.sigma * L'.mu) :=
  (pass_mu_core hS hp hint).2.2.2

/-- **aggregated linearised complementarity of the combined step of an accepted pass** (`hagg` of
`C06.pass_mu_update_partial` with `C = m·Δsᵃ·Δzᵃ`) -/
theorem pass_complementarity_aggregated {st : Settings ℝ} {L L' : LoopSt ℝ} {n m : ℕ}
    (hS : PassShape L.S n m) (hp : pass st L = .ok (true, L'))
    (hint : ConesInterior L.S.cones L.S.variables.s.toList L.S.variables.z.toList) :
    ∃ (dsA dzA : Fin m → ℝ) (mcorr : ℝ), PassAffineStep st L L' m dsA dzA mcorr
      ∧ toFn L.S.variables.s m ⬝ᵥ toFn L'.S.stepLhs.z m + toFn L.S.variables.z m ⬝ᵥ toFn L'.S.stepLhs.s m
        = -(toFn L.S.variables.s m ⬝ᵥ toFn L.S.variables.z m + mcorr * (dsA ⬝ᵥ dzA)
            - (degreeAll L.S.cones : ℝ) * (L'.sigma * L'.mu)) := by
  obtain ⟨dsA, dzA, mcorr, haff, hid⟩ := pass_rhs_identity hS hp hint
  refine ⟨dsA, dzA, mcorr, haff, ?_⟩
  rw [pass_complementarity_retained hS hp hint, hid]

/-- **the cones an accepted pass leaves are the Nesterov–Todd scalings at the iterate it started
from**: `L'.S.cones` is the result of `update_scaling` of `L.S.cones` at `(s, z)`, and cone by cone
its state is `NTBlock` (nonnegative: `w = √(s/z)`, `λ = √(s·z)`; second-order: normalised `w`,
`W z = λ = W⁻¹ s`, `(WᵀW) z = s`) -/
theorem pass_ntCones {st : Settings ℝ} {L L' : LoopSt ℝ} {n m : ℕ} (hS : PassShape L.S n m)
    (hp : pass st L = .ok (true, L'))
    (hint : ConesInterior L.S.cones L.S.variables.s.toList L.S.variables.z.toList) :
    updateScaling L.S.cones L.S.variables.s L.S.variables.z = .ok (true, L'.S.cones)
      ∧ NTCones L'.S.cones L.S.variables.s.toList L.S.variables.z.toList := by
  obtain ⟨res, info1, kk1, kk2, rhsA, lhsA, lhsA', aAff, htop, hscale, -⟩ := pass_mu_inv hp
  exact ⟨hscale, (ntCones_of_update hS.cones (by rw [hS.numel]; exact hS.vs)
    (by rw [hS.numel]; exact hS.vz) hint hscale).1⟩

end Clarabel.Solver
