/-
  Packed symmetric 3×3 (C14): the explicit Cholesky factor/solve pair solves `A x = b`.
-/
import ClarabelModel.Cones.Dense3
import ClarabelProofs.Lemmas.ScalarInst
namespace Clarabel.Sym3
open Clarabel

/-- [F] if the explicit 3×3 Cholesky factorisation succeeds, the explicit solve returns the
solution of `A x = b` -/
theorem cholesky_solve_correct (A L : Sym3 ℝ) (b : V3 ℝ) (h : choleskyFactor A = (true, L)) :
    A.mul (choleskySolve L b) = b := by
  obtain ⟨a0, a1, a2, a3, a4, a5⟩ := A
  obtain ⟨b0, b1, b2⟩ := b
  unfold choleskyFactor at h
  simp only [zeros, real_sqrt_eq] at h
  split at h
  · simp at h
  rename_i h0
  split at h
  · simp at h
  rename_i h1
  split at h
  · simp at h
  rename_i h2
  simp only [Prod.mk.injEq, true_and] at h
  rw [not_le] at h0 h1 h2
  subst h
  have s0 := Real.sqrt_pos.mpr h0
  have q0 := Real.mul_self_sqrt h0.le
  have s1 := Real.sqrt_pos.mpr h1
  have q1 := Real.mul_self_sqrt h1.le
  have s2 := Real.sqrt_pos.mpr h2
  have q2 := Real.mul_self_sqrt h2.le
  generalize Real.sqrt a0 = l00 at *
  set l10 := a1 / l00 with hl10
  generalize Real.sqrt (a2 - l10 * l10) = l11 at *
  set l20 := a3 / l00 with hl20
  set l21 := (a4 - l10 * l20) / l11 with hl21
  generalize Real.sqrt (a5 - l20 * l20 - l21 * l21) = l22 at *
  have n0 : l00 ≠ 0 := ne_of_gt s0
  have n1 : l11 ≠ 0 := ne_of_gt s1
  have n2 : l22 ≠ 0 := ne_of_gt s2
  have e0 : a0 = l00 * l00 := q0.symm
  have e1 : a1 = l10 * l00 := by rw [hl10]; field_simp
  have e2 : a2 = l11 * l11 + l10 * l10 := by linarith
  have e3 : a3 = l20 * l00 := by rw [hl20]; field_simp
  have e4 : a4 = l21 * l11 + l10 * l20 := by rw [hl21]; field_simp; ring
  have e5 : a5 = l22 * l22 + l20 * l20 + l21 * l21 := by linarith
  clear_value l10 l20 l21
  subst e0 e1 e2 e3 e4 e5
  simp only [choleskySolve, mul, Prod.mk.injEq]
  refine ⟨?_, ?_, ?_⟩ <;> field_simp <;> ring

end Clarabel.Sym3
