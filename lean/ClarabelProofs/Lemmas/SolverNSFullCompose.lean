/-
  Composition on the whole-solver model WITH NONSYMMETRIC CONES (`ClarabelModel/SolverNS/*.lean`:
  zero / nonnegative / second-order / exponential / power / generalised power cones, the
  `PrimalDual → Dual` strategy switch, barrier backtracking) — the END-TO-END theorems, lemma form.
  Counterpart of `Lemmas/SolverFullCompose.lean`.

  Pieces composed:
  * `solverNew_anatomyN` / `SizedN` (`SolverNSFullNew.lean`): what `DefaultSolver::new` builds;
  * `solve_traj_invN` (`SolverNSFullTraj.lean`): every recorded iterate of a `solve()` satisfies an
    invariant `G` preserved by accepted steps (`StepHypN`) and established by `default_start`
    (`InitHypN`), and is the `topNumerics` image of a sized state (`SRecN`);
  * `solve_returnedN` (`SolverNSFullRet.lean`) and `Returned.*_verdict` (`SolverNSFullVerdict.lean`):
    whose record is reported / judged — the last pass's, or after the insufficient-progress rollback
    the record of the last pass that reached `add_step`;
  * the chains on the user's data, SHARED with the first model because `Residuals.update`,
    `Info.update`, `check_convergence`, `unscale`, `equilibrate`, `DefaultProblemData::new` are the
    same functions in both models: `chain_figures`, `solved_chain`, `test_chain`,
    `primal_infeasible_chain`, `dual_infeasible_chain`, `userData_of_new`,
    `InfoCone.unscaled_point_in_cones` (all seven cone kinds), `Info.rollback_never_infeasible`;
  * the invariant `G` is a parameter here; `Props/C0xNS.lean` instantiate it with the interior of the
    cone (`InteriorN`, from C07's StepK theorems: `SolverNSBridge{Step,Init,Mem}.lean`) and `s = 0` on
    the zero-cone rows (`SolverNSFullZero.lean`).

  Hypotheses: `FullInputN` (about the user's input and settings only), `Solver.new … = .ok S`,
  `S.solve st = .ok r` and the reported status.
-/
import ClarabelProofs.Lemmas.SolverNSFullRet
import ClarabelProofs.Lemmas.SolverNSFullVerdict
import ClarabelProofs.Lemmas.SolverNSFullTraj
import ClarabelProofs.Lemmas.SolverNSFullNew
import ClarabelProofs.Lemmas.SolverNSBridgeMem
import ClarabelProofs.Lemmas.SolverFullCompose

namespace Clarabel.SolverNS
open Clarabel Info Residuals Clarabel.InfoUser Clarabel.InfoReport Clarabel.Dense
open Clarabel.Solver (InputOK presolveMap equilView)

set_option linter.unusedSectionVars false
set_option linter.unusedVariables false

/-- the hypotheses on the USER's input and settings shared by the `ns_full_*` theorems -/
structure FullInputN (P : Csc ℝ) (q : Array ℝ) (A : Csc ℝ) (b : Array ℝ) (cones : List (ConeT ℝ))
    (st : Settings ℝ) : Prop where
  input : InputOK P q A b cones
  /-- admissible cone parameters: power cone `0 < α < 1`; generalised power cone `αᵢ > 0`, `Σ αᵢ = 1` -/
  valid : Equil.ValidCones cones
  /-- presolve is off, or it is on and drops no row -/
  presolve : st.presolveEnable = false ∨ ∃ keep,
    Presolve.keepFlags (Presolve.threshold st.infbound) (Cones.newCollapsed cones) b.toList = .ok keep
      ∧ keep.count true = b.size
  lo : 0 < st.equil.minScaling
  hi : 0 < st.equil.maxScaling

/-- everything the `ns_full_*` theorems know about a `new` + `solve()`: the un-equilibrated data `d0`
hold the user's `A`, `q`, capped `b`, `P.to_triu()`; they satisfy `UserData`; the cone layout of the
solver object is the collapsed cone list; every recorded iterate satisfies `G` and is an instance of
the chain on the user's data -/
theorem full_recordsN {P : Csc ℝ} {q : Array ℝ} {A : Csc ℝ} {b : Array ℝ} {cones : List (ConeT ℝ)}
    {st : Settings ℝ} {perm : Array Nat} {S : Solver ℝ} {r : SolveResult ℝ}
    {G : List (ConeT ℝ) → Vars ℝ → Prop} (hG : StepHypN st G)
    (hI : ∀ S0 : SolverSt ℝ, SizedN S0 → Equil.ValidCones (layoutN S0) → InitHypN st S0 G)
    (hF : FullInputN P q A b cones st)
    (hnew : Solver.new P q A b cones st perm = .ok S) (hr : S.solve st = .ok r) :
    ∃ d0, NewAnatomyN P q A b cones st S d0 ∧ UserData d0 d0.cones st.equil
      ∧ (d0.A = A ∧ d0.q = q ∧ d0.b = ProblemData.capB b st.infbound
          ∧ d0.cones = Cones.newCollapsed cones ∧ d0.n = A.n ∧ d0.m = A.m
          ∧ ProblemData.triuStep P = .ok d0.P)
      ∧ presolveMap S.st.data = none
      ∧ layoutN S.st = d0.cones ∧ Equil.ValidCones d0.cones
      ∧ ∀ p ∈ r.traj, G d0.cones p.vars ∧
          ∃ (r0 res : Resid ℝ) (i : InfoS ℝ), StateShapes d0.n d0.m p.vars r0
            ∧ Residuals.update r0 p.vars (toResidData S.st.data) = .ok res
            ∧ Info.update i (toInfoEquil S.st.data.equilibration) (Vec.normInf q) (Vec.normInf d0.b)
                p.vars res = .ok p.info
            ∧ p.dotBz = res.dot_bz ∧ p.dotQx = res.dot_qx := by
  obtain ⟨d0, hA⟩ := solverNew_anatomyN hnew
  have hp : ProblemData.new P q A b cones false false st.infbound = .ok d0 := by
    have h0 := hA.pdata
    cases hpe : st.presolveEnable with
    | false => rwa [hpe] at h0
    | true =>
      rw [hpe] at h0
      rcases hF.presolve with h | ⟨keep, hk, hc⟩
      · rw [hpe] at h; cases h
      · exact (Presolve.problemdata_new_nothing_dropped P q A b cones st.infbound keep d0 hk hc h0).2
  obtain ⟨o1, o2, o3, o4, o5, o6, o7, o8⟩ := Solver.problemDataNew_off hp
  obtain ⟨hu, -⟩ := Solver.userData_of_new hF.input st.equil hF.lo hF.hi hA.pdata
  have hlay : layoutN S.st = d0.cones := makeCones_typ hA.cones
  have hval : Equil.ValidCones d0.cones := by rw [o4]; exact validCones_newCollapsed hF.valid
  have hS : SizedN S.st := SizedN.of_anatomy hA
  have hrec := solve_traj_invN hG
    (hI (resetInfo S.st) (SizedN.resetInfo hS) (by rw [layoutN_resetInfo, hlay]; exact hval)) hS hr
  have hpm : presolveMap S.st.data = none := by
    unfold presolveMap
    rw [Solver.equilibrate_presolver hA.equil, o7]
  refine ⟨d0, hA, hu, ⟨o1, o2, o3, o4, o5, o6, o8⟩, hpm, hlay, hval, fun p hp => ?_⟩
  obtain ⟨g, hs⟩ := hrec p hp
  rw [hlay] at g
  exact ⟨g, srec_chainN hA hs⟩

/-- **`C03.ns_full_report_on_user_data`** (lemma form, generic in the invariant `G` that supplies
`τ > 0`) -/
theorem full_report_chainN {P : Csc ℝ} {q : Array ℝ} {A : Csc ℝ} {b : Array ℝ} {cones : List (ConeT ℝ)}
    {st : Settings ℝ} {perm : Array Nat} {S : Solver ℝ} {r : SolveResult ℝ}
    {G : List (ConeT ℝ) → Vars ℝ → Prop} (hG : StepHypN st G)
    (hI : ∀ S0 : SolverSt ℝ, SizedN S0 → Equil.ValidCones (layoutN S0) → InitHypN st S0 G)
    (hpos : ∀ l v, G l v → 0 < v.τ)
    (hF : FullInputN P q A b cones st)
    (hnew : Solver.new P q A b cones st perm = .ok S) (hr : S.solve st = .ok r)
    (hst : r.S.solution.status.isInfeasible = false) :
    ∃ Pn, ProblemData.triuStep P = .ok Pn ∧
      let bc := ProblemData.capB b st.infbound
      let p := problemOf Pn q A bc A.n A.m
      let x := vecFn r.S.solution.x A.n
      let sv := vecFn r.S.solution.s A.m
      let z := vecFn r.S.solution.z A.m
      let pobj := dot x (mulV p.P x) / 2 + dot p.q x
      let dobj := -dot p.b z - dot x (mulV p.P x) / 2
      r.S.solution.obj_val = some pobj
      ∧ r.S.solution.obj_val_dual = some dobj
      ∧ r.S.solution.r_prim
          = some (nrm (fun k => mulV p.A x k + sv k - p.b k) / max 1 (Vec.normInf bc + nrm x + nrm sv))
      ∧ r.S.solution.r_dual
          = some (nrm (fun j => mulV p.P x j + mulVT p.A z j + p.q j) / max 1 (Vec.normInf q + nrm x + nrm z))
      ∧ r.S.st.info.gap_abs = |pobj - dobj|
      ∧ r.S.st.info.gap_rel = |pobj - dobj| / max 1 (min |pobj| |dobj|)
      ∧ r.S.solution.x.size = A.n ∧ r.S.solution.s.size = A.m ∧ r.S.solution.z.size = A.m := by
  obtain ⟨d0, hA, hu, ⟨o1, o2, o3, o4, o5, o6, o8⟩, hpm, -, -, hrec⟩ := full_recordsN hG hI hF hnew hr
  obtain ⟨p, l, hR⟩ := solve_returnedN hr
  have hinf : r.S.st.info.status.isInfeasible = false := by rw [← hR.status]; exact hst
  have hvars := hR.vars
  have ov := hR.objv
  have od := hR.objd
  rw [hinf] at hvars ov od
  simp only [Bool.false_eq_true, ↓reduceIte] at ov od
  obtain ⟨sx, ss, sz⟩ := hR.sol hpm
  obtain ⟨g, r0, res, i, hsh, hres, hi, -, -⟩ := hrec p hR.mem
  have hτ := hpos _ _ g
  have hvars' : r.S.st.variables = Unscale.unscale p.vars (toInfoEquil S.st.data.equilibration) false := hvars
  obtain ⟨k1, k2, k3, k4, k5, k6, s1, s2, s3⟩ :=
    chain_figures d0 S.st.data d0.cones st.equil hu hA.equil p.vars r0 res hsh hτ hres i p.info
      (Vec.normInf q) (Vec.normInf d0.b) hi (vecFn r.S.solution.x d0.n) (vecFn r.S.solution.s d0.m)
      (vecFn r.S.solution.z d0.m) (by rw [sx, hvars']) (by rw [ss, hvars'])
      (by rw [sz, hvars'])
  have e1 : r.S.solution.x.size = d0.n := by rw [sx, hvars']; exact s1
  have e2 : r.S.solution.s.size = d0.m := by rw [ss, hvars']; exact s2
  have e3 : r.S.solution.z.size = d0.m := by rw [sz, hvars']; exact s3
  have hfig := hR.figs
  have rp := hR.rprim
  have rd := hR.rdual
  obtain ⟨dP, dq, dA, db, dcones, dn, dm, deq, dnq, dnb, dpre⟩ := d0
  dsimp only at o1 o2 o3 o4 o5 o6 o8 k1 k2 k3 k4 k5 k6 e1 e2 e3
  subst o1 o2 o3 o5 o6
  refine ⟨dP, o8, ?_⟩
  dsimp only
  refine ⟨?_, ?_, ?_, ?_, ?_, ?_, e1, e2, e3⟩
  · rw [ov, k1]
  · rw [od, k2]
  · rw [rp, k3]
  · rw [rd, k4]
  · rw [hfig.ga, k5, k1, k2]
  · rw [hfig.gr, k6, k5, k1, k2]

/-- **`C01.ns_full_solved_certifies`** (lemma form, generic in the invariant `G` that supplies
`τ > 0` and the cone membership of the internal iterate) -/
theorem full_solved_chainN {P : Csc ℝ} {q : Array ℝ} {A : Csc ℝ} {b : Array ℝ} {cones : List (ConeT ℝ)}
    {st : Settings ℝ} {perm : Array Nat} {S : Solver ℝ} {r : SolveResult ℝ}
    {G : List (ConeT ℝ) → Vars ℝ → Prop} (hG : StepHypN st G)
    (hI : ∀ S0 : SolverSt ℝ, SizedN S0 → Equil.ValidCones (layoutN S0) → InitHypN st S0 G)
    (hpos : ∀ l v, G l v → 0 < v.τ)
    (hmem : ∀ (ts : List (ConeT ℝ)) (v : Vars ℝ), G ts v →
      Equil.CompositeMem Equil.ConeMem ts v.s.toList ∧ Equil.CompositeMem Equil.ConeMemDual ts v.z.toList)
    (hF : FullInputN P q A b cones st)
    (hnew : Solver.new P q A b cones st perm = .ok S) (hr : S.solve st = .ok r)
    (hst : r.S.solution.status = .solved) :
    ∃ Pn, ProblemData.triuStep P = .ok Pn ∧
      let bc := ProblemData.capB b st.infbound
      let p := problemOf Pn q A bc A.n A.m
      let x := vecFn r.S.solution.x A.n
      let sv := vecFn r.S.solution.s A.m
      let z := vecFn r.S.solution.z A.m
      let pobj := dot x (mulV p.P x) / 2 + dot p.q x
      let dobj := -dot p.b z - dot x (mulV p.P x) / 2
      nrm (fun k => mulV p.A x k + sv k - p.b k) / max 1 (Vec.normInf bc + nrm x + nrm sv) < st.info.full.feas
      ∧ nrm (fun j => mulV p.P x j + mulVT p.A z j + p.q j) / max 1 (Vec.normInf q + nrm x + nrm z)
          < st.info.full.feas
      ∧ (|pobj - dobj| < st.info.full.gap_abs
          ∨ |pobj - dobj| / max 1 (min |pobj| |dobj|) < st.info.full.gap_rel)
      ∧ Equil.CompositeMem Equil.ConeMem (Cones.newCollapsed cones) r.S.solution.s.toList
      ∧ Equil.CompositeMem Equil.ConeMemDual (Cones.newCollapsed cones) r.S.solution.z.toList
      ∧ r.S.solution.x.size = A.n ∧ r.S.solution.s.size = A.m ∧ r.S.solution.z.size = A.m := by
  obtain ⟨d0, hA, hu, ⟨o1, o2, o3, o4, o5, o6, o8⟩, hpm, -, hval, hrec⟩ := full_recordsN hG hI hF hnew hr
  obtain ⟨p, l, hR⟩ := solve_returnedN hr
  obtain ⟨hpl, hcc, hsX⟩ := hR.full_verdict (Or.inl rfl) hst
  subst hpl
  have hvars := hR.vars
  rw [hsX] at hvars
  have hvars' : r.S.st.variables = Unscale.unscale p.vars (toInfoEquil S.st.data.equilibration) false := hvars
  obtain ⟨sx, ss, sz⟩ := hR.sol hpm
  obtain ⟨g, r0, res, i, hsh, hres, hi, hbz, hqx⟩ := hrec p hR.mem
  have hτ := hpos _ _ g
  rw [hbz, hqx] at hcc
  obtain ⟨t1, t2, t3, s1, s2, s3⟩ :=
    solved_chain d0 S.st.data d0.cones st.equil hu hA.equil p.vars r0 res hsh hτ hres i p.info
      (Vec.normInf q) (Vec.normInf d0.b) hi st.info (by rw [hR.lun]; decide) hcc
  obtain ⟨m1, m2⟩ := hmem d0.cones p.vars g
  obtain ⟨c1, c2⟩ := InfoCone.unscaled_point_in_cones d0 S.st.data d0.cones st.equil hF.lo hF.hi hu.fresh
    hval hA.equil p.vars hsh.s hsh.z false (by simpa using hτ) m1 m2
  have ex : (Unscale.unscale p.vars (toInfoEquil S.st.data.equilibration) false).x = r.S.solution.x := by
    rw [sx, hvars']
  have es : (Unscale.unscale p.vars (toInfoEquil S.st.data.equilibration) false).s = r.S.solution.s := by
    rw [ss, hvars']
  have ez : (Unscale.unscale p.vars (toInfoEquil S.st.data.equilibration) false).z = r.S.solution.z := by
    rw [sz, hvars']
  rw [ex, es] at t1
  rw [ex, ez] at t2
  rw [ex, ez] at t3
  rw [ex] at s1
  rw [es] at s2 c1
  rw [ez] at s3 c2
  obtain ⟨dP, dq, dA, db, dcones, dn, dm, deq, dnq, dnb, dpre⟩ := d0
  dsimp only at o1 o2 o3 o4 o5 o6 o8 t1 t2 t3 s1 s2 s3 c1 c2
  subst o1 o2 o3 o4 o5 o6
  exact ⟨dP, o8, t1, t2, t3, c1, c2, s1, s2, s3⟩

/-- **`C01.ns_full_almost_solved_certifies`** (lemma form): status `AlmostSolved` means the REDUCED
documented test on the returned point (also after a rollback: the point and the figures are then
those of the restored iterate), and `s ∈ K`, `z ∈ K*` -/
theorem full_almost_solved_chainN {P : Csc ℝ} {q : Array ℝ} {A : Csc ℝ} {b : Array ℝ}
    {cones : List (ConeT ℝ)} {st : Settings ℝ} {perm : Array Nat} {S : Solver ℝ} {r : SolveResult ℝ}
    {G : List (ConeT ℝ) → Vars ℝ → Prop} (hG : StepHypN st G)
    (hI : ∀ S0 : SolverSt ℝ, SizedN S0 → Equil.ValidCones (layoutN S0) → InitHypN st S0 G)
    (hpos : ∀ l v, G l v → 0 < v.τ)
    (hmem : ∀ (ts : List (ConeT ℝ)) (v : Vars ℝ), G ts v →
      Equil.CompositeMem Equil.ConeMem ts v.s.toList ∧ Equil.CompositeMem Equil.ConeMemDual ts v.z.toList)
    (hF : FullInputN P q A b cones st)
    (hnew : Solver.new P q A b cones st perm = .ok S) (hr : S.solve st = .ok r)
    (hst : r.S.solution.status = .almostSolved) :
    ∃ Pn, ProblemData.triuStep P = .ok Pn ∧
      let bc := ProblemData.capB b st.infbound
      let p := problemOf Pn q A bc A.n A.m
      let x := vecFn r.S.solution.x A.n
      let sv := vecFn r.S.solution.s A.m
      let z := vecFn r.S.solution.z A.m
      let pobj := dot x (mulV p.P x) / 2 + dot p.q x
      let dobj := -dot p.b z - dot x (mulV p.P x) / 2
      nrm (fun k => mulV p.A x k + sv k - p.b k) / max 1 (Vec.normInf bc + nrm x + nrm sv)
          < st.info.reduced.feas
      ∧ nrm (fun j => mulV p.P x j + mulVT p.A z j + p.q j) / max 1 (Vec.normInf q + nrm x + nrm z)
          < st.info.reduced.feas
      ∧ (|pobj - dobj| < st.info.reduced.gap_abs
          ∨ |pobj - dobj| / max 1 (min |pobj| |dobj|) < st.info.reduced.gap_rel)
      ∧ Equil.CompositeMem Equil.ConeMem (Cones.newCollapsed cones) r.S.solution.s.toList
      ∧ Equil.CompositeMem Equil.ConeMemDual (Cones.newCollapsed cones) r.S.solution.z.toList
      ∧ r.S.solution.x.size = A.n ∧ r.S.solution.s.size = A.m ∧ r.S.solution.z.size = A.m := by
  obtain ⟨d0, hA, hu, ⟨o1, o2, o3, o4, o5, o6, o8⟩, hpm, -, hval, hrec⟩ := full_recordsN hG hI hF hnew hr
  obtain ⟨p, l, hR⟩ := solve_returnedN hr
  obtain ⟨hgap, hrp, hrd, hsX⟩ := hR.almost_solved_verdict hst
  have hvars := hR.vars
  rw [hsX] at hvars
  have hvars' : r.S.st.variables = Unscale.unscale p.vars (toInfoEquil S.st.data.equilibration) false := hvars
  obtain ⟨sx, ss, sz⟩ := hR.sol hpm
  obtain ⟨g, r0, res, i, hsh, hres, hi, -, -⟩ := hrec p hR.mem
  have hτ := hpos _ _ g
  obtain ⟨t1, t2, t3⟩ :=
    test_chain d0 S.st.data d0.cones st.equil hu hA.equil p.vars r0 res hsh hτ hres i p.info
      (Vec.normInf q) (Vec.normInf d0.b) hi p.info (SameFigures.rfl' _) st.info.reduced.gap_abs
      st.info.reduced.gap_rel st.info.reduced.feas ⟨hgap, hrp, hrd⟩
  obtain ⟨-, -, -, -, -, -, s1, s2, s3⟩ :=
    chain_figures d0 S.st.data d0.cones st.equil hu hA.equil p.vars r0 res hsh hτ hres i p.info
      (Vec.normInf q) (Vec.normInf d0.b) hi (vecFn r.S.solution.x d0.n) (vecFn r.S.solution.s d0.m)
      (vecFn r.S.solution.z d0.m) (by rw [sx, hvars']) (by rw [ss, hvars'])
      (by rw [sz, hvars'])
  obtain ⟨m1, m2⟩ := hmem d0.cones p.vars g
  obtain ⟨c1, c2⟩ := InfoCone.unscaled_point_in_cones d0 S.st.data d0.cones st.equil hF.lo hF.hi hu.fresh
    hval hA.equil p.vars hsh.s hsh.z false (by simpa using hτ) m1 m2
  have ex : (Unscale.unscale p.vars (toInfoEquil S.st.data.equilibration) false).x = r.S.solution.x := by
    rw [sx, hvars']
  have es : (Unscale.unscale p.vars (toInfoEquil S.st.data.equilibration) false).s = r.S.solution.s := by
    rw [ss, hvars']
  have ez : (Unscale.unscale p.vars (toInfoEquil S.st.data.equilibration) false).z = r.S.solution.z := by
    rw [sz, hvars']
  rw [ex, es] at t1
  rw [ex, ez] at t2
  rw [ex, ez] at t3
  rw [ex] at s1
  rw [es] at c1 s2
  rw [ez] at c2 s3
  obtain ⟨dP, dq, dA, db, dcones, dn, dm, deq, dnq, dnb, dpre⟩ := d0
  dsimp only at o1 o2 o3 o4 o5 o6 o8 t1 t2 t3 c1 c2 s1 s2 s3
  subst o1 o2 o3 o4 o5 o6
  exact ⟨dP, o8, t1, t2, t3, c1, c2, s1, s2, s3⟩

/-! ### infeasibility certificates -/

/-- which record an (`Almost`)`*Infeasible` verdict is judged on: the LAST one, which is the one
returned (for the `Almost*` statuses under the gate `reduced_tol_ktratio ≤ 1000`, which excludes the
rollback path by `Info.rollback_never_infeasible`); `alm = false`: full tolerances -/
theorem infeasible_on_returnedN {S : Solver ℝ} {st : Settings ℝ} {r : SolveResult ℝ}
    (hr : S.solve st = .ok r) (alm : Bool) {X : SolverStatus}
    (hX : if alm then (X = .almostPrimalInfeasible ∨ X = .almostDualInfeasible)
          else (X = .primalInfeasible ∨ X = .dualInfeasible))
    (hgate : alm = true → 1 ≤ (1 / st.info.reduced.ktratio) * 1000)
    (h : r.S.solution.status = X) :
    ∃ l, l ∈ r.traj ∧ l.info.status = .unsolved
      ∧ (Info.checkConvergence l.info l.dotBz l.dotQx (if alm then st.info.reduced else st.info.full)
            (if alm then .almostSolved else .solved)
            (if alm then .almostPrimalInfeasible else .primalInfeasible)
            (if alm then .almostDualInfeasible else .dualInfeasible)).status = X
      ∧ r.S.st.variables = Unscale.unscale l.vars (equilView S.st.data.equilibration) true
      ∧ (presolveMap S.st.data = none →
          r.S.solution.x = r.S.st.variables.x ∧ r.S.solution.s = r.S.st.variables.s
            ∧ r.S.solution.z = r.S.st.variables.z) := by
  obtain ⟨p, l, hR⟩ := solve_returnedN hr
  have hst : r.S.st.info.status = X := by rw [← hR.status]; exact h
  cases alm with
  | false =>
    simp only [Bool.false_eq_true, ↓reduceIte] at hX ⊢
    have hX' : X = .solved ∨ X = .primalInfeasible ∨ X = .dualInfeasible := Or.inr hX
    obtain ⟨hpl, hcc, -⟩ := hR.full_verdict hX' h
    subst hpl
    have hinf : X.isInfeasible = true := by rcases hX with e | e <;> rw [e] <;> rfl
    refine ⟨p, hR.mem, hR.lun, hcc, ?_, hR.sol⟩
    have := hR.vars
    rwa [hst, hinf] at this
  | true =>
    simp only [↓reduceIte] at hX ⊢
    have hinf : X.isInfeasible = true := by rcases hX with e | e <;> rw [e] <;> rfl
    rcases hR.almost_infeasible_verdict hX h with ⟨hpl, hcc⟩ | ⟨k, hip, hpost⟩
    · subst hpl
      refine ⟨p, hR.mem, hR.lun, hcc, ?_, hR.sol⟩
      have := hR.vars
      rwa [hst, hinf] at this
    · obtain ⟨-, n1, n2, -, -⟩ :=
        Info.rollback_never_infeasible l.info l.dotBz l.dotQx st.info k false hR.lun hip
          Solver.real_eps_gate (hgate rfl)
      rcases hX with rfl | rfl
      · exact absurd hpost n1
      · exact absurd hpost n2

/-- **`C02.ns_full_primal_infeasible_certifies`** / **`…_almost_…`** (lemma form; `alm = true`: the
`AlmostPrimalInfeasible` verdict, reduced tolerances, under the gate) -/
theorem full_primal_infeasible_chainN (alm : Bool) {P : Csc ℝ} {q : Array ℝ} {A : Csc ℝ} {b : Array ℝ}
    {cones : List (ConeT ℝ)} {st : Settings ℝ} {perm : Array Nat} {S : Solver ℝ} {r : SolveResult ℝ}
    {G : List (ConeT ℝ) → Vars ℝ → Prop} (hG : StepHypN st G)
    (hI : ∀ S0 : SolverSt ℝ, SizedN S0 → Equil.ValidCones (layoutN S0) → InitHypN st S0 G)
    (hpos : ∀ l v, G l v → 0 < v.κ)
    (hmem : ∀ (ts : List (ConeT ℝ)) (v : Vars ℝ), G ts v →
      Equil.CompositeMem Equil.ConeMem ts v.s.toList ∧ Equil.CompositeMem Equil.ConeMemDual ts v.z.toList)
    (hF : FullInputN P q A b cones st)
    (htabs : 0 ≤ (if alm then st.info.reduced else st.info.full).infeas_abs)
    (hgate : alm = true → 1 ≤ (1 / st.info.reduced.ktratio) * 1000)
    (hnew : Solver.new P q A b cones st perm = .ok S) (hr : S.solve st = .ok r)
    (hst : r.S.solution.status = (if alm then .almostPrimalInfeasible else .primalInfeasible)) :
    ∃ (c κ : ℝ), 0 < c ∧ 0 < κ ∧
      let bc := ProblemData.capB b st.infbound
      let z := vecFn r.S.solution.z A.m
      let t := if alm then st.info.reduced else st.info.full
      c * κ * dot (vecFn bc A.m) z < -t.infeas_abs
      ∧ dot (vecFn bc A.m) z < 0
      ∧ nrm (mulVT (matFn A A.m A.n) z)
          < t.infeas_rel * c * (-(dot (vecFn bc A.m) z)) * max 1 (κ * nrm z)
      ∧ Equil.CompositeMem Equil.ConeMemDual (Cones.newCollapsed cones) r.S.solution.z.toList
      ∧ r.S.solution.z.size = A.m := by
  obtain ⟨d0, hA, hu, ⟨o1, o2, o3, o4, o5, o6, o8⟩, hpm, -, hval, hrec⟩ := full_recordsN hG hI hF hnew hr
  obtain ⟨l, hlmem, hun, hcc, hvars, hsol⟩ := infeasible_on_returnedN hr alm
    (X := if alm then .almostPrimalInfeasible else .primalInfeasible)
    (by cases alm <;> simp) hgate hst
  have hvars' : r.S.st.variables = Unscale.unscale l.vars (toInfoEquil S.st.data.equilibration) true := hvars
  obtain ⟨sx, ss, sz⟩ := hsol hpm
  obtain ⟨g, r0, res, i, hsh, hres, hi, hbz, hqx⟩ := hrec l hlmem
  have hκ := hpos _ _ g
  rw [hbz, hqx] at hcc
  have hcc' : (if alm then Info.checkConvergenceAlmost l.info res.dot_bz res.dot_qx st.info
      else Info.checkConvergenceFull l.info res.dot_bz res.dot_qx st.info).status
      = (if alm then .almostPrimalInfeasible else .primalInfeasible) := by
    cases alm <;> exact hcc
  obtain ⟨t1, t2, t3, -, s3⟩ :=
    primal_infeasible_chain alm d0 S.st.data d0.cones st.equil hu hA.equil l.vars r0 res hsh hκ hres i
      l.info (Vec.normInf q) (Vec.normInf d0.b) hi st.info htabs (by rw [hun]; cases alm <;> decide) hcc'
  obtain ⟨-, -, hc⟩ := scaling_pos d0 S.st.data d0.cones st.equil hu hA.equil
  obtain ⟨m1, m2⟩ := hmem d0.cones l.vars g
  obtain ⟨-, c2⟩ := InfoCone.unscaled_point_in_cones d0 S.st.data d0.cones st.equil hF.lo hF.hi hu.fresh
    hval hA.equil l.vars hsh.s hsh.z true (by simpa using hκ) m1 m2
  have ez : (Unscale.unscale l.vars (toInfoEquil S.st.data.equilibration) true).z = r.S.solution.z := by
    rw [sz, hvars']
  rw [ez] at t1 t2 t3 s3 c2
  obtain ⟨dP, dq, dA, db, dcones, dn, dm, deq, dnq, dnb, dpre⟩ := d0
  dsimp only at o1 o2 o3 o4 o5 o6 o8 t1 t2 t3 s3 c2
  subst o1 o2 o3 o4 o5 o6
  exact ⟨S.st.data.equilibration.c, l.vars.κ, hc, hκ, t1, t2, t3, c2, s3⟩

/-- **`C02.ns_full_dual_infeasible_certifies`** / **`…_almost_…`** (lemma form) -/
theorem full_dual_infeasible_chainN (alm : Bool) {P : Csc ℝ} {q : Array ℝ} {A : Csc ℝ} {b : Array ℝ}
    {cones : List (ConeT ℝ)} {st : Settings ℝ} {perm : Array Nat} {S : Solver ℝ} {r : SolveResult ℝ}
    {G : List (ConeT ℝ) → Vars ℝ → Prop} (hG : StepHypN st G)
    (hI : ∀ S0 : SolverSt ℝ, SizedN S0 → Equil.ValidCones (layoutN S0) → InitHypN st S0 G)
    (hpos : ∀ l v, G l v → 0 < v.κ)
    (hmem : ∀ (ts : List (ConeT ℝ)) (v : Vars ℝ), G ts v →
      Equil.CompositeMem Equil.ConeMem ts v.s.toList ∧ Equil.CompositeMem Equil.ConeMemDual ts v.z.toList)
    (hF : FullInputN P q A b cones st)
    (htabs : 0 ≤ (if alm then st.info.reduced else st.info.full).infeas_abs)
    (hgate : alm = true → 1 ≤ (1 / st.info.reduced.ktratio) * 1000)
    (hnew : Solver.new P q A b cones st perm = .ok S) (hr : S.solve st = .ok r)
    (hst : r.S.solution.status = (if alm then .almostDualInfeasible else .dualInfeasible)) :
    ∃ (Pn : Csc ℝ) (c κ : ℝ), ProblemData.triuStep P = .ok Pn ∧ 0 < c ∧ 0 < κ ∧
      let x := vecFn r.S.solution.x A.n
      let sv := vecFn r.S.solution.s A.m
      let t := if alm then st.info.reduced else st.info.full
      c * κ * dot (vecFn q A.n) x < -t.infeas_abs
      ∧ dot (vecFn q A.n) x < 0
      ∧ nrm (mulV (symFn Pn A.n) x)
          < t.infeas_rel * (-(dot (vecFn q A.n) x)) * max 1 (κ * nrm x)
      ∧ nrm (fun k => mulV (matFn A A.m A.n) x k + sv k)
          < t.infeas_rel * c * (-(dot (vecFn q A.n) x)) * max 1 (κ * (nrm x + nrm sv))
      ∧ Equil.CompositeMem Equil.ConeMem (Cones.newCollapsed cones) r.S.solution.s.toList
      ∧ r.S.solution.x.size = A.n ∧ r.S.solution.s.size = A.m := by
  obtain ⟨d0, hA, hu, ⟨o1, o2, o3, o4, o5, o6, o8⟩, hpm, -, hval, hrec⟩ := full_recordsN hG hI hF hnew hr
  obtain ⟨l, hlmem, hun, hcc, hvars, hsol⟩ := infeasible_on_returnedN hr alm
    (X := if alm then .almostDualInfeasible else .dualInfeasible)
    (by cases alm <;> simp) hgate hst
  have hvars' : r.S.st.variables = Unscale.unscale l.vars (toInfoEquil S.st.data.equilibration) true := hvars
  obtain ⟨sx, ss, sz⟩ := hsol hpm
  obtain ⟨g, r0, res, i, hsh, hres, hi, hbz, hqx⟩ := hrec l hlmem
  have hκ := hpos _ _ g
  rw [hbz, hqx] at hcc
  have hcc' : (if alm then Info.checkConvergenceAlmost l.info res.dot_bz res.dot_qx st.info
      else Info.checkConvergenceFull l.info res.dot_bz res.dot_qx st.info).status
      = (if alm then .almostDualInfeasible else .dualInfeasible) := by
    cases alm <;> exact hcc
  obtain ⟨t1, t2, t3, t4, -, s1, s2⟩ :=
    dual_infeasible_chain alm d0 S.st.data d0.cones st.equil hu hA.equil l.vars r0 res hsh hκ hres i
      l.info (Vec.normInf q) (Vec.normInf d0.b) hi st.info htabs (by rw [hun]; cases alm <;> decide) hcc'
  obtain ⟨-, -, hc⟩ := scaling_pos d0 S.st.data d0.cones st.equil hu hA.equil
  obtain ⟨m1, m2⟩ := hmem d0.cones l.vars g
  obtain ⟨c1, -⟩ := InfoCone.unscaled_point_in_cones d0 S.st.data d0.cones st.equil hF.lo hF.hi hu.fresh
    hval hA.equil l.vars hsh.s hsh.z true (by simpa using hκ) m1 m2
  have ex : (Unscale.unscale l.vars (toInfoEquil S.st.data.equilibration) true).x = r.S.solution.x := by
    rw [sx, hvars']
  have es : (Unscale.unscale l.vars (toInfoEquil S.st.data.equilibration) true).s = r.S.solution.s := by
    rw [ss, hvars']
  rw [ex] at t1 t2 t3 s1
  rw [ex, es] at t4
  rw [es] at s2 c1
  obtain ⟨dP, dq, dA, db, dcones, dn, dm, deq, dnq, dnb, dpre⟩ := d0
  dsimp only at o1 o2 o3 o4 o5 o6 o8 t1 t2 t3 t4 s1 s2 c1
  subst o1 o2 o3 o4 o5 o6
  exact ⟨dP, S.st.data.equilibration.c, l.vars.κ, o8, hc, hκ, t1, t2, t3, t4, c1, s1, s2⟩

end Clarabel.SolverNS
