/-
  Composition on the whole-solver model WITH NONSYMMETRIC CONES (`ClarabelModel/SolverNS/*.lean`) —
  the trajectory induction, against the interface of `Lemmas/SolverNSFullDefs.lean` (counterpart of
  `Lemmas/SolverFullTraj.lean` for the first model).

  * `layoutN_resetInfo`, `SizedN.resetInfo`, `sizedN_resetInfo` : `info.reset` touches neither the
                            layout nor the sizes.
  * `defaultStart_sizedN` : `default_start()` (either branch) keeps `SizedN`, the data, the layout.
  * `pass_sizedN`         : one pass of the loop (whatever its way out) keeps `SizedN`, the data, the
                            layout.
  * `TInvN`               : the loop invariant of the trajectory induction.  New with respect to the
                            first model: `status = Unsolved` at the top of every pass and — for the
                            rollback-and-`continue` of `strategy_checkpoint_insufficient_progress` —
                            `G` of `prev_vars` once `save_prev_iterate` of this solve has run (`Late`).
  * `solve_traj_invN`     : a predicate `G` on the iterate that `default_start()` establishes
                            (`InitHypN`) and an accepted step preserves (`StepHypN`) holds of EVERY
                            recorded iterate of a `solve()`, and every record is `SRecN`.
  * `solve_sizedN`        : sizes, data and layout of the solver object a `solve()` returns.

  Helper lemmas live in the sub-namespace `Traj`.  All structural ([S]): every scalar type, `Float`
  included; sizes are derived from SUCCESS of the model functions only.
-/
import ClarabelProofs.Lemmas.SolverNSFullDefs
import ClarabelProofs.Lemmas.SolverNSNoPanicConesB

namespace Clarabel.SolverNS
open Clarabel Info Residuals
open Clarabel.Solver (bind_ok_inv status_bne VarsSized ResidSized VarsShape varsCopyFrom addStep
  StepDirection checkTermination_frame)
open Clarabel.Loop (Scaling Checkpoint)

set_option linter.unusedSectionVars false
set_option linter.unusedVariables false

variable {α : Type}

section
variable [Add α] [Sub α] [Mul α] [Div α] [Neg α] [LT α] [LE α] [DecidableLT α] [DecidableLE α]
  [BEq α] [OfNat α 0] [OfNat α 1] [OfNat α 2] [OfNat α 3] [OfNat α 4] [OfNat α 100] [OfNat α 1000]
  [OfScientific α] [FloatLike α]

/-! ### `info.reset` -/

/-- `info.reset` does not touch the cones -/
theorem layoutN_resetInfo (S : SolverSt α) : layoutN (SolverNS.resetInfo S) = layoutN S := rfl

/-- `info.reset` does not touch anything sized -/
theorem sizedN_resetInfo {S : SolverSt α} : SizedN (SolverNS.resetInfo S) ↔ SizedN S :=
  ⟨fun h => ⟨h.vars, h.resid, h.numel, h.full⟩, fun h => ⟨h.vars, h.resid, h.numel, h.full⟩⟩

theorem SizedN.resetInfo {S : SolverSt α} (h : SizedN S) : SizedN (SolverNS.resetInfo S) :=
  sizedN_resetInfo.mpr h

namespace Traj

/-! ### sizes: the building blocks -/

/-- `SizedN` is a function of the data, the lengths of the iterate and of the residual vectors, the
shape of the cone objects and their consistent sizing -/
theorem sized_of_parts {S S' : SolverSt α} (hS : SizedN S) (hd : S'.data = S.data)
    (hv : VarsShape S.variables S'.variables)
    (hr : S'.residuals.rx.size = S.residuals.rx.size ∧ S'.residuals.rz.size = S.residuals.rz.size
      ∧ S'.residuals.rx_inf.size = S.residuals.rx_inf.size
      ∧ S'.residuals.rz_inf.size = S.residuals.rz_inf.size
      ∧ S'.residuals.Px.size = S.residuals.Px.size)
    (hc : ConesShape S.cones S'.cones) (hf : ConesFull S'.cones) : SizedN S' := by
  obtain ⟨r1, r2, r3, r4, r5⟩ := hr
  refine ⟨?_, ?_, ?_, hf⟩
  · rw [hd]; exact hS.vars.of_shape hv
  · rw [hd]
    exact ⟨r1.trans hS.resid.rx, r2.trans hS.resid.rz, r3.trans hS.resid.rx_inf,
      r4.trans hS.resid.rz_inf, r5.trans hS.resid.Px⟩
  · rw [hd, ← hc.numelAll]; exact hS.numel

/-- the residual object `topNumerics` returns has the lengths of the one it was given -/
theorem topNumerics_sizes {S : SolverSt α} {iter : Nat} {r : Resid α} {mu : α} {i' : InfoS α}
    (h : topNumerics S iter = .ok (r, mu, i')) :
    r.rx.size = S.residuals.rx.size ∧ r.rz.size = S.residuals.rz.size
      ∧ r.rx_inf.size = S.residuals.rx_inf.size ∧ r.rz_inf.size = S.residuals.rz_inf.size
      ∧ r.Px.size = S.residuals.Px.size := by
  unfold topNumerics at h
  dsimp only at h
  obtain ⟨r', hr, h⟩ := bind_ok_inv h
  obtain ⟨_, _, h⟩ := bind_ok_inv h
  obtain ⟨_, _, h⟩ := bind_ok_inv h
  obtain ⟨_, _, h⟩ := bind_ok_inv h
  cases h
  exact Solver.residUpdate_shape hr

/-- `symmetric_initialization` keeps the lengths of the iterate -/
theorem symmetricInitialization_sizes {v v' : Vars α} {cones : List (ConeSt α)}
    (h : symmetricInitialization v cones = .ok v') : VarsShape v v' := by
  unfold symmetricInitialization at h
  obtain ⟨specs, _, h⟩ := bind_ok_inv h
  obtain ⟨s, hs, h⟩ := bind_ok_inv h
  obtain ⟨z, hz, h⟩ := bind_ok_inv h
  cases h
  exact ⟨rfl, (Solver.shiftToConeInterior_size hs).symm, (Solver.shiftToConeInterior_size hz).symm⟩

/-- `unit_initialization` keeps the lengths of an iterate that covers the composite cone -/
theorem varsUnitInitialization_sizes {v v' : Vars α} {cones : List (ConeSt α)} (hf : ConesFull cones)
    (hz : v.z.size = numelAll cones) (hs : v.s.size = numelAll cones)
    (h : varsUnitInitialization v cones = .ok v') : VarsShape v v' := by
  unfold varsUnitInitialization at h
  obtain ⟨⟨z, s⟩, hu, h⟩ := bind_ok_inv h
  cases h
  obtain ⟨o, ho, h1, h2⟩ := unitInitialization_ok cones v.z v.s hf hz hs
  rw [hu] at ho
  cases ho
  exact ⟨(Array.size_map ..).symm, h2.symm, h1.symm⟩

/-- `default_start()` (either branch) keeps the lengths of the iterate -/
theorem defaultStart_vars {S S0 : SolverSt α} {st : Settings α} (hS : SizedN S)
    (h : S.defaultStart st = .ok S0) : VarsShape S.variables S0.variables := by
  unfold SolverSt.defaultStart at h
  split at h
  · obtain ⟨cones, _, h⟩ := bind_ok_inv h
    obtain ⟨⟨_, kkt1⟩, _, h⟩ := bind_ok_inv h
    try dsimp only at h
    obtain ⟨⟨_, v1, kkt2⟩, hi, h⟩ := bind_ok_inv h
    try dsimp only at h
    obtain ⟨v2, hs, h⟩ := bind_ok_inv h
    cases h
    exact (Solver.solveInitialPoint_shape hi).1.trans (symmetricInitialization_sizes hs)
  · obtain ⟨v, hv, h⟩ := bind_ok_inv h
    cases h
    exact varsUnitInitialization_sizes hS.full (hS.vars.z.trans hS.numel.symm)
      (hS.vars.s.trans hS.numel.symm) hv

/-- `default_start()` (either branch) does not touch the residual object nor `info` -/
theorem defaultStart_rest {S S0 : SolverSt α} {st : Settings α} (h : S.defaultStart st = .ok S0) :
    S0.residuals = S.residuals ∧ S0.info = S.info := by
  unfold SolverSt.defaultStart at h
  split at h
  · obtain ⟨cs, _, h⟩ := bind_ok_inv h
    obtain ⟨⟨ok1, ks⟩, _, h⟩ := bind_ok_inv h
    obtain ⟨⟨ok2, v, ks2⟩, _, h⟩ := bind_ok_inv h
    obtain ⟨v2, _, h⟩ := bind_ok_inv h
    cases h
    exact ⟨rfl, rfl⟩
  · obtain ⟨v, _, h⟩ := bind_ok_inv h
    cases h
    exact ⟨rfl, rfl⟩

/-- a pass that `check_termination` lets through keeps the status `Unsolved` -/
theorem ct_unsolved {i : InfoS α} {bz qx : α} {s : Info.Settings α} {iter : Nat}
    (hd : (Info.checkTermination i bz qx s iter false).2 = false) :
    (Info.checkTermination i bz qx s iter false).1.status = .unsolved := by
  rw [(checkTermination_frame i bz qx s iter false).2] at hd
  exact Decidable.byContradiction fun h => by rw [(status_bne _ _).mpr h] at hd; cases hd

/-- what the KKT stage leaves alone, field by field -/
theorem kkt_fields {st : Settings α} {S : SolverSt α} {cones : List (ConeSt α)} {mu : α}
    {iter : Nat} {sc : Scaling} {k : KktOut α} (h : kktNumerics st S cones mu iter sc = .ok k) :
    k.S.data = S.data ∧ k.S.variables = S.variables ∧ k.S.residuals = S.residuals
      ∧ k.S.cones = S.cones ∧ k.S.prevVars = S.prevVars ∧ k.S.info = S.info := by
  have hkS := kktNumerics_frameN h
  refine ⟨?_, ?_, ?_, ?_, ?_, ?_⟩ <;> rw [hkS]

end Traj

open Traj

/-! ### `default_start()` and one pass: sizes, data, layout -/

/-- [S] `default_start()` (either branch) keeps the sizes, the data and the cone layout -/
theorem defaultStart_sizedN {S S0 : SolverSt α} {st : Settings α} (hS : SizedN S)
    (h : S.defaultStart st = .ok S0) : SizedN S0 ∧ S0.data = S.data ∧ layoutN S0 = layoutN S := by
  obtain ⟨hcs, hco⟩ := defaultStart_cones h hS.full
  have hd := defaultStart_data h
  refine ⟨sized_of_parts hS hd (defaultStart_vars hS h) ?_ hcs hco, hd, (ConesShape.typ_eq hcs).symm⟩
  rw [(defaultStart_rest h).1]
  exact ⟨rfl, rfl, rfl, rfl, rfl⟩

/-- [S] one pass of the loop (whatever its way out) keeps the sizes, the data and the cone layout -/
theorem pass_sizedN {st : Settings α} {L L' : LoopSt α} {c : Bool} (hS : SizedN L.S)
    (hp : pass st L = .ok (c, L')) :
    SizedN L'.S ∧ L'.S.data = L.S.data ∧ layoutN L'.S = layoutN L.S := by
  obtain ⟨hcs, hco⟩ := pass_cones hp hS.full
  have hd := pass_data hp
  refine ⟨sized_of_parts hS hd ?_ ?_ hcs hco, hd, (ConesShape.typ_eq hcs).symm⟩
  · -- the iterate
    cases pass_invN hp with
    | done residuals mu info1 htop hdone hip => exact VarsShape.rfl' _
    | ipSwitch residuals mu info1 vrs htop hdone hip hcopy hsw => exact Solver.varsCopyFrom_shape hcopy
    | rollback residuals mu info1 vrs htop hdone hip hcopy hsw => exact Solver.varsCopyFrom_shape hcopy
    | scaleFail residuals mu info1 sc htop hdone hsc hok => exact VarsShape.rfl' _
    | kktSwitch residuals mu info1 sc k htop hdone hsc hok hk hkok hsw =>
      exact VarsShape.of_eq (kkt_fields hk).2.1.symm
    | kktFail residuals mu info1 sc k htop hdone hsc hok hk hkok hsw =>
      exact VarsShape.of_eq (kkt_fields hk).2.1.symm
    | stepSwitch residuals mu info1 sc k a nbt htop hdone hsc hok hk hkok ha hsw =>
      exact VarsShape.of_eq (kkt_fields hk).2.1.symm
    | smallStep residuals mu info1 sc k a nbt htop hdone hsc hok hk hkok ha hsmall =>
      exact VarsShape.of_eq (kkt_fields hk).2.1.symm
    | step residuals mu info1 sc k a nbt pv htop hdone hsc hok hk hkok ha hsmall hpv =>
      unfold stepVars at hpv
      obtain ⟨pvars, hc, hpv⟩ := bind_ok_inv hpv
      obtain ⟨nv, hadd, hpv⟩ := bind_ok_inv hpv
      cases hpv
      exact (VarsShape.of_eq (kkt_fields hk).2.1.symm).trans (Solver.addStep_shape hadd)
  · -- the residual object
    cases pass_invN hp with
    | done residuals mu info1 htop hdone hip => exact topNumerics_sizes htop
    | ipSwitch residuals mu info1 vrs htop hdone hip hcopy hsw => exact topNumerics_sizes htop
    | rollback residuals mu info1 vrs htop hdone hip hcopy hsw => exact topNumerics_sizes htop
    | scaleFail residuals mu info1 sc htop hdone hsc hok => exact topNumerics_sizes htop
    | kktSwitch residuals mu info1 sc k htop hdone hsc hok hk hkok hsw =>
      show k.S.residuals.rx.size = _ ∧ _
      rw [(kkt_fields hk).2.2.1]; exact topNumerics_sizes htop
    | kktFail residuals mu info1 sc k htop hdone hsc hok hk hkok hsw =>
      show k.S.residuals.rx.size = _ ∧ _
      rw [(kkt_fields hk).2.2.1]; exact topNumerics_sizes htop
    | stepSwitch residuals mu info1 sc k a nbt htop hdone hsc hok hk hkok ha hsw =>
      show k.S.residuals.rx.size = _ ∧ _
      rw [(kkt_fields hk).2.2.1]; exact topNumerics_sizes htop
    | smallStep residuals mu info1 sc k a nbt htop hdone hsc hok hk hkok ha hsmall =>
      show k.S.residuals.rx.size = _ ∧ _
      rw [(kkt_fields hk).2.2.1]; exact topNumerics_sizes htop
    | step residuals mu info1 sc k a nbt pv htop hdone hsc hok hk hkok ha hsmall hpv =>
      show k.S.residuals.rx.size = _ ∧ _
      rw [(kkt_fields hk).2.2.1]; exact topNumerics_sizes htop

/-! ### the trajectory induction -/

/-- every pass (whatever its way out) appends ONE record: the iterate the pass started from and
what `topNumerics` assigned for it -/
theorem Traj.pass_rec {st : Settings α} {L L' : LoopSt α} {c : Bool} (hp : pass st L = .ok (c, L')) :
    ∃ (p : PassRec α) (res : Resid α) (mu : α), L'.traj = L.traj ++ [p] ∧ p.vars = L.S.variables
      ∧ topNumerics L.S L.iter = .ok (res, mu, p.info) ∧ p.dotBz = res.dot_bz ∧ p.dotQx = res.dot_qx := by
  cases pass_invN hp with
  | done residuals mu info1 htop hdone hip => exact ⟨_, residuals, mu, rfl, rfl, htop, rfl, rfl⟩
  | ipSwitch residuals mu info1 vrs htop hdone hip hcopy hsw =>
    exact ⟨_, residuals, mu, rfl, rfl, htop, rfl, rfl⟩
  | rollback residuals mu info1 vrs htop hdone hip hcopy hsw =>
    exact ⟨_, residuals, mu, rfl, rfl, htop, rfl, rfl⟩
  | scaleFail residuals mu info1 sc htop hdone hsc hok => exact ⟨_, residuals, mu, rfl, rfl, htop, rfl, rfl⟩
  | kktSwitch residuals mu info1 sc k htop hdone hsc hok hk hkok hsw =>
    exact ⟨_, residuals, mu, rfl, rfl, htop, rfl, rfl⟩
  | kktFail residuals mu info1 sc k htop hdone hsc hok hk hkok hsw =>
    exact ⟨_, residuals, mu, rfl, rfl, htop, rfl, rfl⟩
  | stepSwitch residuals mu info1 sc k a nbt htop hdone hsc hok hk hkok ha hsw =>
    exact ⟨_, residuals, mu, rfl, rfl, htop, rfl, rfl⟩
  | smallStep residuals mu info1 sc k a nbt htop hdone hsc hok hk hkok ha hsmall =>
    exact ⟨_, residuals, mu, rfl, rfl, htop, rfl, rfl⟩
  | step residuals mu info1 sc k a nbt pv htop hdone hsc hok hk hkok ha hsmall hpv =>
    exact ⟨_, residuals, mu, rfl, rfl, htop, rfl, rfl⟩

/-- the loop invariant of the trajectory induction on the model with nonsymmetric cones -/
structure TInvN (G : List (ConeT α) → Vars α → Prop) (l : List (ConeT α)) (d : ProblemData α)
    (L : LoopSt α) : Prop where
  sized : SizedN L.S
  data : L.S.data = d
  lay : layoutN L.S = l
  status : L.S.info.status = .unsolved
  g : G l L.S.variables
  recs : ∀ p ∈ L.traj, G l p.vars ∧ SRecN d p
  /-- once `save_prev_iterate` of this solve has run, `prev_vars` is an iterate of this solve -/
  prev : Late L → G l L.S.prevVars

/-- the record part of the invariant after one more pass (whatever its way out) -/
theorem TInvN.recs_pass {st : Settings α} {G : List (ConeT α) → Vars α → Prop} {l : List (ConeT α)}
    {d : ProblemData α} {L L' : LoopSt α} {c : Bool} (hT : TInvN G l d L) (hp : pass st L = .ok (c, L')) :
    ∀ p ∈ L'.traj, G l p.vars ∧ SRecN d p := by
  obtain ⟨p0, res, mu, ht, hv, htop, hbz, hqx⟩ := Traj.pass_rec hp
  intro p hpm
  rw [ht] at hpm
  rcases List.mem_append.mp hpm with hpm | hpm
  · exact hT.recs p hpm
  · have hpe : p = p0 := by simpa using hpm
    rw [hpe]
    refine ⟨?_, L.S, L.iter, res, mu, hT.data, hv.symm, hT.sized, htop, hbz, hqx⟩
    rw [hv]; exact hT.g

/-- status, iterate and `prev_vars` after a pass that goes on to the next one: the accepted step
(`StepHypN`), the rollback to `prev_vars` followed by `continue` (`Late`, because an
insufficient-progress verdict needs `iter > 1`), the two `continue`s after `iter += 1` -/
theorem Traj.pass_cont_rest {st : Settings α} {G : List (ConeT α) → Vars α → Prop} (hG : StepHypN st G)
    {l : List (ConeT α)} {d : ProblemData α} {L L' : LoopSt α} (hT : TInvN G l d L)
    (hp : pass st L = .ok (true, L')) :
    L'.S.info.status = .unsolved ∧ G l L'.S.variables ∧ (Late L' → G l L'.S.prevVars) := by
  cases pass_invN hp with
  | ipSwitch residuals mu info1 vrs htop hdone hip hcopy hsw =>
    obtain ⟨-, -, -, -, -, -, -, f8⟩ := topNumerics_frameN htop
    have hlt : 1 < L.iter := Solver.checkTermination_ip_iter (f8.trans hT.status) hip
    have hlate : Late L := Or.inr hlt
    have hvrs : vrs = L.S.prevVars := Solver.varsCopyFrom_eq hcopy
    refine ⟨rfl, ?_, fun _ => hT.prev hlate⟩
    show G l vrs
    rw [hvrs]; exact hT.prev hlate
  | kktSwitch residuals mu info1 sc k htop hdone hsc hok hk hkok hsw =>
    obtain ⟨-, e2, -, -, e5, e6⟩ := kkt_fields hk
    refine ⟨?_, ?_, fun hl' => ?_⟩
    · show k.S.info.status = .unsolved
      rw [e6]; exact ct_unsolved hdone
    · show G l k.S.variables
      rw [e2]; exact hT.g
    · show G l k.S.prevVars
      rw [e5]
      refine hT.prev ?_
      rcases hl' with ⟨-, h⟩ | h
      · cases h
      · exact Or.inl ⟨by have : 2 ≤ L.iter + 1 := h; omega, canSwitch_pd hsw⟩
  | stepSwitch residuals mu info1 sc k a nbt htop hdone hsc hok hk hkok ha hsw =>
    obtain ⟨-, e2, -, -, e5, e6⟩ := kkt_fields hk
    refine ⟨?_, ?_, fun hl' => ?_⟩
    · show k.S.info.status = .unsolved
      rw [e6]; exact ct_unsolved hdone
    · show G l k.S.variables
      rw [e2]; exact hT.g
    · show G l k.S.prevVars
      rw [e5]
      refine hT.prev ?_
      rcases hl' with ⟨-, h⟩ | h
      · cases h
      · exact Or.inl ⟨by have : 2 ≤ L.iter + 1 := h; omega, canSwitch_pd hsw⟩
  | step residuals mu info1 sc k a nbt pv htop hdone hsc hok hk hkok ha hsmall hpv =>
    obtain ⟨-, e2, -, -, -, e6⟩ := kkt_fields hk
    obtain ⟨hcs, hco⟩ := scaleCones_shape1 hT.sized.full hsc
    unfold stepVars at hpv
    obtain ⟨pvars, hc, hpv⟩ := bind_ok_inv hpv
    obtain ⟨nv, hadd, hpv⟩ := bind_ok_inv hpv
    cases hpv
    have e2' : k.S.variables = L.S.variables := e2
    refine ⟨?_, ?_, fun _ => ?_⟩
    · show k.S.info.status = .unsolved
      rw [e6]; exact ct_unsolved hdone
    · show G l nv
      have hS1 : SizedN { (topS L residuals mu (ctOf st L residuals info1)) with cones := sc.2 } :=
        sized_of_parts hT.sized rfl (VarsShape.rfl' _) (topNumerics_sizes htop) hcs hco
      have hl1 : layoutN { (topS L residuals mu (ctOf st L residuals info1)) with cones := sc.2 } = l := by
        rw [← hT.lay]; exact (ConesShape.typ_eq hcs).symm
      rw [e2'] at hadd
      have := hG { (topS L residuals mu (ctOf st L residuals info1)) with cones := sc.2 }
        mu (L.iter + 1) L.scaling k a nbt nv hS1 (by rw [hl1]; exact hT.g) hk hkok ha hsmall hadd
      rw [hl1] at this
      exact this
    · show G l pvars
      rw [Solver.varsCopyFrom_eq hc, e2']; exact hT.g

/-- the loop invariant is kept by every pass that goes on to the next one -/
theorem pass_cont_tinvN {st : Settings α} {G : List (ConeT α) → Vars α → Prop} (hG : StepHypN st G)
    {l : List (ConeT α)} {d : ProblemData α} {L L' : LoopSt α} (hT : TInvN G l d L)
    (hp : pass st L = .ok (true, L')) : TInvN G l d L' := by
  obtain ⟨f1, f2, f3⟩ := pass_sizedN hT.sized hp
  obtain ⟨g1, g2, g3⟩ := Traj.pass_cont_rest hG hT hp
  exact ⟨f1, f2.trans hT.data, f3.trans hT.lay, g1, g2, hT.recs_pass hp, g3⟩

theorem Reach.tinvN {st : Settings α} {G : List (ConeT α) → Vars α → Prop} (hG : StepHypN st G)
    {l : List (ConeT α)} {d : ProblemData α} {L L' : LoopSt α} (h : Reach st L L')
    (hT : TInvN G l d L) : TInvN G l d L' := by
  induction h with
  | refl => exact hT
  | step hp _ ih => exact ih (pass_cont_tinvN hG hT hp)

/-- `runSolve` = `info.reset`, `default_start()`, continuing passes, one breaking pass -/
theorem Traj.runSolve_reach {S : SolverSt α} {st : Settings α} {L : LoopSt α} (h : S.runSolve st = .ok L) :
    ∃ S0 Lm, (SolverNS.resetInfo S).defaultStart st = .ok S0 ∧ Reach st (initLoopSt S0) Lm
      ∧ pass st Lm = .ok (false, L) := by
  rw [runSolve_eq_runSolveO] at h
  obtain ⟨o, ho, hl⟩ := bind_ok_inv h
  unfold SolverSt.runSolveO at ho
  obtain ⟨S0, hds, ho⟩ := bind_ok_inv ho
  cases o with
  | none => cases hl
  | some Lf =>
    cases hl
    obtain ⟨Lm, hr, hpm⟩ := runLoopO_reach _ _ _ _ ho
    exact ⟨S0, Lm, hds, hr, hpm⟩

/-- the invariant holds when the loop is entered -/
theorem TInvN.init {st : Settings α} {G : List (ConeT α) → Vars α → Prop} {S S0 : SolverSt α}
    (hI : InitHypN st (SolverNS.resetInfo S) G) (hS : SizedN S)
    (hds : (SolverNS.resetInfo S).defaultStart st = .ok S0) :
    TInvN G (layoutN S) S.data (initLoopSt S0) := by
  obtain ⟨d1, d2, d3⟩ := defaultStart_sizedN hS.resetInfo hds
  have hl0 : layoutN S0 = layoutN S := d3
  refine ⟨d1, d2, hl0, ?_, ?_, fun p hp => (by cases hp), fun hl => ?_⟩
  · show S0.info.status = .unsolved
    rw [(defaultStart_rest hds).2]; rfl
  · show G (layoutN S) S0.variables
    rw [← hl0]; exact hI S0 hds
  · rcases hl with ⟨h, -⟩ | h
    · exact absurd (show 1 ≤ 0 from h) (by omega)
    · exact absurd (show 2 ≤ 0 from h) (by omega)

/-- the loop state a `runSolve` returns: the invariant part that survives the breaking pass -/
theorem runSolve_traj_invN {st : Settings α} {G : List (ConeT α) → Vars α → Prop} (hG : StepHypN st G)
    {S : SolverSt α} (hI : InitHypN st (SolverNS.resetInfo S) G) {L : LoopSt α}
    (hS : SizedN S) (hL : S.runSolve st = .ok L) :
    (∀ p ∈ L.traj, G (layoutN S) p.vars ∧ SRecN S.data p)
      ∧ SizedN L.S ∧ L.S.data = S.data ∧ layoutN L.S = layoutN S := by
  obtain ⟨S0, Lm, hds, hreach, hpm⟩ := Traj.runSolve_reach hL
  have hTm := hreach.tinvN hG (TInvN.init hI hS hds)
  obtain ⟨f1, f2, f3⟩ := pass_sizedN hTm.sized hpm
  exact ⟨hTm.recs_pass hpm, f1, f2.trans hTm.data, f3.trans hTm.lay⟩

/-- [S] **the trajectory induction** (model with nonsymmetric cones): every recorded iterate of a
`solve()` satisfies `G` and is `SRecN` -/
theorem solve_traj_invN {st : Settings α} {G : List (ConeT α) → Vars α → Prop} (hG : StepHypN st G)
    {S : Solver α} (hI : InitHypN st (SolverNS.resetInfo S.st) G) {r : SolveResult α}
    (hS : SizedN S.st) (hr : S.solve st = .ok r) :
    ∀ p ∈ r.traj, G (layoutN S.st) p.vars ∧ SRecN S.st.data p := by
  unfold Solver.solve at hr
  obtain ⟨L, hL, hr⟩ := bind_ok_inv hr
  obtain ⟨q, hq, hr⟩ := bind_ok_inv hr
  obtain ⟨dN, hdN, hr⟩ := bind_ok_inv hr
  cases hr
  show ∀ p ∈ L.traj, _
  exact (runSolve_traj_invN hG hI hS hL).1

/-- [S] the solver object a `solve()` returns has the cone layout, the data (with the two norm caches
filled: `Solver.fillNorms`) and the cone sizes of the one it started from, and sized residuals (the returned `variables` are the un-scaled iterate, whose
lengths are those of the iterate whenever `post_process` succeeds: `Solver.postProcess_shape`) -/
theorem solve_sizedN {st : Settings α} {S : Solver α} {r : SolveResult α}
    (hS : SizedN S.st) (hr : S.solve st = .ok r) :
    SizedN r.S.st ∧ Clarabel.Solver.fillNorms S.st.data = .ok r.S.st.data
      ∧ layoutN r.S.st = layoutN S.st := by
  unfold Solver.solve at hr
  obtain ⟨L, hL, hr⟩ := bind_ok_inv hr
  obtain ⟨q, hq, hr⟩ := bind_ok_inv hr
  obtain ⟨dN, hdN, hr⟩ := bind_ok_inv hr
  cases hr
  unfold finish at hq
  obtain ⟨u, hu, hq⟩ := bind_ok_inv hq
  cases hq
  -- the data of the returned object: the data at entry with the two norm caches filled
  have hdN' := hdN
  unfold Clarabel.Solver.fillNorms at hdN'
  obtain ⟨nq, hnq, hdN'⟩ := bind_ok_inv hdN'
  obtain ⟨nb, hnb, hdN'⟩ := bind_ok_inv hdN'
  have edN : dN = { (finishInfo st L).data with normq := some nq, normb := some nb } :=
    (Except.ok.inj hdN').symm
  have hTrue : StepHypN st (fun _ _ => True) := fun _ _ _ _ _ _ _ _ _ _ _ _ _ _ _ => trivial
  obtain ⟨-, f1, f2, f3⟩ := runSolve_traj_invN (G := fun _ _ => True) hTrue (fun _ _ => trivial) hS hL
  have hc : (finishInfo st L).cones = L.S.cones := finishInfo_cones st L
  have hd : (finishInfo st L).data = L.S.data := finishInfo_data st L
  have hv : (finishInfo st L).variables = L.S.variables := by
    unfold finishInfo; dsimp only; split <;> rfl
  have hres : (finishInfo st L).residuals = L.S.residuals := by
    unfold finishInfo; dsimp only; split <;> rfl
  have hps := (Solver.postProcess_shape hu).1
  have hT : SizedN ({ finishInfo st L with «variables» := u.2 } : SolverSt α) := by
    refine sized_of_parts (S := L.S) f1 hd ?_ ?_ ?_ ?_
    · show VarsShape L.S.variables u.2
      rw [← hv]; exact hps
    · show (finishInfo st L).residuals.rx.size = _ ∧ _
      rw [hres]; exact ⟨rfl, rfl, rfl, rfl, rfl⟩
    · show ConesShape L.S.cones (finishInfo st L).cones
      rw [hc]; exact ConesShape.rfl' _
    · show ConesFull (finishInfo st L).cones
      rw [hc]; exact f1.full
  refine ⟨?_, ?_, ?_⟩
  · subst edN
    exact ⟨hT.vars, hT.resid, hT.numel, hT.full⟩
  · have e : (finishInfo st L).data = S.st.data := by rw [hd]; exact f2
    rw [← e]; exact hdN
  · show (finishInfo st L).cones.map ConeSt.typ = _
    rw [hc]; exact f3

end

end Clarabel.SolverNS
