/-
  C12: the output of `permute_symmetric` is a structurally valid upper-triangular pattern
  (`TriuCsc`), so the elimination-tree and factorisation theorems apply to `triuA`.
-/
import ClarabelProofs.Lemmas.QdldlPermSym
import ClarabelProofs.Lemmas.QdldlPerm
import ClarabelProofs.Lemmas.QdldlEtree

namespace Clarabel.Qdldl

theorem permuteSymmetric_triuCsc {α : Type} [OfNat α 0] (A : Csc α) (iperm : Array Nat) (P : Csc α)
    (map : Array Nat) (h : permuteSymmetric A iperm = .ok (P, map)) :
    P.n = A.n ∧ TriuCsc P.n P.colptr P.rowval := by
  obtain ⟨_, Pc, Pr, pos, hpat, hP, _⟩ := permuteSymmetric_ok A iperm P map h
  obtain ⟨hnd, hlen, hlt, hPc, hblk⟩ := permutePattern_ok _ _ _ _ _ _ _ hpat
  -- unfold the pattern computation once more to get at `Pr`, the column list and the range check
  have hmore : Pr = scatter (Array.replicate A.rowval.size 0) pos
      (List.zipWith (fun r c => min (iperm.getD r 0) (iperm.getD c 0)) A.rowval.toList (colOf A.colptr A.n)) ∧
      (colOf A.colptr A.n).length = A.rowval.size ∧
      ∀ d ∈ destsOf A.n A.colptr A.rowval iperm, d < A.n := by
    unfold permutePattern at hpat
    simp only [bind, Except.bind, pure, Except.pure, throw, throwThe, MonadExceptOf.throw] at hpat
    split at hpat
    · cases hpat
    · split at hpat
      · cases hpat
      · rename_i h2
        split at hpat
        · cases hpat
        · rename_i h3
          simp only [Except.ok.injEq, Prod.mk.injEq] at hpat
          rw [← hpat.2.2]
          refine ⟨hpat.2.1.symm, by simpa using h2, ?_⟩
          intro d hd
          have : (destsOf A.n A.colptr A.rowval iperm).all (fun d => decide (d < A.n)) = true := by
            simpa [destsOf] using h3
          simpa using List.all_eq_true.mp this d hd
  obtain ⟨hPr, hcl, hall⟩ := hmore
  have hdl : (destsOf A.n A.colptr A.rowval iperm).length = A.rowval.size := by simp [destsOf, hcl]
  have hcs := cumsum_spec (countInto A.n (destsOf A.n A.colptr A.rowval iperm))
  rw [countInto_size] at hcs
  have htot : Pc.getD A.n 0 = A.rowval.size := by
    rw [hPc, cumsum_countInto A.n _ A.n (Nat.le_refl _), List.countP_eq_length.mpr, hdl]
    intro d hd; simpa using hall d hd
  have hmono : ∀ c c', c ≤ c' → c' ≤ A.n → Pc.getD c 0 ≤ Pc.getD c' 0 := by
    intro c c' h1 h2
    rw [hPc]
    exact cumsum_mono _ c c' h1 (by rw [countInto_size]; exact h2)
  subst hP
  show A.n = A.n ∧ TriuCsc A.n Pc Pr
  refine ⟨rfl, ?_, ?_, ?_, ?_⟩
  · show Pc.size = A.n + 1
    rw [hPc]; exact hcs.1
  · intro k hk; exact hmono k (k + 1) (by omega) (by omega)
  · intro k hk
    show Pc.getD k 0 ≤ Pr.size
    rw [hPr, scatter_size, Array.size_replicate, ← htot]
    exact hmono k A.n hk (Nat.le_refl _)
  · intro k hk t ht1 ht2
    show Pr.getD t 0 ≤ k
    have htN : t < A.rowval.size := by
      have := hmono (k + 1) A.n (by omega) (Nat.le_refl _); omega
    have hmem : t ∈ pos := Perm.mem_of_nodup_of_lt pos A.rowval.size hnd hlt hlen t htN
    obtain ⟨e, he, het⟩ := List.getElem_of_mem hmem
    have he' : e < (destsOf A.n A.colptr A.rowval iperm).length := by omega
    have hb := hblk e he' t (by rw [List.getElem?_eq_getElem he, het])
    have hd := hall _ (List.getElem_mem he')
    -- the block of `t` is the block of column `k`
    have hdk : (destsOf A.n A.colptr A.rowval iperm)[e] = k := by
      rcases Nat.lt_trichotomy (destsOf A.n A.colptr A.rowval iperm)[e] k with h' | h' | h'
      · have := hmono ((destsOf A.n A.colptr A.rowval iperm)[e] + 1) k (by omega) (by omega); omega
      · exact h'
      · have := hmono (k + 1) (destsOf A.n A.colptr A.rowval iperm)[e] (by omega) (by omega); omega
    have hval := scatter_get (Array.replicate A.rowval.size 0) pos
      (List.zipWith (fun r c => min (iperm.getD r 0) (iperm.getD c 0)) A.rowval.toList (colOf A.colptr A.n))
      hnd (by simp [hlen, hcl]) (by simpa using hlt) e he
    rw [het, ← hPr] at hval
    rw [Array.getD_eq_getD_getElem?, hval]
    have her : e < A.rowval.size := by omega
    have hec : e < (colOf A.colptr A.n).length := by omega
    have hde : (destsOf A.n A.colptr A.rowval iperm)[e] =
        max (iperm.getD A.rowval[e] 0) (iperm.getD (colOf A.colptr A.n)[e] 0) := by
      simp [destsOf]
    simp only [List.getElem_zipWith, Array.getElem_toList, Option.getD_some]
    rw [← hdk, hde]
    exact Nat.le_trans (Nat.min_le_left _ _) (Nat.le_max_left _ _)

end Clarabel.Qdldl
