/-
  Clique-graph merge strategy, `post_process_merge` + the tail of `SparsityPattern::new`
  (`reorder_snode_consecutively`, `calculate_block_dimensions`) WHEN EVERYTHING WAS MERGED INTO
  ONE CLIQUE (`t.nCliques = 1` at loop exit): `post_single_spec : PostSingleSpec`.

  * `postProcessMerge_single` : with `n_cliques = 1` the branch `clique_tree_from_graph` is
    skipped; the result is `cgPostSingleTree t` (explicit), the strategy is unchanged, no panic;
  * `cgps_positionAll_eq_live` : `snode_post` of `post_process_merge` is `cgLiveList t`;
  * `CGInv.single_live` : `n_cliques = 1` under the loop invariant means exactly one live clique;
  * `cgps_single_clique_all` : that clique is a permutation of `0..n` (every vertex lies in a
    supernode of `SuperNodeTree::new`, hence in a clique after `initialise`, hence — coverage
    under merging — in a live clique at loop exit, and there is only one);
  * `SnTreeOk.cgps_seps_ok` : the separators of `SuperNodeTree::new` are duplicate-free and in range
    (this is all the relabelling needs of the — by now meaningless — graph separators);
  * `post_single_spec` : the generic `reorder_spec_of_nodup`, `block_dimensions_spec`, `spTail_ok`
    then give `ValidCommon` and `ValidSingle`.
-/
import ClarabelProofs.Lemmas.ChordalCGSpecs

namespace Clarabel.Chordal
open Clarabel SuperNodeTree

/-- the tree returned by `post_process_merge` when one clique is left: `snode_post` = the
non-empty cliques, all parents `INACTIVE_NODE`, supernodes and separators sorted -/
def cgPostSingleTree (t : SuperNodeTree) : SuperNodeTree :=
  { t with
    snodePost := positionAll t.snode (fun x => !x.isEmpty)
    snodeParent := Array.replicate t.snode.size inactiveNode
    snode := t.snode.map VSet.sort
    separators := t.separators.map VSet.sort }

/-- [S] `post_process_merge` with `n_cliques = 1`: `clique_tree_from_graph` is skipped, no panic,
the strategy is returned unchanged and the tree is `cgPostSingleTree t` -/
theorem postProcessMerge_single (s : CGStrategy) (t : SuperNodeTree) (h1 : t.nCliques = 1) :
    s.postProcessMerge t = .ok (s, cgPostSingleTree t) := by
  unfold CGStrategy.postProcessMerge
  have : ¬ (t.nCliques > 1) := by omega
  simp only [this, if_false]
  rfl

/-- [S] `snode.iter().position_all(|x| !x.is_empty())` lists exactly the live cliques, in
increasing order -/
theorem cgps_positionAll_eq_live (t : SuperNodeTree) :
    positionAll t.snode (fun x => !x.isEmpty) = (cgLiveList t).toArray := by
  unfold positionAll cgLiveList
  congr 1
  apply List.filter_congr
  intro i hi
  have hi' : i < t.snode.size := List.mem_range.1 hi
  unfold CGLive
  simp [hi', Array.getD]
  rw [Bool.eq_iff_iff]
  simp [Array.isEmpty_iff]

/-- [S] membership through `getD` forces the index in range and the set non-empty -/
theorem cgps_live_of_mem {t : SuperNodeTree} {c v : Nat} (hv : v ∈ (t.snode.getD c #[]).toList) :
    CGLive t c := by
  refine ⟨?_, ?_⟩
  · by_contra hc
    have : t.snode.getD c #[] = #[] := by simp [Array.getD, hc]
    rw [this] at hv; simp at hv
  · intro he; rw [he] at hv; simp at hv

/-- [S] reading the array of sorted sets -/
theorem cgps_getD_map_sort (a : Array VSet) (c : Nat) :
    (a.map VSet.sort).getD c #[] = (a.getD c #[]).sort := by
  by_cases hc : c < a.size
  · simp [Array.getD, hc]
  · simp [Array.getD, hc, VSet.sort]

/-- [S] under the loop invariant `n_cliques = 1` means: exactly one live clique -/
theorem CGInv.single_live {N nv : Nat} {s : CGStrategy} {t : SuperNodeTree} (h : CGInv N nv s t)
    (h1 : t.nCliques = 1) : ∃ c, cgLiveList t = [c] ∧ CGLive t c ∧ ∀ c', CGLive t c' → c' = c := by
  have hl : (cgLiveList t).length = 1 := by rw [← h.ncl, h1]
  obtain ⟨c, hc⟩ := List.length_eq_one_iff.1 hl
  refine ⟨c, hc, (mem_cgLiveList t c).1 (by rw [hc]; simp), ?_⟩
  intro c' hc'
  have := (mem_cgLiveList t c').2 hc'
  rw [hc] at this
  simpa using this

/-- [S] EVERYTHING MERGED INTO ONE CLIQUE: the surviving clique is the whole vertex set `0..n`
(without repetition) -/
theorem cgps_single_clique_all {L : LPat} {t0 t1 t : SuperNodeTree} {s : CGStrategy} (hf : L.Filled)
    (hok : SnTreeOk L t0) (hi : CGInitRel t0 t1) (hcov : CGCover t1 t)
    (hinv : CGInv t0.snode.size L.n s t) (h1 : t.nCliques = 1) :
    ∃ c, cgLiveList t = [c] ∧ c < t.snode.size ∧
      ((t.snode.getD c #[]).toList).Perm (List.range L.n) := by
  obtain ⟨c, hc, hlive, huniq⟩ := hinv.single_live h1
  refine ⟨c, hc, hlive.1, ?_⟩
  rw [List.perm_ext_iff_of_nodup (hinv.sn_nodup c) List.nodup_range]
  intro v
  rw [List.mem_range]
  constructor
  · exact hinv.sn_lt c v
  · intro hv
    obtain ⟨c0, _, hv0⟩ := ((hok.preReorder hf).part v).1 hv
    have hv1 : v ∈ (t1.snode.getD c0 #[]).toList := by
      rw [hi.clique c0 v]; unfold cliqueList; exact List.mem_append_left _ hv0
    obtain ⟨c', hl', hsub⟩ := hcov.cover c0 (cgps_live_of_mem hv1)
    have := huniq c' hl'
    subst this
    exact hsub v hv1

/-- [S] the separators of the tree of `SuperNodeTree::new` are duplicate-free and in range -/
theorem SnTreeOk.cgps_seps_ok {L : LPat} {t0 : SuperNodeTree} (hf : L.Filled) (hok : SnTreeOk L t0) :
    ∀ sp ∈ t0.separators.toList, sp.toList.Nodup ∧ ∀ x ∈ sp.toList, x < L.n := by
  intro sp hsp
  obtain ⟨c, hc, e⟩ := List.getElem_of_mem hsp
  have hc' : c < t0.separators.size := by simpa using hc
  have e' : sp = t0.separators.getD c #[] := by
    rw [← e]; simp [Array.getD_eq_getD_getElem?, hc']
  have hl : Live t0 c := hok.all_live c (by rw [← hok.ct.sz_sep]; exact hc')
  rw [e']
  exact ⟨hok.ct.sep_nodup c hl, (hok.preReorder hf).sep_lt c hl⟩

/-- non-vacuity of `postProcessMerge_single` / `cgps_positionAll_eq_live`: two stored cliques, the
first merged away; `snode_post` becomes `[1]` -/
example : ∃ t', CGStrategy.new.postProcessMerge
      { snode := #[#[], #[2, 0, 1]], snodePost := #[0, 1], snodeParent := #[0, 0],
        snodeChildren := #[#[], #[]], post := #[0, 1, 2], separators := #[#[1], #[]],
        nblk := none, nCliques := 1 } = .ok (CGStrategy.new, t') ∧ t'.snodePost = #[1] ∧
      t'.snodeParent = #[inactiveNode, inactiveNode] :=
  ⟨_, postProcessMerge_single _ _ rfl, by decide, by decide⟩

/-- [S] **`post_process_merge` + relabelling + block sizes, single surviving clique**: no panic,
and the returned tree satisfies the oracle predicate `ValidCliqueTree` (branch `nCliques = 1`:
the one listed supernode is `0..n`; sizes consistent; the ordering stays a permutation).  The
witnesses are `s' = s` and `t' = cgPostSingleTree t`. -/
theorem post_single_spec : PostSingleSpec := by
  intro L t0 t1 t s hf hok hi hfr hcov hinv h1 ordering hord edges
  obtain ⟨c, hlist, hclt, hperm⟩ := cgps_single_clique_all hf hok hi hcov hinv h1
  -- the tree after `post_process_merge`
  have hpost : (cgPostSingleTree t).snodePost = #[c] := by
    show positionAll t.snode (fun x => !x.isEmpty) = #[c]
    rw [cgps_positionAll_eq_live, hlist]
  have hsn : ∀ k, (cgPostSingleTree t).snode.getD k #[] = (t.snode.getD k #[]).sort :=
    fun k => cgps_getD_map_sort t.snode k
  have hsnsz : (cgPostSingleTree t).snode.size = t.snode.size := by
    show (t.snode.map VSet.sort).size = _
    simp
  have hvpost : (cgPostSingleTree t).post.size = L.n := by
    show t.post.size = L.n
    rw [hfr.post, hi.post]
    simpa using hok.vpost_perm.length_eq
  have hsepsz : (cgPostSingleTree t).separators.size = t.snode.size := by
    show (t.separators.map VSet.sort).size = _
    rw [Array.size_map, hfr.separators]
    have := hi.seps.length_eq
    simp only [Array.length_toList] at this
    rw [this, hok.ct.sz_sep, hinv.sz]
  have hseps : ∀ sp ∈ (cgPostSingleTree t).separators.toList,
      sp.toList.Nodup ∧ ∀ x ∈ sp.toList, x < L.n := by
    intro sp hsp
    have hsp' : sp ∈ (t.separators.map VSet.sort).toList := hsp
    rw [Array.toList_map, List.mem_map] at hsp'
    obtain ⟨sp0, hsp0, rfl⟩ := hsp'
    rw [hfr.separators] at hsp0
    obtain ⟨hnd, hlt⟩ := hok.cgps_seps_ok hf sp0 (hi.seps.mem_iff.1 hsp0)
    exact ⟨(VSet.nodup_sort sp0).2 hnd, fun x hx => hlt x ((VSet.mem_sort sp0 x).1 hx)⟩
  -- the relabelling
  obtain ⟨tR, ord', p, q, hre, hs⟩ := reorder_spec_of_nodup (cgPostSingleTree t) ordering
    (by rw [hvpost]; simpa using hord.length_eq)
    (by rw [hpost]; simp)
    (by rw [hpost, hsnsz]; intro k hk; simp at hk; omega)
    (by
      rw [hpost, hvpost]
      simp only [List.flatMap_cons, List.flatMap_nil, List.append_nil]
      rw [hsn]
      exact (VSet.sort_perm _).trans hperm)
    (by rw [hvpost]; exact fun sp hsp => (hseps sp hsp).2)
    (fun sp hsp => (hseps sp hsp).1)
  have e1 : tR.nCliques = 1 := (congrArg (·.nCliques) hs.others).trans h1
  have e2 : tR.snodePost = #[c] := (congrArg (·.snodePost) hs.others).trans hpost
  have e3 : tR.snodeParent = Array.replicate t.snode.size inactiveNode :=
    congrArg (·.snodeParent) hs.others
  have e4 : tR.snode.size = t.snode.size := hs.snode_size.trans hsnsz
  have e5 : tR.separators.size = t.snode.size := hs.sep_size.trans hsepsz
  -- block dimensions
  obtain ⟨nb, hbd, _, _⟩ := block_dimensions_spec tR (by rw [e1, e2]; simp)
    (by
      intro i hi'
      rw [e1] at hi'
      have : i = 0 := by omega
      subst this
      rw [e2, e4, e5]
      simp [hclt])
  refine ⟨s, cgPostSingleTree t, { tR with nblk := some nb }, ord', postProcessMerge_single s t h1,
    spTail_ok hre hbd, ?_, ?_⟩
  · refine ⟨?_, ?_, ?_, ?_, ?_⟩
    · have := hs.ord_perm_range (by rw [hvpost]; exact hord)
      rwa [hvpost] at this
    · show tR.nCliques ≠ 0
      omega
    · show tR.separators.size = tR.snode.size
      rw [e4, e5]
    · show tR.snodeParent.size = tR.snode.size
      rw [e3, e4]; simp
    · show tR.snodePost.size = tR.nCliques
      rw [e1, e2]; simp
  · left
    refine ⟨e1, ?_, ?_⟩
    · show tR.snodePost.getD 0 0 < tR.snode.size
      rw [e2, e4]; simpa using hclt
    · show (tR.snode.getD (tR.snodePost.getD 0 0) #[]).toList.Perm (List.range L.n)
      have h0 := hs.snode_listed 0 (by rw [hpost]; simp)
      rw [hpost] at h0
      have hc0 : (#[c] : Array Nat).getD 0 0 = c := by simp
      rw [hc0] at h0
      simp only [List.take_zero, List.map_nil, List.sum_nil] at h0
      rw [e2, hc0, h0, hsn]
      have hlen : (t.snode.getD c #[]).sort.size = L.n := by
        have := ((VSet.sort_perm _).trans hperm).length_eq
        simpa using this
      rw [hlen, List.range_eq_range']

end Clarabel.Chordal
