/-
  One step of the parent–child clique merge: `PCStrategy.mergeTwoCliques`
  (`ClarabelModel/Chordal/MergePC.lean`; Rust `merge_two_cliques` + `determine_parent`
  of `src/solver/chordal/merge/parent_child.rs`).

  * `PCInv`: the structural invariant of the supernode tree during the merge (sizes agree,
    parents of live cliques are live, the children lists are the inverse of the parent array,
    every separator lies inside the parent's clique).
  * `merge_two_cliques_spec`: on a tree satisfying `PCInv`, merging a live child `ch` into its
    live parent `p` does not panic, keeps `PCInv`, retires exactly `ch`, and never loses a
    vertex of a clique (coverage is monotone).
-/
import ClarabelModel.Chordal.MergePC
import ClarabelProofs.Lemmas.ChordalPostOrder
import ClarabelProofs.Lemmas.ChordalReorder
import Mathlib.Data.List.Nodup

namespace Clarabel.Chordal

/-! ### reads and writes in `MErr` -/

/-- [S] an in-range read does not panic -/
private theorem getE_ok {β : Type} (xs : Array β) (i : Nat) (s : String) (d : β)
    (h : i < xs.size) : getE xs i s = .ok (xs.getD i d) := by
  unfold getE
  simp [h, Array.getD, pure, Except.pure]

/-- [S] an in-range write does not panic -/
private theorem setE_ok {β : Type} (xs : Array β) (i : Nat) (v : β) (s : String)
    (h : i < xs.size) : setE xs i v s = .ok (xs.setIfInBounds i v) := by
  unfold setE
  simp [h, Array.setIfInBounds, pure, Except.pure]

/-- [S] reading back a written entry -/
private theorem getD_set_self {β : Type} (xs : Array β) (i : Nat) (v d : β) (h : i < xs.size) :
    (xs.setIfInBounds i v).getD i d = v := by
  simp [Array.getD_eq_getD_getElem?, h]

/-- [S] a write does not change the other entries -/
private theorem getD_set_ne {β : Type} (xs : Array β) (i j : Nat) (v d : β) (h : i ≠ j) :
    (xs.setIfInBounds i v).getD j d = xs.getD j d := by
  simp [Array.getD_eq_getD_getElem?, h]

/-- [S] `bind` after a successful step -/
private theorem ok_bind {α β : Type} (a : α) (f : α → MErr β) :
    ((Except.ok a : MErr α) >>= f) = f a := rfl

/-! ### `shift_remove` -/

/-- [S] `shift_remove` deletes exactly the given element -/
theorem VSet.mem_shiftRemove (s : VSet) (v x : Nat) :
    x ∈ (s.shiftRemove v).toList ↔ x ∈ s.toList ∧ x ≠ v := by
  unfold VSet.shiftRemove
  simp

/-- [S] `shift_remove` keeps the set free of repetitions -/
theorem VSet.nodup_shiftRemove (s : VSet) (v : Nat) (h : s.toList.Nodup) :
    (s.shiftRemove v).toList.Nodup := by
  unfold VSet.shiftRemove
  exact h.filter _

/-! ### `set_union_into_indexed` -/

/-- [S] `set_union_into_indexed` on two distinct valid indices: `sets[c1] ∪= sets[c2]` -/
theorem setUnionIntoIndexed_ok (sets : Array VSet) (c1 c2 : Nat) (h : c1 ≠ c2)
    (h1 : c1 < sets.size) (h2 : c2 < sets.size) :
    setUnionIntoIndexed sets c1 c2 =
      .ok (sets.setIfInBounds c1 ((sets.getD c1 #[]).extend (sets.getD c2 #[]).toList)) := by
  unfold setUnionIntoIndexed
  have hb : (c1 == c2) = false := by simpa using h
  rw [hb]
  simp only [Bool.false_eq_true, if_false]
  rw [getE_ok _ _ _ #[] h1, ok_bind, getE_ok _ _ _ #[] h2, ok_bind, setE_ok _ _ _ _ h1]

/-! ### the loop over the grandchildren -/

/-- the grandchildren loop `for g in gs { parent[g] = p }` as a pure fold -/
def reparent (gs : List Nat) (p : Nat) (par : Array Nat) : Array Nat :=
  gs.foldl (fun par g => par.setIfInBounds g p) par

/-- [S] the grandchildren loop keeps the length of the parent array -/
theorem reparent_size (gs : List Nat) (p : Nat) : ∀ par : Array Nat,
    (reparent gs p par).size = par.size := by
  induction gs with
  | nil => intro par; rfl
  | cons g gs ih =>
    intro par
    have : reparent (g :: gs) p par = reparent gs p (par.setIfInBounds g p) := rfl
    rw [this, ih, Array.size_setIfInBounds]

/-- [S] after the grandchildren loop every listed (in-range) index points to `p` -/
theorem reparent_getD_mem (gs : List Nat) (p : Nat) : ∀ (par : Array Nat) (c : Nat),
    c ∈ gs → c < par.size → (reparent gs p par).getD c 0 = p := by
  induction gs with
  | nil => intro par c h; simp at h
  | cons g gs ih =>
    intro par c hc hlt
    have e : reparent (g :: gs) p par = reparent gs p (par.setIfInBounds g p) := rfl
    rw [e]
    by_cases hm : c ∈ gs
    · exact ih _ c hm (by rw [Array.size_setIfInBounds]; exact hlt)
    · have hcg : c = g := by
        rcases List.mem_cons.1 hc with h | h
        · exact h
        · exact absurd h hm
      subst hcg
      clear hc
      -- later writes do not touch `c`
      have key : ∀ (gs : List Nat) (q : Array Nat), c ∉ gs →
          (reparent gs p q).getD c 0 = q.getD c 0 := by
        intro gs
        induction gs with
        | nil => intro q _; rfl
        | cons a gs ih2 =>
          intro q hn
          have e2 : reparent (a :: gs) p q = reparent gs p (q.setIfInBounds a p) := rfl
          rw [e2, ih2 _ (fun h => hn (List.mem_cons_of_mem _ h))]
          exact getD_set_ne _ _ _ _ _ (fun h => hn (h ▸ List.mem_cons_self ..))
      rw [key gs _ hm]
      exact getD_set_self _ _ _ _ hlt

/-- [S] the grandchildren loop leaves the unlisted entries alone -/
theorem reparent_getD_not_mem (gs : List Nat) (p : Nat) : ∀ (par : Array Nat) (c : Nat),
    c ∉ gs → (reparent gs p par).getD c 0 = par.getD c 0 := by
  induction gs with
  | nil => intro q _ _; rfl
  | cons a gs ih2 =>
    intro q c hn
    have e2 : reparent (a :: gs) p q = reparent gs p (q.setIfInBounds a p) := rfl
    rw [e2, ih2 _ _ (fun h => hn (List.mem_cons_of_mem _ h))]
    exact getD_set_ne _ _ _ _ _ (fun h => hn (h ▸ List.mem_cons_self ..))

/-- [S] the monadic grandchildren loop does not panic when all indices are in range -/
theorem foldlM_setE_ok (gs : List Nat) (p : Nat) (s : String) : ∀ par : Array Nat,
    (∀ g ∈ gs, g < par.size) →
    gs.foldlM (fun (par : Array Nat) g => setE par g p s) par = .ok (reparent gs p par) := by
  induction gs with
  | nil => intro par _; rfl
  | cons g gs ih =>
    intro par h
    rw [List.foldlM_cons, setE_ok _ _ _ _ (h g (List.mem_cons_self ..)), ok_bind]
    rw [ih _ (fun a ha => by
      rw [Array.size_setIfInBounds]; exact h a (List.mem_cons_of_mem _ ha))]
    rfl

/-! ### closed form of one merge -/

/-- the tree after merging the child `ch` into its parent `p` -/
def mergedTree (t : SuperNodeTree) (p ch : Nat) : SuperNodeTree :=
  { t with
    snode := (t.snode.setIfInBounds p
        ((t.snode.getD p #[]).extend (t.snode.getD ch #[]).toList)).setIfInBounds ch #[]
    separators := t.separators.setIfInBounds ch #[]
    snodeParent := (reparent (t.snodeChildren.getD ch #[]).toList p t.snodeParent).setIfInBounds
        ch inactiveNode
    snodeChildren := (t.snodeChildren.setIfInBounds p
        (((t.snodeChildren.getD p #[]).shiftRemove ch).extend
          (t.snodeChildren.getD ch #[]).toList)).setIfInBounds ch #[]
    nCliques := t.nCliques - 1 }

/-- [S] closed form of `merge_two_cliques` on a parent–child pair with valid indices -/
theorem mergeTwoCliques_eq (t : SuperNodeTree) (p ch : Nat) (hne : ch ≠ p)
    (hsn_p : p < t.snode.size) (hsn_c : ch < t.snode.size)
    (hsep_c : ch < t.separators.size) (hpar_c : ch < t.snodeParent.size)
    (hch_p : p < t.snodeChildren.size) (hch_c : ch < t.snodeChildren.size)
    (hmem : ch ∈ (t.snodeChildren.getD p #[]).toList)
    (hg : ∀ g ∈ (t.snodeChildren.getD ch #[]).toList, g < t.snodeParent.size)
    (hn : 0 < t.nCliques) :
    PCStrategy.mergeTwoCliques t (p, ch) = .ok (mergedTree t p ch) := by
  have hcont : (t.snodeChildren.getD p #[]).contains ch = true := by
    simpa using hmem
  have hpc : p ≠ ch := fun h => hne h.symm
  unfold PCStrategy.mergeTwoCliques
  simp only []
  rw [getE_ok _ _ _ #[] hch_p, ok_bind]
  simp only [hcont, if_true]
  rw [setUnionIntoIndexed_ok _ _ _ hpc hsn_p hsn_c, ok_bind]
  rw [setE_ok _ _ _ _ (by rw [Array.size_setIfInBounds]; exact hsn_c), ok_bind]
  rw [setE_ok _ _ _ _ hsep_c, ok_bind]
  rw [getE_ok _ _ _ #[] hch_c, ok_bind]
  rw [foldlM_setE_ok _ _ _ _ hg, ok_bind]
  rw [setE_ok _ _ _ _ (by rw [reparent_size]; exact hpar_c), ok_bind]
  rw [getE_ok _ _ _ #[] hch_p, ok_bind]
  rw [setE_ok _ _ _ _ hch_p, ok_bind]
  rw [setUnionIntoIndexed_ok _ _ _ hpc (by rw [Array.size_setIfInBounds]; exact hch_p)
    (by rw [Array.size_setIfInBounds]; exact hch_c), ok_bind]
  rw [setE_ok _ _ _ _ (by simp only [Array.size_setIfInBounds]; exact hch_c), ok_bind]
  have hn0 : ¬ t.nCliques = 0 := by omega
  simp only [hn0, if_false]
  rw [getD_set_self _ _ _ _ hch_p, getD_set_ne _ _ _ _ _ hpc, Array.setIfInBounds_setIfInBounds]
  rfl

/-! ### pointwise description of the merged tree -/

section pointwise
variable {t : SuperNodeTree} {p ch : Nat}

/-- [S] `snode[ch]` is cleared -/
theorem mergedTree_snode_ch (h : ch < t.snode.size) :
    (mergedTree t p ch).snode.getD ch #[] = #[] :=
  getD_set_self _ _ _ _ (by rw [Array.size_setIfInBounds]; exact h)

/-- [S] `snode[p]` becomes `snode[p] ∪ snode[ch]` -/
theorem mergedTree_snode_p (hpc : p ≠ ch) (h : p < t.snode.size) :
    (mergedTree t p ch).snode.getD p #[] =
      (t.snode.getD p #[]).extend (t.snode.getD ch #[]).toList := by
  show ((t.snode.setIfInBounds p _).setIfInBounds ch #[]).getD p #[] = _
  rw [getD_set_ne _ _ _ _ _ hpc.symm, getD_set_self _ _ _ _ h]

/-- [S] the other supernodes are untouched -/
theorem mergedTree_snode_other (c : Nat) (h1 : c ≠ p) (h2 : c ≠ ch) :
    (mergedTree t p ch).snode.getD c #[] = t.snode.getD c #[] := by
  show ((t.snode.setIfInBounds p _).setIfInBounds ch #[]).getD c #[] = _
  rw [getD_set_ne _ _ _ _ _ (Ne.symm h2), getD_set_ne _ _ _ _ _ (Ne.symm h1)]

/-- [S] `separators[ch]` is cleared -/
theorem mergedTree_sep_ch (h : ch < t.separators.size) :
    (mergedTree t p ch).separators.getD ch #[] = #[] :=
  getD_set_self _ _ _ _ h

/-- [S] the other separators are untouched -/
theorem mergedTree_sep_other (c : Nat) (h2 : c ≠ ch) :
    (mergedTree t p ch).separators.getD c #[] = t.separators.getD c #[] :=
  getD_set_ne _ _ _ _ _ (Ne.symm h2)

/-- [S] `children[ch]` is cleared -/
theorem mergedTree_children_ch (h : ch < t.snodeChildren.size) :
    (mergedTree t p ch).snodeChildren.getD ch #[] = #[] :=
  getD_set_self _ _ _ _ (by rw [Array.size_setIfInBounds]; exact h)

/-- [S] `children[p]` loses `ch` and gains `children[ch]` -/
theorem mergedTree_children_p (hpc : p ≠ ch) (h : p < t.snodeChildren.size) :
    (mergedTree t p ch).snodeChildren.getD p #[] =
      ((t.snodeChildren.getD p #[]).shiftRemove ch).extend
        (t.snodeChildren.getD ch #[]).toList := by
  show ((t.snodeChildren.setIfInBounds p _).setIfInBounds ch #[]).getD p #[] = _
  rw [getD_set_ne _ _ _ _ _ hpc.symm, getD_set_self _ _ _ _ h]

/-- [S] the other children lists are untouched -/
theorem mergedTree_children_other (c : Nat) (h1 : c ≠ p) (h2 : c ≠ ch) :
    (mergedTree t p ch).snodeChildren.getD c #[] = t.snodeChildren.getD c #[] := by
  show ((t.snodeChildren.setIfInBounds p _).setIfInBounds ch #[]).getD c #[] = _
  rw [getD_set_ne _ _ _ _ _ (Ne.symm h2), getD_set_ne _ _ _ _ _ (Ne.symm h1)]

/-- [S] `parent[ch]` is the marker `INACTIVE_NODE` -/
theorem mergedTree_parent_ch (h : ch < t.snodeParent.size) :
    (mergedTree t p ch).snodeParent.getD ch 0 = inactiveNode :=
  getD_set_self _ _ _ _ (by rw [reparent_size]; exact h)

/-- [S] the grandchildren get the parent `p` -/
theorem mergedTree_parent_grand (c : Nat) (hc : c ∈ (t.snodeChildren.getD ch #[]).toList)
    (hne : c ≠ ch) (hlt : c < t.snodeParent.size) :
    (mergedTree t p ch).snodeParent.getD c 0 = p := by
  show ((reparent _ p t.snodeParent).setIfInBounds ch inactiveNode).getD c 0 = _
  rw [getD_set_ne _ _ _ _ _ (Ne.symm hne)]
  exact reparent_getD_mem _ _ _ _ hc hlt

/-- [S] the other parent entries are untouched -/
theorem mergedTree_parent_other (c : Nat) (hc : c ∉ (t.snodeChildren.getD ch #[]).toList)
    (hne : c ≠ ch) :
    (mergedTree t p ch).snodeParent.getD c 0 = t.snodeParent.getD c 0 := by
  show ((reparent _ p t.snodeParent).setIfInBounds ch inactiveNode).getD c 0 = _
  rw [getD_set_ne _ _ _ _ _ (Ne.symm hne)]
  exact reparent_getD_not_mem _ _ _ _ hc

/-- [S] length of the new parent array -/
theorem mergedTree_parent_size :
    (mergedTree t p ch).snodeParent.size = t.snodeParent.size := by
  show ((reparent _ p t.snodeParent).setIfInBounds ch inactiveNode).size = _
  rw [Array.size_setIfInBounds, reparent_size]

/-- [S] length of the new supernode array -/
theorem mergedTree_snode_size : (mergedTree t p ch).snode.size = t.snode.size := by
  show ((t.snode.setIfInBounds p _).setIfInBounds ch #[]).size = _
  rw [Array.size_setIfInBounds, Array.size_setIfInBounds]

/-- [S] length of the new separator array -/
theorem mergedTree_sep_size : (mergedTree t p ch).separators.size = t.separators.size := by
  show (t.separators.setIfInBounds ch #[]).size = _
  rw [Array.size_setIfInBounds]

/-- [S] length of the new children array -/
theorem mergedTree_children_size :
    (mergedTree t p ch).snodeChildren.size = t.snodeChildren.size := by
  show ((t.snodeChildren.setIfInBounds p _).setIfInBounds ch #[]).size = _
  rw [Array.size_setIfInBounds, Array.size_setIfInBounds]

end pointwise

/-! ### the invariant -/

/-- vertices of clique `c`: supernode followed by separator -/
def cliqueList (t : SuperNodeTree) (c : Nat) : List Nat :=
  (t.snode.getD c #[]).toList ++ (t.separators.getD c #[]).toList

/-- `c` is a live (not merged-away) clique -/
def Live (t : SuperNodeTree) (c : Nat) : Prop :=
  c < t.snodeParent.size ∧ t.snodeParent.getD c 0 ≠ inactiveNode

/-- the invariant kept by the parent–child merge -/
structure PCInv (t : SuperNodeTree) : Prop where
  sz_sep : t.separators.size = t.snode.size
  sz_par : t.snodeParent.size = t.snode.size
  sz_ch : t.snodeChildren.size = t.snode.size
  /-- indices never collide with the markers `INACTIVE_NODE`, `NO_PARENT` -/
  small : t.snode.size < inactiveNode
  /-- parents of live non-root cliques are live cliques -/
  par_live : ∀ c, Live t c → t.snodeParent.getD c 0 ≠ noParent →
      Live t (t.snodeParent.getD c 0)
  /-- children lists = inverse of the parent array on live cliques -/
  ch_iff : ∀ p c, Live t p →
      (c ∈ (t.snodeChildren.getD p #[]).toList ↔ (Live t c ∧ t.snodeParent.getD c 0 = p))
  /-- children lists have no repetition -/
  ch_nodup : ∀ p, p < t.snode.size → (t.snodeChildren.getD p #[]).toList.Nodup
  /-- the separator of a live non-root clique lies inside the parent's clique -/
  sep_sub : ∀ c, Live t c → t.snodeParent.getD c 0 ≠ noParent →
      ∀ v ∈ (t.separators.getD c #[]).toList, v ∈ cliqueList t (t.snodeParent.getD c 0)

/-- hypotheses of one merge step: `ch` is a live child of the live clique `p` -/
structure MergeHyp (t : SuperNodeTree) (p ch : Nat) : Prop where
  inv : PCInv t
  lp : Live t p
  lc : Live t ch
  ne : ch ≠ p
  par : t.snodeParent.getD ch 0 = p

namespace MergeHyp
variable {t : SuperNodeTree} {p ch : Nat}

/-- [S] `p` is a valid index -/
theorem p_lt (h : MergeHyp t p ch) : p < t.snode.size := h.inv.sz_par ▸ h.lp.1
/-- [S] `ch` is a valid index -/
theorem ch_lt (h : MergeHyp t p ch) : ch < t.snode.size := h.inv.sz_par ▸ h.lc.1

/-- [S] an index is never the marker `INACTIVE_NODE` -/
theorem p_ne_inactive (h : MergeHyp t p ch) : p ≠ inactiveNode := by
  have := h.p_lt; have := h.inv.small; omega

/-- [S] an index is never the marker `NO_PARENT` -/
theorem p_ne_noParent (h : MergeHyp t p ch) : p ≠ noParent := by
  have := h.p_lt; have := h.inv.small
  have : inactiveNode < noParent := by decide
  omega

/-- [S] `children[ch]` lists exactly the live cliques whose parent is `ch` -/
theorem mem_grand (h : MergeHyp t p ch) (c : Nat) :
    c ∈ (t.snodeChildren.getD ch #[]).toList ↔ Live t c ∧ t.snodeParent.getD c 0 = ch :=
  h.inv.ch_iff ch c h.lc

/-- [S] `ch ∈ children[p]`, so `determine_parent` keeps the pair `(p, ch)` -/
theorem ch_mem (h : MergeHyp t p ch) : ch ∈ (t.snodeChildren.getD p #[]).toList :=
  (h.inv.ch_iff p ch h.lp).2 ⟨h.lc, h.par⟩

/-- [S] `ch` is not its own child -/
theorem ch_not_grand (h : MergeHyp t p ch) : ch ∉ (t.snodeChildren.getD ch #[]).toList := by
  intro hm
  exact h.ne (((h.mem_grand ch).1 hm).2.symm.trans h.par)

/-- [S] new parent of the former children of `ch` -/
theorem parent_grand (h : MergeHyp t p ch) (c : Nat)
    (hc : c ∈ (t.snodeChildren.getD ch #[]).toList) :
    (mergedTree t p ch).snodeParent.getD c 0 = p :=
  mergedTree_parent_grand c hc (fun e => h.ch_not_grand (e ▸ hc)) ((h.mem_grand c).1 hc).1.1

/-- [S] new parent of `ch` -/
theorem parent_ch (h : MergeHyp t p ch) :
    (mergedTree t p ch).snodeParent.getD ch 0 = inactiveNode :=
  mergedTree_parent_ch h.lc.1

/-- [S] new parent of the cliques that are neither `ch` nor a child of `ch` -/
theorem parent_other (_h : MergeHyp t p ch) (c : Nat) (hne : c ≠ ch)
    (hc : c ∉ (t.snodeChildren.getD ch #[]).toList) :
    (mergedTree t p ch).snodeParent.getD c 0 = t.snodeParent.getD c 0 :=
  mergedTree_parent_other c hc hne

/-- [S] liveness after the merge: exactly `ch` is retired -/
theorem live_iff (h : MergeHyp t p ch) (c : Nat) :
    Live (mergedTree t p ch) c ↔ c ≠ ch ∧ Live t c := by
  unfold Live
  rw [mergedTree_parent_size]
  by_cases hc : c = ch
  · subst hc
    rw [h.parent_ch]
    simp
  · by_cases hg : c ∈ (t.snodeChildren.getD ch #[]).toList
    · rw [h.parent_grand c hg]
      have hl := ((h.mem_grand c).1 hg).1
      constructor
      · intro _; exact ⟨hc, hl⟩
      · intro _; exact ⟨hl.1, h.p_ne_inactive⟩
    · rw [h.parent_other c hc hg]
      constructor
      · intro h'; exact ⟨hc, h'⟩
      · intro h'; exact h'.2

/-- [S] supernodes other than `ch` only grow -/
theorem snode_mono (h : MergeHyp t p ch) (c : Nat) (hc : c ≠ ch) (v : Nat)
    (hv : v ∈ (t.snode.getD c #[]).toList) :
    v ∈ ((mergedTree t p ch).snode.getD c #[]).toList := by
  by_cases hp : c = p
  · subst hp
    rw [mergedTree_snode_p (Ne.symm h.ne) h.p_lt, VSet.mem_extend]
    exact Or.inl hv
  · rw [mergedTree_snode_other c hp hc]; exact hv

/-- [S] cliques other than `ch` only grow -/
theorem clique_mono (h : MergeHyp t p ch) (c : Nat) (hc : c ≠ ch) (v : Nat)
    (hv : v ∈ cliqueList t c) : v ∈ cliqueList (mergedTree t p ch) c := by
  unfold cliqueList at hv ⊢
  rw [List.mem_append] at hv ⊢
  rcases hv with hv | hv
  · exact Or.inl (h.snode_mono c hc v hv)
  · rw [mergedTree_sep_other c hc]; exact Or.inr hv

/-- [S] the clique `ch` is absorbed by `p` (its separator lies in the old clique `p`) -/
theorem clique_ch (h : MergeHyp t p ch) (v : Nat)
    (hv : v ∈ cliqueList t ch) : v ∈ cliqueList (mergedTree t p ch) p := by
  unfold cliqueList at hv
  rw [List.mem_append] at hv
  rcases hv with hv | hv
  · unfold cliqueList
    rw [List.mem_append, mergedTree_snode_p (Ne.symm h.ne) h.p_lt, VSet.mem_extend]
    exact Or.inl (Or.inr hv)
  · have := h.inv.sep_sub ch h.lc (by rw [h.par]; exact h.p_ne_noParent) v hv
    rw [h.par] at this
    exact h.clique_mono p (Ne.symm h.ne) v this

/-- [S] part (1): the merged tree satisfies `PCInv` again -/
theorem inv' (h : MergeHyp t p ch) : PCInv (mergedTree t p ch) where
  sz_sep := by rw [mergedTree_sep_size, mergedTree_snode_size]; exact h.inv.sz_sep
  sz_par := by rw [mergedTree_parent_size, mergedTree_snode_size]; exact h.inv.sz_par
  sz_ch := by rw [mergedTree_children_size, mergedTree_snode_size]; exact h.inv.sz_ch
  small := by rw [mergedTree_snode_size]; exact h.inv.small
  par_live := by
    intro c hl hnp
    obtain ⟨hc, hl⟩ := (h.live_iff c).1 hl
    by_cases hg : c ∈ (t.snodeChildren.getD ch #[]).toList
    · rw [h.parent_grand c hg]
      exact (h.live_iff p).2 ⟨Ne.symm h.ne, h.lp⟩
    · rw [h.parent_other c hc hg] at hnp ⊢
      refine (h.live_iff _).2 ⟨?_, h.inv.par_live c hl hnp⟩
      intro e
      exact hg ((h.mem_grand c).2 ⟨hl, e⟩)
  ch_iff := by
    intro q c hq'
    obtain ⟨hqc, hq⟩ := (h.live_iff q).1 hq'
    clear hq'
    rw [h.live_iff c]
    by_cases hqp : q = p
    · subst hqp
      rw [mergedTree_children_p hqc (h.inv.sz_ch ▸ h.p_lt), VSet.mem_extend,
        VSet.mem_shiftRemove, h.inv.ch_iff q c hq]
      by_cases hg : c ∈ (t.snodeChildren.getD ch #[]).toList
      · have hg' := (h.mem_grand c).1 hg
        have hcc : c ≠ ch := fun e => h.ch_not_grand (e ▸ hg)
        rw [h.parent_grand c hg]
        constructor
        · intro _; exact ⟨⟨hcc, hg'.1⟩, rfl⟩
        · intro _; exact Or.inr hg
      · constructor
        · rintro (⟨⟨hl, hp⟩, hcc⟩ | hg')
          · rw [h.parent_other c hcc hg]; exact ⟨⟨hcc, hl⟩, hp⟩
          · exact absurd hg' hg
        · rintro ⟨⟨hcc, hl⟩, hp⟩
          rw [h.parent_other c hcc hg] at hp
          exact Or.inl ⟨⟨hl, hp⟩, hcc⟩
    · rw [mergedTree_children_other q hqp hqc, h.inv.ch_iff q c hq]
      by_cases hcc : c = ch
      · subst hcc
        constructor
        · rintro ⟨_, hp⟩; exact absurd (hp.symm.trans h.par) hqp
        · rintro ⟨⟨hcc, _⟩, _⟩; exact absurd rfl hcc
      · by_cases hg : c ∈ (t.snodeChildren.getD ch #[]).toList
        · have hg' := (h.mem_grand c).1 hg
          rw [h.parent_grand c hg]
          constructor
          · rintro ⟨_, hp⟩; exact absurd (hp.symm.trans hg'.2) hqc
          · rintro ⟨_, hp⟩; exact absurd hp.symm hqp
        · rw [h.parent_other c hcc hg]
          constructor
          · rintro ⟨hl, hp⟩; exact ⟨⟨hcc, hl⟩, hp⟩
          · rintro ⟨⟨_, hl⟩, hp⟩; exact ⟨hl, hp⟩
  ch_nodup := by
    intro q hq
    rw [mergedTree_snode_size] at hq
    by_cases hqc : q = ch
    · subst hqc
      rw [mergedTree_children_ch (h.inv.sz_ch ▸ hq)]
      exact List.nodup_nil
    · by_cases hqp : q = p
      · subst hqp
        rw [mergedTree_children_p hqc (h.inv.sz_ch ▸ hq)]
        exact VSet.nodup_extend _ _ (VSet.nodup_shiftRemove _ _ (h.inv.ch_nodup q hq))
      · rw [mergedTree_children_other q hqp hqc]
        exact h.inv.ch_nodup q hq
  sep_sub := by
    intro c hl hnp v hv
    obtain ⟨hc, hl⟩ := (h.live_iff c).1 hl
    rw [mergedTree_sep_other c hc] at hv
    by_cases hg : c ∈ (t.snodeChildren.getD ch #[]).toList
    · rw [h.parent_grand c hg]
      have hg' := (h.mem_grand c).1 hg
      have := h.inv.sep_sub c hl (by rw [hg'.2]; have := h.ch_lt; have := h.inv.small
                                     have : inactiveNode < noParent := by decide
                                     omega) v hv
      rw [hg'.2] at this
      exact h.clique_ch v this
    · rw [h.parent_other c hc hg] at hnp ⊢
      have := h.inv.sep_sub c hl hnp v hv
      refine h.clique_mono _ ?_ v this
      intro e
      exact hg ((h.mem_grand c).2 ⟨hl, e⟩)

end MergeHyp

/-! ### the specification of one merge -/

/-- what one merge of the child `ch` into the parent `p` does to the tree `t` (result `t'`) -/
structure MergeSpec (t : SuperNodeTree) (p ch : Nat) (t' : SuperNodeTree) : Prop where
  /-- (1) the invariant is kept -/
  inv : PCInv t'
  /-- (2) bookkeeping fields -/
  nCliques_eq : t'.nCliques = t.nCliques - 1
  post_eq : t'.post = t.post
  snodePost_eq : t'.snodePost = t.snodePost
  nblk_eq : t'.nblk = t.nblk
  /-- (3) exactly `ch` is retired, and it is emptied -/
  dead : ¬ Live t' ch
  snode_ch : t'.snode.getD ch #[] = #[]
  sep_ch : t'.separators.getD ch #[] = #[]
  live_iff : ∀ c, c ≠ ch → (Live t' c ↔ Live t c)
  /-- (4) vertices: `snode[p]` becomes the union, everything else is unchanged -/
  snode_p : ∀ v, v ∈ (t'.snode.getD p #[]).toList ↔
      v ∈ (t.snode.getD p #[]).toList ∨ v ∈ (t.snode.getD ch #[]).toList
  snode_p_nodup : (t.snode.getD p #[]).toList.Nodup → (t'.snode.getD p #[]).toList.Nodup
  snode_other : ∀ c, c ≠ p → c ≠ ch → t'.snode.getD c #[] = t.snode.getD c #[]
  sep_other : ∀ c, c ≠ ch → t'.separators.getD c #[] = t.separators.getD c #[]
  /-- (5) coverage is monotone: every old live clique lies inside a new live clique -/
  cover : ∀ c, Live t c → ∃ c', Live t' c' ∧ ∀ v ∈ cliqueList t c, v ∈ cliqueList t' c'
  cover_ch : ∀ v ∈ cliqueList t ch, v ∈ cliqueList t' p
  cover_other : ∀ c, c ≠ ch → ∀ v ∈ cliqueList t c, v ∈ cliqueList t' c
  /-- (6) parents: grandchildren are re-attached to `p`, `ch` is marked inactive -/
  par_grand : ∀ c, c ∈ (t.snodeChildren.getD ch #[]).toList → t'.snodeParent.getD c 0 = p
  par_ch : t'.snodeParent.getD ch 0 = inactiveNode
  par_other : ∀ c, c ≠ ch → c ∉ (t.snodeChildren.getD ch #[]).toList →
      t'.snodeParent.getD c 0 = t.snodeParent.getD c 0
  /-- children lists: `children[p]` loses `ch` and gains the grandchildren -/
  children_p : ∀ c, c ∈ (t'.snodeChildren.getD p #[]).toList ↔
      (c ∈ (t.snodeChildren.getD p #[]).toList ∧ c ≠ ch) ∨
        c ∈ (t.snodeChildren.getD ch #[]).toList
  children_ch : t'.snodeChildren.getD ch #[] = #[]
  children_other : ∀ c, c ≠ p → c ≠ ch →
      t'.snodeChildren.getD c #[] = t.snodeChildren.getD c #[]

/-- [S] the closed form `mergedTree` satisfies the merge specification -/
theorem MergeHyp.spec {t : SuperNodeTree} {p ch : Nat} (h : MergeHyp t p ch) :
    MergeSpec t p ch (mergedTree t p ch) where
  inv := h.inv'
  nCliques_eq := rfl
  post_eq := rfl
  snodePost_eq := rfl
  nblk_eq := rfl
  dead := fun hl => ((h.live_iff ch).1 hl).1 rfl
  snode_ch := mergedTree_snode_ch h.ch_lt
  sep_ch := mergedTree_sep_ch (h.inv.sz_sep ▸ h.ch_lt)
  live_iff := fun c hc => by rw [h.live_iff c]; exact ⟨fun x => x.2, fun x => ⟨hc, x⟩⟩
  snode_p := fun v => by rw [mergedTree_snode_p (Ne.symm h.ne) h.p_lt, VSet.mem_extend]
  snode_p_nodup := fun hnd => by
    rw [mergedTree_snode_p (Ne.symm h.ne) h.p_lt]; exact VSet.nodup_extend _ _ hnd
  snode_other := fun c h1 h2 => mergedTree_snode_other c h1 h2
  sep_other := fun c h2 => mergedTree_sep_other c h2
  cover := by
    intro c hl
    by_cases hc : c = ch
    · subst hc
      exact ⟨p, (h.live_iff p).2 ⟨Ne.symm h.ne, h.lp⟩, fun v hv => h.clique_ch v hv⟩
    · exact ⟨c, (h.live_iff c).2 ⟨hc, hl⟩, fun v hv => h.clique_mono c hc v hv⟩
  cover_ch := h.clique_ch
  cover_other := h.clique_mono
  par_grand := h.parent_grand
  par_ch := h.parent_ch
  par_other := h.parent_other
  children_p := fun c => by
    rw [mergedTree_children_p (Ne.symm h.ne) (h.inv.sz_ch ▸ h.p_lt), VSet.mem_extend,
      VSet.mem_shiftRemove]
  children_ch := mergedTree_children_ch (h.inv.sz_ch ▸ h.ch_lt)
  children_other := fun c h1 h2 => mergedTree_children_other c h1 h2

/-- [S] `merge_two_cliques` on a live parent–child pair `(p, ch)` of a tree satisfying `PCInv`:
no panic (`determine_parent` picks `(p, ch)`, every index is in range, the clique counter does
not underflow) and the result satisfies `MergeSpec`: (1) `PCInv` is kept; (2) `nCliques`
drops by one, `post`, `snodePost`, `nblk` are untouched; (3) exactly `ch` is retired and
emptied; (4) `snode[p]` becomes `snode[p] ∪ snode[ch]`, all other vertex sets are unchanged;
(5) every old live clique is contained in a new live clique; (6) the grandchildren are
re-attached to `p`. -/
theorem merge_two_cliques_spec (t : SuperNodeTree) (p ch : Nat)
    (hinv : PCInv t) (hp : Live t p) (hc : Live t ch) (hne : ch ≠ p)
    (hpar : t.snodeParent.getD ch 0 = p) (hn : 0 < t.nCliques) :
    ∃ t', PCStrategy.mergeTwoCliques t (p, ch) = .ok t' ∧ MergeSpec t p ch t' := by
  have h : MergeHyp t p ch := ⟨hinv, hp, hc, hne, hpar⟩
  refine ⟨mergedTree t p ch, ?_, h.spec⟩
  exact mergeTwoCliques_eq t p ch hne h.p_lt h.ch_lt (hinv.sz_sep ▸ h.ch_lt) hc.1
    (hinv.sz_ch ▸ h.p_lt) (hinv.sz_ch ▸ h.ch_lt) h.ch_mem
    (fun g hg => ((h.mem_grand g).1 hg).1.1) hn

/-- [S] the same with the candidate given in the order `(child, parent)`: `determine_parent`
swaps the pair (a live clique is never its own grandparent, so `p ∉ children[ch]`) -/
theorem merge_two_cliques_spec_swapped (t : SuperNodeTree) (p ch : Nat)
    (hinv : PCInv t) (hp : Live t p) (hc : Live t ch) (hne : ch ≠ p)
    (hpar : t.snodeParent.getD ch 0 = p) (hpp : t.snodeParent.getD p 0 ≠ ch)
    (hn : 0 < t.nCliques) :
    ∃ t', PCStrategy.mergeTwoCliques t (ch, p) = .ok t' ∧ MergeSpec t p ch t' := by
  obtain ⟨t', h1, h2⟩ := merge_two_cliques_spec t p ch hinv hp hc hne hpar hn
  refine ⟨t', ?_, h2⟩
  have h : MergeHyp t p ch := ⟨hinv, hp, hc, hne, hpar⟩
  have hnot : (t.snodeChildren.getD ch #[]).contains p = false := by
    have : p ∉ (t.snodeChildren.getD ch #[]).toList := fun hm => hpp ((h.mem_grand p).1 hm).2
    simpa using this
  have hcont : (t.snodeChildren.getD p #[]).contains ch = true := by
    simpa using h.ch_mem
  rw [← h1]
  unfold PCStrategy.mergeTwoCliques
  simp only []
  rw [getE_ok _ _ _ #[] (hinv.sz_ch ▸ h.ch_lt : ch < t.snodeChildren.size),
    getE_ok _ _ _ #[] (hinv.sz_ch ▸ h.p_lt : p < t.snodeChildren.size), ok_bind, ok_bind]
  simp only [hnot, hcont, if_true, Bool.false_eq_true, if_false]

/-! ### a concrete tree -/

/-- three cliques: root `2 = {4,5}`, its child `1 = {3 | 4}` and the grandchild `0 = {1,2 | 3}` -/
def exTree : SuperNodeTree :=
  { snode := #[#[1, 2], #[3], #[4, 5]]
    snodePost := #[0, 1, 2]
    snodeParent := #[1, 2, noParent]
    snodeChildren := #[#[], #[0], #[1]]
    post := #[0, 1, 2, 3, 4]
    separators := #[#[3], #[4], #[]]
    nblk := none
    nCliques := 3 }


/-- [S] all three cliques of `exTree` are live -/
theorem exTree_live (c : Nat) : Live exTree c ↔ c < 3 := by
  unfold Live
  constructor
  · intro h; exact h.1
  · intro h
    refine ⟨h, ?_⟩
    obtain rfl | rfl | rfl : c = 0 ∨ c = 1 ∨ c = 2 := by omega
    all_goals decide

/-- [S] `exTree` satisfies the invariant (the hypotheses of `merge_two_cliques_spec` are
satisfiable) -/
theorem exTree_inv : PCInv exTree where
  sz_sep := rfl
  sz_par := rfl
  sz_ch := rfl
  small := by decide
  par_live := by
    intro c hc
    rw [exTree_live] at hc
    obtain rfl | rfl | rfl : c = 0 ∨ c = 1 ∨ c = 2 := by omega
    all_goals (intro h; first | (rw [exTree_live]; decide) | exact absurd rfl h)
  ch_iff := by
    intro p c hp
    rw [exTree_live] at hp
    rw [exTree_live]
    obtain rfl | rfl | rfl : p = 0 ∨ p = 1 ∨ p = 2 := by omega
    all_goals
      by_cases hc : c < 3
      · obtain rfl | rfl | rfl : c = 0 ∨ c = 1 ∨ c = 2 := by omega
        all_goals decide
      · simp [exTree, hc]
        try omega
  ch_nodup := by
    intro p hp
    have hp : p < 3 := hp
    obtain rfl | rfl | rfl : p = 0 ∨ p = 1 ∨ p = 2 := by omega
    all_goals decide
  sep_sub := by
    intro c hc
    rw [exTree_live] at hc
    obtain rfl | rfl | rfl : c = 0 ∨ c = 1 ∨ c = 2 := by omega
    all_goals decide

/-- the tree after merging clique `1` into the root: clique `0` is re-attached to the root -/
def exTreeMerged : SuperNodeTree :=
  { snode := #[#[1, 2], #[], #[4, 5, 3]]
    snodePost := #[0, 1, 2]
    snodeParent := #[2, inactiveNode, noParent]
    snodeChildren := #[#[], #[], #[0]]
    post := #[0, 1, 2, 3, 4]
    separators := #[#[3], #[], #[]]
    nblk := none
    nCliques := 2 }

/-- non-vacuity: the merge of `(2, 1)` in `exTree` computes `exTreeMerged` -/
example : PCStrategy.mergeTwoCliques exTree (2, 1) = .ok exTreeMerged := by
  rw [mergeTwoCliques_eq exTree 2 1 (by decide) (by decide) (by decide) (by decide) (by decide)
    (by decide) (by decide) (by decide) (by decide) (by decide)]
  simp [mergedTree, exTree, exTreeMerged, reparent, VSet.extend, VSet.insert, VSet.shiftRemove]

/-- non-vacuity: `merge_two_cliques_spec` applies to `exTree`, so the merged tree satisfies
`PCInv` again, clique `1` is retired and every vertex of the old clique `1 = {3 | 4}` is
found in the new root clique -/
example : ∃ t', PCStrategy.mergeTwoCliques exTree (2, 1) = .ok t' ∧ PCInv t' ∧ ¬ Live t' 1 ∧
    ∀ v ∈ cliqueList exTree 1, v ∈ cliqueList t' 2 := by
  obtain ⟨t', h1, h2⟩ := merge_two_cliques_spec exTree 2 1 exTree_inv
    ((exTree_live 2).2 (by decide)) ((exTree_live 1).2 (by decide)) (by decide) (by decide)
    (by decide)
  exact ⟨t', h1, h2.inv, h2.dead, h2.cover_ch⟩

end Clarabel.Chordal
