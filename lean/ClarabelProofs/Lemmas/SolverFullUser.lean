/-
  Round 4 (composition) — from the USER's input to the hypotheses of the chain theorems.

  * `userData_of_new`   : for well-formed input (`InputOK`, C04) and positive scaling bounds, the record
                          `DefaultProblemData::new` returns satisfies `InfoUser.UserData` — every field,
                          including `shape` and `canP` that round 3 left as hypotheses.
  * `problemDataNew_off`: with presolve off the record holds the user's `A`, `q`, the capped `b`,
                          the collapsed cone list and `P.to_triu()` (`P` itself when it is triangular).
  * `srec_chain`        : a sized pass record (`SRec`) of a solver object built by `new` unfolds into
                          the hypotheses of `InfoReport.chain_figures` / `InfoUser.chain_facts`:
                          `Residuals.update` on the internal data, `Info.update` with the cached
                          norms `‖b‖∞`, `‖q‖∞` of the un-equilibrated data, `StateShapes`.
-/
import ClarabelProofs.Lemmas.SolverFullDefs
import ClarabelProofs.Lemmas.SolverModelNoPanicNew
import ClarabelProofs.Lemmas.InfoEndToEnd
import ClarabelProofs.Lemmas.InfoNorms

namespace Clarabel.Solver
open Clarabel Info Residuals Clarabel.InfoUser

set_option linter.unusedSectionVars false
set_option linter.unusedVariables false

section generic
variable {α : Type}
variable [Add α] [Sub α] [Mul α] [Div α] [Neg α] [OfNat α 0] [OfNat α 1] [OfNat α 2]
  [OfNat α 100] [OfNat α 1000] [LT α] [DecidableLT α] [LE α] [DecidableLE α] [BEq α] [FloatLike α]

/-- `DefaultProblemData::new` leaves the identity equilibration record -/
theorem problemDataNew_fresh {P : Csc α} {q : Array α} {A : Csc α} {b : Array α}
    {cones : List (ConeT α)} {pe : Bool} {inf : α} {d : ProblemData α}
    (h : ProblemData.new P q A b cones pe false inf = .ok d) :
    d.equilibration = EquilData.new d.n d.m ∧ d.q = q := by
  unfold ProblemData.new at h
  obtain ⟨Pn, _, h⟩ := bind_ok_inv h
  obtain ⟨pre, _, h⟩ := bind_ok_inv h
  obtain ⟨rr, _, h⟩ := bind_ok_inv h
  simp only [Bool.false_and, Bool.false_eq_true, ↓reduceIte] at h
  cases h
  exact ⟨rfl, rfl⟩

/-- with presolve off the record holds the user's data: `A`, `q`, the capped `b`, the collapsed
cone list, `P.to_triu()` -/
theorem problemDataNew_off {P : Csc α} {q : Array α} {A : Csc α} {b : Array α}
    {cones : List (ConeT α)} {inf : α} {d : ProblemData α}
    (h : ProblemData.new P q A b cones false false inf = .ok d) :
    d.A = A ∧ d.q = q ∧ d.b = ProblemData.capB b inf ∧ d.cones = Cones.newCollapsed cones
      ∧ d.n = A.n ∧ d.m = A.m ∧ d.presolver = none ∧ ProblemData.triuStep P = .ok d.P := by
  unfold ProblemData.new at h
  obtain ⟨Pn, hP, h⟩ := bind_ok_inv h
  obtain ⟨pre, hpre, h⟩ := bind_ok_inv h
  have : pre = none := by
    unfold ProblemData.tryPresolver at hpre
    simp only [Bool.not_false, ↓reduceIte] at hpre
    cases hpre
    rfl
  subst this
  obtain ⟨rr, hrr, h⟩ := bind_ok_inv h
  unfold ProblemData.reduceStep at hrr
  cases hrr
  simp only [Bool.false_and, Bool.false_eq_true, ↓reduceIte] at h
  cases h
  exact ⟨rfl, rfl, rfl, rfl, rfl, rfl, rfl, hP⟩

/-- `to_triu` is skipped for a triangular `P` -/
theorem triuStep_of_isTriu {P Pn : Csc α} (h : ProblemData.triuStep P = .ok Pn) (ht : P.isTriu = true) :
    Pn = P := by
  unfold ProblemData.triuStep at h
  rw [if_neg (by simp [ht])] at h
  cases h
  rfl

/-- with presolve off no row map is recorded -/
theorem presolveMap_of_off {d : ProblemData α} (h : d.presolver = none) : presolveMap d = none := by
  unfold presolveMap; rw [h]

end generic

/-! ### over ℝ: `UserData`, the chain hypotheses -/

/-- **`UserData` from the user's input.**  For well-formed input (`InputOK`: `P`, `A` canonical CSC,
`P` square, `A` `m×n`, `|q| = n`, `|b| = m`, cones covering the `m` rows) and positive scaling
bounds, the record `DefaultProblemData::new` returns satisfies every field of `UserData` (with its
own — collapsed, possibly reduced — cone list). -/
theorem userData_of_new {P : Csc ℝ} {q : Array ℝ} {A : Csc ℝ} {b : Array ℝ} {cones : List (ConeT ℝ)}
    (hin : InputOK P q A b cones) {pe : Bool} {inf : ℝ} {d0 : ProblemData ℝ} (es : Equil.Settings ℝ)
    (hlo : 0 < es.minScaling) (hhi : 0 < es.maxScaling)
    (h : ProblemData.new P q A b cones pe false inf = .ok d0) :
    UserData d0 d0.cones es ∧ PreOK A d0 := by
  obtain ⟨d, hd, hpre⟩ := problemDataNew_spec hin pe inf
  rw [h] at hd
  cases hd
  exact ⟨⟨(problemDataNew_fresh h).1, shapesOk_of_dataOK hpre.data, hpre.data.P_canon.canon,
    hpre.data.A_canon.canon, hpre.numel, hlo, hhi⟩, hpre⟩

/-- **a sized pass record is an instance of the chain on the user's data**: the hypotheses of
`InfoReport.chain_figures` / `InfoUser.chain_facts` for the iterate `p.vars`, with the norms
`‖b‖∞` (of the capped, possibly row-reduced `b`) and `‖q‖∞` cached by `DefaultProblemData::new`. -/
theorem srec_chain {P : Csc ℝ} {q : Array ℝ} {A : Csc ℝ} {b : Array ℝ} {cones : List (ConeT ℝ)}
    {st : Settings ℝ} {S : Solver ℝ} {d0 : ProblemData ℝ} (hA : NewAnatomy P q A b cones st S d0)
    {p : PassRec ℝ} (hp : SRec S.st.data p) :
    ∃ (r0 res : Resid ℝ) (i : InfoS ℝ), StateShapes d0.n d0.m p.vars r0
      ∧ Residuals.update r0 p.vars (toResidData S.st.data) = .ok res
      ∧ Info.update i (toInfoEquil S.st.data.equilibration) (Vec.normInf q) (Vec.normInf d0.b) p.vars res
          = .ok p.info
      ∧ p.dotBz = res.dot_bz ∧ p.dotQx = res.dot_qx := by
  obtain ⟨S0, iter, res, mu, hd, hv, hS, htop, hbz, hqx⟩ := hp
  obtain ⟨hnb, hnq⟩ := norms_are_users P q A b cones st.presolveEnable false st.infbound d0 S.st.data
    d0.cones st.equil hA.pdata hA.equil
  unfold topNumerics at htop
  dsimp only at htop
  obtain ⟨res', hres, htop⟩ := bind_ok_inv htop
  obtain ⟨nq, hq, htop⟩ := bind_ok_inv htop
  obtain ⟨nb, hb, htop⟩ := bind_ok_inv htop
  obtain ⟨i1, hi1, htop⟩ := bind_ok_inv htop
  cases htop
  rw [hd] at hres hq hb hi1
  have hq' : nq = Vec.normInf q := by
    have : Info.getNormq S.st.data.normq S.st.data.q (equilView S.st.data.equilibration).dinv
        (equilView S.st.data.equilibration).c = .ok nq := hq
    rw [show (equilView S.st.data.equilibration).dinv = S.st.data.equilibration.dinv from rfl,
      show (equilView S.st.data.equilibration).c = S.st.data.equilibration.c from rfl, hnq] at this
    exact (Except.ok.inj this).symm
  have hb' : nb = Vec.normInf d0.b := by
    have : Info.getNormb S.st.data.normb S.st.data.b (equilView S.st.data.equilibration).einv = .ok nb := hb
    rw [show (equilView S.st.data.equilibration).einv = S.st.data.equilibration.einv from rfl, hnb] at this
    exact (Except.ok.inj this).symm
  subst hq' hb'
  have hn : S0.data.n = d0.n := by rw [hd, hA.n]
  have hm : S0.data.m = d0.m := by rw [hd, hA.m]
  refine ⟨S0.residuals, res, { S0.info with iterations := iter }, ?_, ?_, ?_, hbz, hqx⟩
  · rw [← hv, ← hn, ← hm]
    exact ⟨hS.vars.x, hS.vars.s, hS.vars.z, hS.resid.Px, hS.resid.rx, hS.resid.rz, hS.resid.rx_inf,
      hS.resid.rz_inf⟩
  · rw [← hv]; exact hres
  · rw [← hv]; exact hi1

end Clarabel.Solver
