/-
  Helper lemmas about the SOC scaling operators over ℝ (C13): closed forms of `mul_W`,
  `mul_Winv`, `mul_Hs`, the Jordan product and its inverse.
-/
import ClarabelProofs.Lemmas.ConesSoc

namespace Clarabel.Soc

theorem dotL_map_mul (l m : List ℝ) (k : ℝ) : dotL (l.map (fun v => v * k)) m = k * dotL l m := by
  induction l generalizing m with
  | nil => simp
  | cons a t ih => cases m with
    | nil => simp
    | cons b u => simp [ih u]; ring

/-- `⟨c·w + x, m⟩` for the element-wise combination used by `mul_W` -/
theorem dotL_lin (w x m : List ℝ) (c d : ℝ) (h : w.length = x.length) :
    dotL m (List.zipWith (fun wi xi => c * wi + d * xi) w x) = c * dotL m w + d * dotL m x := by
  induction w generalizing x m with
  | nil => cases x with
    | nil => simp
    | cons b u => simp at h
  | cons a t ih => cases x with
    | nil => simp at h
    | cons b u => cases m with
      | nil => simp
      | cons e f =>
        simp only [List.length_cons, add_left_inj] at h
        simp only [List.zipWith_cons_cons, dotL_cons, ih u f h]
        ring

/-- closed form of `mul_W` with `α = 1, β = 0` -/
theorem mulWCore_one_zero (y0 : ℝ) (y1 : List ℝ) (x0 : ℝ) (x1 : List ℝ) (w0 : ℝ) (w1 : List ℝ) (eta : ℝ)
    (hy : y1.length = w1.length) (hx : x1.length = w1.length) :
    mulWCore y0 y1 x0 x1 1 0 w0 w1 eta =
      (eta * (w0 * x0 + dotL w1 x1),
       List.zipWith (fun wi xi => eta * (x0 + dotL w1 x1 / (1 + w0)) * wi + eta * xi) w1 x1) := by
  simp only [mulWCore, one_mul, zero_mul, add_zero]
  refine Prod.ext rfl ?_
  apply List.ext_getElem
  · simp [hy, hx]
  · intro i h1 h2
    simp
    ring

theorem mulWinvCore_one_zero (y0 : ℝ) (y1 : List ℝ) (x0 : ℝ) (x1 : List ℝ) (w0 : ℝ) (w1 : List ℝ) (eta : ℝ)
    (hy : y1.length = w1.length) (hx : x1.length = w1.length) :
    mulWinvCore y0 y1 x0 x1 1 0 w0 w1 eta =
      (1 / eta * (w0 * x0 - dotL w1 x1),
       List.zipWith (fun wi xi => 1 / eta * (-x0 + dotL w1 x1 / (1 + w0)) * wi + 1 / eta * xi) w1 x1) := by
  simp only [mulWinvCore, zero_mul, add_zero]
  refine Prod.ext rfl ?_
  apply List.ext_getElem
  · simp [hy, hx]
  · intro i h1 h2
    simp
    ring

/-- [R] `W W⁻¹ = I` for every normalised `w` (`w₀² − ‖w₁‖² = 1`, `w₀ > 0`) and `η ≠ 0`. -/
theorem mulW_mulWinv (x0 : ℝ) (x1 : List ℝ) (w0 : ℝ) (w1 : List ℝ) (eta : ℝ) (y0 y0' : ℝ) (y1 y1' : List ℝ)
    (hw : w0 ^ 2 - dotL w1 w1 = 1) (hw0 : 0 < w0) (he : eta ≠ 0)
    (hx : x1.length = w1.length) (hy : y1.length = w1.length) (hy' : y1'.length = w1.length) :
    let u := mulWinvCore y0 y1 x0 x1 1 0 w0 w1 eta
    mulWCore y0' y1' u.1 u.2 1 0 w0 w1 eta = (x0, x1) := by
  intro u
  have hu : u = _ := mulWinvCore_one_zero y0 y1 x0 x1 w0 w1 eta hy hx
  have hul : u.2.length = w1.length := by rw [hu]; simp [hx]
  rw [mulWCore_one_zero y0' y1' u.1 u.2 w0 w1 eta hy' hul]
  have h1 : (1 + w0) ≠ 0 := by linarith
  have hd : dotL w1 u.2 = 1 / eta * (-x0 + dotL w1 x1 / (1 + w0)) * dotL w1 w1 + 1 / eta * dotL w1 x1 := by
    rw [hu]; exact dotL_lin w1 x1 w1 _ _ hx.symm
  have hww : dotL w1 w1 = (w0 - 1) * (w0 + 1) := by linarith [hw]
  have hu1 : u.1 = 1 / eta * (w0 * x0 - dotL w1 x1) := by rw [hu]
  refine Prod.ext ?_ ?_
  · show eta * (w0 * u.1 + dotL w1 u.2) = x0
    rw [hd, hu1, hww]; field_simp; ring
  · show List.zipWith _ w1 u.2 = x1
    apply List.ext_getElem
    · simp [hul, hx]
    · intro i h2 h3
      have hiw : i < w1.length := by simp [hul] at h2; exact h2
      have hix : i < x1.length := h3
      have hui : u.2[i]'(by rw [hul]; exact hiw) =
          1 / eta * (-x0 + dotL w1 x1 / (1 + w0)) * w1[i] + 1 / eta * x1[i] := by
        simp [hu]
      simp only [List.getElem_zipWith, hui, hd, hu1, hww]
      field_simp
      ring


/-- `w` comes out normalised: `w₀² − ‖w₁‖² = 1` -/
theorem scalingW_normalised (s0 : ℝ) (s1 : List ℝ) (z0 : ℝ) (z1 : List ℝ) (ss zs w0 ws : ℝ) (w1 : List ℝ)
    (h : scalingW s0 s1 z0 z1 ss zs = some (w0, w1, ws)) : w0 ^ 2 - dotL w1 w1 = 1 ∧ 0 < w0 := by
  unfold scalingW at h
  simp only at h
  split at h
  · cases h
  · simp only [Option.some.injEq, Prod.mk.injEq] at h
    obtain ⟨h0, h1, _⟩ := h
    subst h0 h1
    have hn : 0 ≤ sumsqL (List.map (fun wi => wi * (1 / sqrtSocResidual (s0 * (1 / ss) + z0 / zs)
        (List.zipWith (fun wi zi => -(1 / zs) * zi + 1 * wi) (List.map (fun si => si * (1 / ss)) s1) z1)))
        (List.zipWith (fun wi zi => -(1 / zs) * zi + 1 * wi) (List.map (fun si => si * (1 / ss)) s1) z1)) :=
      dotL_self_nonneg _
    constructor
    · rw [real_sqrt_eq, Real.sq_sqrt (by linarith)]
      rw [sumsqL_eq]; ring
    · rw [real_sqrt_eq]; exact Real.sqrt_pos.mpr (by linarith)

/-- [R] `mul_Hs x = η²(2ww' − J)x`, `J = diag(1, −I)` -/
theorem mulHsCore_eq (x0 : ℝ) (x1 : List ℝ) (w0 : ℝ) (w1 : List ℝ) (eta : ℝ) (hx : x1.length = w1.length) :
    mulHsCore x0 x1 w0 w1 eta =
      (eta ^ 2 * (2 * (w0 * x0 + dotL w1 x1) * w0 - x0),
       List.zipWith (fun wi xi => eta ^ 2 * (2 * (w0 * x0 + dotL w1 x1) * wi + xi)) w1 x1) := by
  simp only [mulHsCore, vecdot_join, two_real]
  refine Prod.ext (by ring) ?_
  apply List.ext_getElem
  · simp [hx]
  · intro i h1 h2
    simp
    ring

/-- [R] `circ_op` is the Jordan product `y ∘ z = (⟨y,z⟩, y₀z₁ + z₀y₁)` and is commutative -/
theorem circOpCore_eq (y0 : ℝ) (y1 : List ℝ) (z0 : ℝ) (z1 : List ℝ) (h : y1.length = z1.length) :
    circOpCore y0 y1 z0 z1 = (y0 * z0 + dotL y1 z1, List.zipWith (fun yi zi => y0 * zi + z0 * yi) y1 z1) ∧
    circOpCore y0 y1 z0 z1 = circOpCore z0 z1 y0 y1 := by
  simp only [circOpCore, vecdot_join]
  refine ⟨Prod.ext rfl ?_, Prod.ext (by simp [dotL_comm, mul_comm]) ?_⟩
  · apply List.ext_getElem
    · simp [h]
    · intro i h1 h2; simp
  · apply List.ext_getElem
    · simp [h]
    · intro i h1 h2; simp; ring

/-- [R] `inv_circ_op y (y ∘ z) = z` for `y₀ ≠ 0`, `y₀² ≠ ‖y₁‖²` (in particular `y ∈ int K`) -/
theorem invCirc_circ (y0 : ℝ) (y1 : List ℝ) (z0 : ℝ) (z1 : List ℝ) (h : y1.length = z1.length)
    (hy0 : y0 ≠ 0) (hres : y0 ^ 2 - dotL y1 y1 ≠ 0) :
    let t := circOpCore y0 y1 z0 z1
    invCircOpCore y0 y1 t.1 t.2 = (z0, z1) := by
  intro t
  have ht : t = _ := (circOpCore_eq y0 y1 z0 z1 h).1
  have ht1 : t.1 = y0 * z0 + dotL y1 z1 := by rw [ht]
  have htl : t.2.length = z1.length := by rw [ht]; simp [h]
  have hv : dotL y1 t.2 = y0 * dotL y1 z1 + z0 * dotL y1 y1 := by
    rw [ht]
    have := dotL_lin z1 y1 y1 y0 z0 h.symm
    have e : List.zipWith (fun yi zi => y0 * zi + z0 * yi) y1 z1 =
        List.zipWith (fun wi xi => y0 * wi + z0 * xi) z1 y1 := by
      apply List.ext_getElem
      · simp [h]
      · intro i h1 h2; simp
    rw [e, this]
  simp only [invCircOpCore, socResidual_eq, hv, ht1]
  refine Prod.ext ?_ ?_
  · simp only; field_simp; ring
  · simp only
    apply List.ext_getElem
    · simp [htl, h]
    · intro i h1 h2
      have hti : t.2[i]'(by rw [htl]; exact h2) = y0 * z1[i] + z0 * y1[i]'(by rw [h]; exact h2) := by
        simp [ht]
      simp only [List.getElem_zipWith, hti]
      field_simp
      ring


/-- on success `update_scaling` leaves a normalised `w` behind -/
theorem updateScalingCore_normalised (K K' : Cone ℝ) (s0 : ℝ) (s1 : List ℝ) (z0 : ℝ) (z1 : List ℝ)
    (h : updateScalingCore K s0 s1 z0 z1 = (true, K')) :
    ∃ w0 w1, K'.w = join w0 w1 ∧ w0 ^ 2 - dotL w1 w1 = 1 ∧ 0 < w0 := by
  unfold updateScalingCore at h
  simp only at h
  split at h
  · simp at h
  · split at h
    · simp at h
    · rename_i w0 w1 ws hW
      simp only [Prod.mk.injEq, true_and] at h
      subst h
      exact ⟨w0, w1, rfl, scalingW_normalised _ _ _ _ _ _ _ _ _ hW⟩


theorem sqrtSocResidual_pos (x0 : ℝ) (x1 : List ℝ) (h : isZero (sqrtSocResidual x0 x1) = false) :
    0 < sqrtSocResidual x0 x1 ∧ sqrtSocResidual x0 x1 ^ 2 = x0 ^ 2 - dotL x1 x1 := by
  unfold sqrtSocResidual at h ⊢
  simp only at h ⊢
  split
  · rename_i hpos
    rw [real_sqrt_eq]
    exact ⟨Real.sqrt_pos.mpr hpos, by rw [Real.sq_sqrt hpos.le, socResidual_eq]⟩
  · rename_i hneg
    rw [if_neg hneg] at h
    have : isZero (0 : ℝ) = true := (isZero_real 0).mpr rfl
    rw [this] at h; cases h

/-- the un-normalised `w` tail written element-wise -/
theorem wb1_eq (s1 z1 : List ℝ) (ss zs : ℝ) (h : s1.length = z1.length) :
    List.zipWith (fun wi zi => -(1 / zs) * zi + 1 * wi) (s1.map (fun si => si * (1 / ss))) z1 =
      List.zipWith (fun si zi => (1 / ss) * si + (-(1 / zs)) * zi) s1 z1 := by
  apply List.ext_getElem
  · simp [h]
  · intro i h1 h2; simp; ring

theorem dotL_lin_left (w x m : List ℝ) (c d : ℝ) (h : w.length = x.length) :
    dotL (List.zipWith (fun wi xi => c * wi + d * xi) w x) m = c * dotL w m + d * dotL x m := by
  rw [dotL_comm, dotL_lin w x m c d h, dotL_comm m w, dotL_comm m x]

/-- what a successful `scalingW` returns, in closed form -/
theorem scalingW_closed (s0 : ℝ) (s1 : List ℝ) (z0 : ℝ) (z1 : List ℝ) (ss zs w0 ws : ℝ) (w1 : List ℝ)
    (hlen : s1.length = z1.length) (hss : 0 < ss) (hzs : 0 < zs) (hs0 : 0 < s0) (hz0 : 0 < z0)
    (hss2 : ss ^ 2 = s0 ^ 2 - dotL s1 s1) (hzs2 : zs ^ 2 = z0 ^ 2 - dotL z1 z1)
    (h : scalingW s0 s1 z0 z1 ss zs = some (w0, w1, ws)) :
    0 < ws ∧ ws ^ 2 = 2 + 2 * (s0 * z0 + dotL s1 z1) / (ss * zs) ∧
    w0 = (s0 / ss + z0 / zs) / ws ∧
    w1 = List.zipWith (fun si zi => ((1 / ss) * si + (-(1 / zs)) * zi) * (1 / ws)) s1 z1 := by
  unfold scalingW at h
  simp only at h
  rw [wb1_eq s1 z1 ss zs hlen] at h
  split at h
  · cases h
  · rename_i hz
    simp only [Bool.not_eq_true] at hz
    obtain ⟨hwpos, hw2⟩ := sqrtSocResidual_pos _ _ hz
    simp only [Option.some.injEq, Prod.mk.injEq] at h
    obtain ⟨h0, h1, h2⟩ := h
    rw [h2] at hwpos hw2 h1 h0
    -- ‖wb1‖²
    have hbb : dotL (List.zipWith (fun si zi => (1 / ss) * si + (-(1 / zs)) * zi) s1 z1)
        (List.zipWith (fun si zi => (1 / ss) * si + (-(1 / zs)) * zi) s1 z1) =
        (1 / ss) ^ 2 * dotL s1 s1 - 2 * (1 / ss) * (1 / zs) * dotL s1 z1 + (1 / zs) ^ 2 * dotL z1 z1 := by
      rw [dotL_lin_left s1 z1 _ _ _ hlen, dotL_lin s1 z1 s1 _ _ hlen, dotL_lin s1 z1 z1 _ _ hlen,
        dotL_comm z1 s1]
      ring
    have hws2 : ws ^ 2 = 2 + 2 * (s0 * z0 + dotL s1 z1) / (ss * zs) := by
      rw [hw2, hbb]
      have e1 : dotL s1 s1 = s0 ^ 2 - ss ^ 2 := by linarith
      have e2 : dotL z1 z1 = z0 ^ 2 - zs ^ 2 := by linarith
      rw [e1, e2]
      field_simp
      ring
    have hw1 : w1 = List.zipWith (fun si zi => ((1 / ss) * si + (-(1 / zs)) * zi) * (1 / ws)) s1 z1 := by
      rw [← h1]
      apply List.ext_getElem
      · simp
      · intro i h1 h2; simp
    refine ⟨hwpos, hws2, ?_, hw1⟩
    -- the recomputed w0
    rw [← h0, h1, real_sqrt_eq]
    have hnum : 0 < s0 / ss + z0 / zs := by positivity
    have hq : 0 < (s0 / ss + z0 / zs) / ws := div_pos hnum hwpos
    have hw1sq : sumsqL w1 = (1 / ws) ^ 2 * ((1 / ss) ^ 2 * dotL s1 s1 - 2 * (1 / ss) * (1 / zs) * dotL s1 z1
        + (1 / zs) ^ 2 * dotL z1 z1) := by
      rw [sumsqL_eq, ← hbb, ← h1, dotL_map_mul, dotL_comm, dotL_map_mul]
      ring
    rw [← Real.sqrt_sq hq.le]
    congr 1
    rw [hw1sq]
    have e1 : dotL s1 s1 = s0 ^ 2 - ss ^ 2 := by linarith
    have e2 : dotL z1 z1 = z0 ^ 2 - zs ^ 2 := by linarith
    have hws' : ws ^ 2 * (ss * zs) = 2 * (ss * zs) + 2 * (s0 * z0 + dotL s1 z1) := by
      rw [hws2]; field_simp
    rw [e1, e2]
    field_simp
    linear_combination (ss * zs) * hws'


/-- [R] `W z = λ` for the `λ` the code computes (success branch of `update_scaling`) -/
theorem mulW_z_eq_lam (s0 : ℝ) (s1 : List ℝ) (z0 : ℝ) (z1 : List ℝ) (ss zs w0 ws : ℝ) (w1 : List ℝ)
    (y0 : ℝ) (y1 : List ℝ)
    (hlen : s1.length = z1.length) (hy : y1.length = z1.length)
    (hss : 0 < ss) (hzs : 0 < zs) (hs0 : 0 < s0) (hz0 : 0 < z0)
    (hss2 : ss ^ 2 = s0 ^ 2 - dotL s1 s1) (hzs2 : zs ^ 2 = z0 ^ 2 - dotL z1 z1)
    (h : scalingW s0 s1 z0 z1 ss zs = some (w0, w1, ws)) :
    mulWCore y0 y1 z0 z1 1 0 w0 w1 (Real.sqrt (ss / zs)) = scalingLam s0 s1 z0 z1 ss zs ws := by
  obtain ⟨hws, hws2, hw0, hw1⟩ :=
    scalingW_closed s0 s1 z0 z1 ss zs w0 ws w1 hlen hss hzs hs0 hz0 hss2 hzs2 h
  set eta := Real.sqrt (ss / zs) with heta_def
  have heta : 0 < eta := Real.sqrt_pos.mpr (div_pos hss hzs)
  have heta2 : eta ^ 2 = ss / zs := Real.sq_sqrt (div_pos hss hzs).le
  have hsc : Real.sqrt (ss * zs) = eta * zs := by
    have : ss * zs = (eta * zs) ^ 2 := by rw [mul_pow, heta2]; field_simp
    rw [this, Real.sqrt_sq (by positivity)]
  have hw1' : w1 = List.zipWith (fun si zi => (1 / ss / ws) * si + (-(1 / zs) / ws) * zi) s1 z1 := by
    rw [hw1]
    apply List.ext_getElem
    · simp
    · intro i h1 h2; simp; ring
  have hw1len : w1.length = z1.length := by rw [hw1']; simp [hlen]
  have hzeta : dotL w1 z1 = (1 / ss / ws) * dotL s1 z1 + (-(1 / zs) / ws) * dotL z1 z1 := by
    rw [hw1']; exact dotL_lin_left s1 z1 z1 _ _ hlen
  have hws' : ws ^ 2 * (ss * zs) = 2 * (ss * zs) + 2 * (s0 * z0 + dotL s1 z1) := by
    rw [hws2]; field_simp
  have hp : dotL s1 z1 = (ws ^ 2 * (ss * zs) - 2 * (ss * zs)) / 2 - s0 * z0 := by linarith
  have hnz : dotL z1 z1 = z0 ^ 2 - zs ^ 2 := by linarith
  have hw0pos : 0 < w0 := by rw [hw0]; positivity
  have h1w : (1 + w0) ≠ 0 := by linarith
  have hD : s0 / ss + z0 / zs + 2 * (1 / 2 * ws) ≠ 0 := by
    have : 0 < s0 / ss + z0 / zs + 2 * (1 / 2 * ws) := by positivity
    exact this.ne'
  rw [mulWCore_one_zero y0 y1 z0 z1 w0 w1 eta (by rw [hy, hw1len]) hw1len.symm]
  simp only [scalingLam, half_real, two_real, real_sqrt_eq, hsc]
  refine Prod.ext ?_ ?_
  · simp only
    rw [hzeta, hp, hnz, hw0]
    field_simp
    ring
  · simp only
    apply List.ext_getElem
    · simp [hw1len, hlen]
    · intro i h1 h2
      have hiz : i < z1.length := by simpa [hw1len] using h1
      have his : i < s1.length := by rw [hlen]; exact hiz
      have hwi : w1[i]'(by rw [hw1len]; exact hiz) = (1 / ss / ws) * s1[i] + (-(1 / zs) / ws) * z1[i] := by
        simp [hw1']
      simp only [List.getElem_zipWith, List.getElem_map, hwi, hzeta, hp, hnz]
      have h1w' : 1 + (s0 / ss + z0 / zs) / ws ≠ 0 := by rw [← hw0]; exact h1w
      generalize s1[i] = a
      generalize z1[i] = b
      clear h1 h2
      subst hw0
      field_simp
      ring


/-- [R] `W⁻¹ s = λ` for the `λ` the code computes (success branch of `update_scaling`) -/
theorem mulWinv_s_eq_lam (s0 : ℝ) (s1 : List ℝ) (z0 : ℝ) (z1 : List ℝ) (ss zs w0 ws : ℝ) (w1 : List ℝ)
    (y0 : ℝ) (y1 : List ℝ)
    (hlen : s1.length = z1.length) (hy : y1.length = z1.length)
    (hss : 0 < ss) (hzs : 0 < zs) (hs0 : 0 < s0) (hz0 : 0 < z0)
    (hss2 : ss ^ 2 = s0 ^ 2 - dotL s1 s1) (hzs2 : zs ^ 2 = z0 ^ 2 - dotL z1 z1)
    (h : scalingW s0 s1 z0 z1 ss zs = some (w0, w1, ws)) :
    mulWinvCore y0 y1 s0 s1 1 0 w0 w1 (Real.sqrt (ss / zs)) = scalingLam s0 s1 z0 z1 ss zs ws := by
  obtain ⟨hws, hws2, hw0, hw1⟩ :=
    scalingW_closed s0 s1 z0 z1 ss zs w0 ws w1 hlen hss hzs hs0 hz0 hss2 hzs2 h
  clear h
  set eta := Real.sqrt (ss / zs) with heta_def
  have heta : 0 < eta := Real.sqrt_pos.mpr (div_pos hss hzs)
  have heta2 : eta ^ 2 = ss / zs := Real.sq_sqrt (div_pos hss hzs).le
  have hsc : Real.sqrt (ss * zs) = eta * zs := by
    have : ss * zs = (eta * zs) ^ 2 := by rw [mul_pow, heta2]; field_simp
    rw [this, Real.sqrt_sq (by positivity)]
  have hsse : ss = eta ^ 2 * zs := by rw [heta2]; field_simp
  have hw1' : w1 = List.zipWith (fun si zi => (1 / ss / ws) * si + (-(1 / zs) / ws) * zi) s1 z1 := by
    rw [hw1]
    apply List.ext_getElem
    · simp
    · intro i h1 h2; simp; ring
  have hw1len : w1.length = s1.length := by rw [hw1']; simp [hlen]
  have hzeta : dotL w1 s1 = (1 / ss / ws) * dotL s1 s1 + (-(1 / zs) / ws) * dotL z1 s1 := by
    rw [hw1']; exact dotL_lin_left s1 z1 s1 _ _ hlen
  have hws' : ws ^ 2 * (ss * zs) = 2 * (ss * zs) + 2 * (s0 * z0 + dotL s1 z1) := by
    rw [hws2]; field_simp
  have hp : dotL z1 s1 = (ws ^ 2 * (ss * zs) - 2 * (ss * zs)) / 2 - s0 * z0 := by
    rw [dotL_comm]; linarith
  have hns : dotL s1 s1 = s0 ^ 2 - ss ^ 2 := by linarith
  have hw0pos : 0 < w0 := by rw [hw0]; positivity
  have h1w : (1 + w0) ≠ 0 := by linarith
  have hD : s0 / ss + z0 / zs + 2 * (1 / 2 * ws) ≠ 0 := by
    have : 0 < s0 / ss + z0 / zs + 2 * (1 / 2 * ws) := by positivity
    exact this.ne'
  rw [mulWinvCore_one_zero y0 y1 s0 s1 w0 w1 eta (by rw [hy, hw1len, hlen]) hw1len.symm]
  simp only [scalingLam, half_real, two_real, real_sqrt_eq, hsc]
  have h1w' : 1 + (s0 / ss + z0 / zs) / ws ≠ 0 := by rw [← hw0]; exact h1w
  refine Prod.ext ?_ ?_
  · simp only
    rw [hzeta, hp, hns, hw0]
    clear_value eta
    clear hw1 hw1' hzeta hp hns hss2 hws2 hws' heta2 hsc hw1len
    subst hw0
    subst hsse
    have hz' : zs ≠ 0 := hzs.ne'
    have he' : eta ≠ 0 := heta.ne'
    field_simp
    ring
  · simp only
    apply List.ext_getElem
    · simp [hw1len, hlen]
    · intro i h1 h2
      have his : i < s1.length := by simpa [hw1len] using h1
      have hiz : i < z1.length := by rw [← hlen]; exact his
      have hwi : w1[i]'(by rw [hw1len]; exact his) = (1 / ss / ws) * s1[i] + (-(1 / zs) / ws) * z1[i] := by
        simp [hw1']
      simp only [List.getElem_zipWith, List.getElem_map, hwi, hzeta, hp, hns]
      generalize s1[i] = a
      generalize z1[i] = b
      clear h1 h2 hwi
      clear_value eta
      clear hw1 hw1' hzeta hp hns hss2 hws2 hws' heta2 hsc hw1len
      subst hw0
      subst hsse
      have hz' : zs ≠ 0 := hzs.ne'
      have he' : eta ≠ 0 := heta.ne'
      field_simp
      ring


theorem sqrtSocResidual_interior (x0 : ℝ) (x1 : List ℝ) (h : Interior x0 x1) :
    0 < sqrtSocResidual x0 x1 ∧ sqrtSocResidual x0 x1 ^ 2 = x0 ^ 2 - dotL x1 x1 := by
  have hpos : 0 < socResidual x0 x1 := by rw [socResidual_eq]; linarith [h.2]
  unfold sqrtSocResidual
  simp only [hpos, ↓reduceIte, real_sqrt_eq]
  exact ⟨Real.sqrt_pos.mpr hpos, by rw [Real.sq_sqrt hpos.le, socResidual_eq]⟩

/-- [R] the NT identities `W z = λ = W⁻¹ s` for the state left by a successful
`update_scaling` on interior `(s,z)` -/
theorem updateScalingCore_nt (K K' : Cone ℝ) (s0 : ℝ) (s1 : List ℝ) (z0 : ℝ) (z1 : List ℝ)
    (y0 : ℝ) (y1 : List ℝ) (hs : Interior s0 s1) (hz : Interior z0 z1)
    (hlen : s1.length = z1.length) (hy : y1.length = z1.length)
    (h : updateScalingCore K s0 s1 z0 z1 = (true, K')) :
    ∃ w0 w1 l0 l1, K'.w = join w0 w1 ∧ K'.lam = join l0 l1 ∧
      mulWCore y0 y1 z0 z1 1 0 w0 w1 K'.eta = (l0, l1) ∧
      mulWinvCore y0 y1 s0 s1 1 0 w0 w1 K'.eta = (l0, l1) := by
  obtain ⟨hss, hss2⟩ := sqrtSocResidual_interior s0 s1 hs
  obtain ⟨hzs, hzs2⟩ := sqrtSocResidual_interior z0 z1 hz
  unfold updateScalingCore at h
  simp only at h
  split at h
  · simp at h
  · split at h
    · simp at h
    · rename_i w0 w1 ws hW
      simp only [Prod.mk.injEq, true_and] at h
      subst h
      refine ⟨w0, w1, _, _, rfl, rfl, ?_, ?_⟩
      · have := mulW_z_eq_lam s0 s1 z0 z1 _ _ w0 ws w1 y0 y1 hlen hy hss hzs hs.1 hz.1 hss2 hzs2 hW
        simpa using this
      · have := mulWinv_s_eq_lam s0 s1 z0 z1 _ _ w0 ws w1 y0 y1 hlen hy hss hzs hs.1 hz.1 hss2 hzs2 hW
        simpa using this


/-- [R] the "more stable" `Δs_from_Δz_offset` equals its definition `Wᵀ(λ \ ds)` whenever
`z = W⁻¹λ` (i.e. `λ = W z`), `w` is normalised and `λ₀ ≠ 0`, `res(λ) ≠ 0`, `η ≠ 0`. -/
theorem dsFromDzOffset_eq (ds0 : ℝ) (ds1 : List ℝ) (l0 : ℝ) (l1 : List ℝ) (w0 : ℝ) (w1 : List ℝ)
    (eta : ℝ) (y0 y0' : ℝ) (y1 y1' : List ℝ)
    (hw : w0 ^ 2 - dotL w1 w1 = 1) (hw0 : 0 < w0) (he : eta ≠ 0)
    (hl0 : l0 ≠ 0) (hres : l0 ^ 2 - dotL l1 l1 ≠ 0)
    (hl : l1.length = w1.length) (hd : ds1.length = w1.length)
    (hy : y1.length = w1.length) (hy' : y1'.length = w1.length) :
    let z := mulWinvCore y0 y1 l0 l1 1 0 w0 w1 eta
    let q := invCircOpCore l0 l1 ds0 ds1
    dsFromDzOffsetCore ds0 ds1 z.1 z.2 l0 l1 w0 w1 eta = mulWCore y0' y1' q.1 q.2 1 0 w0 w1 eta := by
  intro z q
  have hz : z = _ := mulWinvCore_one_zero y0 y1 l0 l1 w0 w1 eta hy hl
  have hzl : z.2.length = w1.length := by rw [hz]; simp [hl]
  have hz1 : z.1 = 1 / eta * (w0 * l0 - dotL w1 l1) := by rw [hz]
  have h1w : (1 + w0) ≠ 0 := by linarith
  have hww : dotL w1 w1 = w0 ^ 2 - 1 := by linarith
  -- ‖z₁‖²
  have hzz : dotL z.2 z.2 =
      (1 / eta * (-l0 + dotL w1 l1 / (1 + w0))) ^ 2 * dotL w1 w1
      + 2 * (1 / eta * (-l0 + dotL w1 l1 / (1 + w0))) * (1 / eta) * dotL w1 l1
      + (1 / eta) ^ 2 * dotL l1 l1 := by
    rw [hz]
    simp only
    rw [dotL_lin_left w1 l1 _ _ _ hl.symm, dotL_lin w1 l1 w1 _ _ hl.symm, dotL_lin w1 l1 l1 _ _ hl.symm,
      dotL_comm l1 w1]
    ring
  have hresz : socResidual z.1 z.2 = (l0 ^ 2 - dotL l1 l1) / eta ^ 2 := by
    rw [socResidual_eq, hzz, hz1, hww]
    field_simp
    ring
  -- q = λ \\ ds in closed form
  have hq1 : q.1 = (l0 * ds0 - dotL l1 ds1) * (1 / (l0 ^ 2 - dotL l1 l1)) := by
    simp only [q, invCircOpCore, socResidual_eq]
  have hq2 : q.2 = List.zipWith (fun li di =>
      1 / (l0 ^ 2 - dotL l1 l1) * (dotL l1 ds1 / l0 - ds0) * li + 1 / l0 * di) l1 ds1 := by
    simp only [q, invCircOpCore, socResidual_eq]
  have hql : q.2.length = w1.length := by rw [hq2]; simp [hl, hd]
  have hwq : dotL w1 q.2 = 1 / (l0 ^ 2 - dotL l1 l1) * (dotL l1 ds1 / l0 - ds0) * dotL w1 l1
      + 1 / l0 * dotL w1 ds1 := by
    rw [hq2]; exact dotL_lin l1 ds1 w1 _ _ (by rw [hl, hd])
  rw [mulWCore_one_zero y0' y1' q.1 q.2 w0 w1 eta hy' hql]
  simp only [dsFromDzOffsetCore, hresz]
  refine Prod.ext ?_ ?_
  · simp only
    rw [hwq, hq1, hz1]
    field_simp
    ring
  · simp only
    apply List.ext_getElem
    · simp [hzl, hd, hql]
    · intro i h1 h2
      have hiw : i < w1.length := by simpa [hql] using h2
      have hzi : z.2[i]'(by rw [hzl]; exact hiw) =
          1 / eta * (-l0 + dotL w1 l1 / (1 + w0)) * w1[i] + 1 / eta * l1[i]'(by rw [hl]; exact hiw) := by
        simp [hz]
      have hqi : q.2[i]'(by rw [hql]; exact hiw) =
          1 / (l0 ^ 2 - dotL l1 l1) * (dotL l1 ds1 / l0 - ds0) * l1[i]'(by rw [hl]; exact hiw)
            + 1 / l0 * ds1[i]'(by rw [hd]; exact hiw) := by
        simp [hq2]
      simp only [List.getElem_zipWith, List.getElem_map, List.getElem_zip, hzi, hqi, hwq, hq1]
      generalize w1[i] = wi
      generalize l1[i]'(by rw [hl]; exact hiw) = li
      generalize ds1[i]'(by rw [hd]; exact hiw) = di
      field_simp
      ring



/-- Cauchy–Schwarz for the list dot product -/
theorem dotL_cauchy_schwarz (x y : List ℝ) (h : x.length = y.length) :
    dotL x y ^ 2 ≤ dotL x x * dotL y y := by
  have hq : ∀ α : ℝ, 0 ≤ dotL x x + 2 * α * dotL x y + α ^ 2 * dotL y y := by
    intro α; rw [← dotL_axpy_self x y α h]; exact dotL_self_nonneg _
  have hyy := dotL_self_nonneg y
  rcases hyy.lt_or_eq with hpos | hzero
  · have := hq (-(dotL x y) / dotL y y)
    have e : dotL x x + 2 * (-(dotL x y) / dotL y y) * dotL x y + (-(dotL x y) / dotL y y) ^ 2 * dotL y y
        = dotL x x - dotL x y ^ 2 / dotL y y := by
      field_simp; ring
    rw [e] at this
    have h2 : dotL x y ^ 2 / dotL y y ≤ dotL x x := by linarith
    rwa [div_le_iff₀ hpos] at h2
  · rw [← hzero, mul_zero]
    by_contra hne
    rw [not_le] at hne
    have hxy : dotL x y ≠ 0 := by
      intro h0; rw [h0] at hne; simp at hne
    have := hq (-(dotL x x + 1) / (2 * dotL x y))
    rw [← hzero] at this
    have e : dotL x x + 2 * (-(dotL x x + 1) / (2 * dotL x y)) * dotL x y
        + (-(dotL x x + 1) / (2 * dotL x y)) ^ 2 * 0 = -1 := by
      field_simp; ring
    rw [e] at this
    linarith

/-- for interior `s`, `z`: `s₀z₀ + ⟨s₁,z₁⟩ > 0` -/
theorem interior_pair_pos (s0 : ℝ) (s1 : List ℝ) (z0 : ℝ) (z1 : List ℝ) (hs : Interior s0 s1)
    (hz : Interior z0 z1) (hlen : s1.length = z1.length) : 0 < s0 * z0 + dotL s1 z1 := by
  have hcs := dotL_cauchy_schwarz s1 z1 hlen
  have h1 : dotL s1 z1 ^ 2 < (s0 * z0) ^ 2 := by
    have hns := dotL_self_nonneg s1
    have hnz := dotL_self_nonneg z1
    have : dotL s1 s1 * dotL z1 z1 < s0 ^ 2 * z0 ^ 2 := by
      have hz2 : 0 < z0 ^ 2 := by have := hz.1; positivity
      calc dotL s1 s1 * dotL z1 z1 ≤ dotL s1 s1 * z0 ^ 2 := by
            exact mul_le_mul_of_nonneg_left hz.2.le hns
        _ < s0 ^ 2 * z0 ^ 2 := by exact mul_lt_mul_of_pos_right hs.2 hz2
    calc dotL s1 z1 ^ 2 ≤ _ := hcs
      _ < s0 ^ 2 * z0 ^ 2 := this
      _ = (s0 * z0) ^ 2 := by ring
  have hpos : 0 < s0 * z0 := mul_pos hs.1 hz.1
  have := abs_lt_of_sq_lt_sq h1 hpos.le
  have := (abs_lt.mp this).1
  linarith

/-- the residual of the un-normalised `w` -/
theorem wb_residual (s0 : ℝ) (s1 : List ℝ) (z0 : ℝ) (z1 : List ℝ) (ss zs : ℝ)
    (hlen : s1.length = z1.length) (hss : 0 < ss) (hzs : 0 < zs)
    (hss2 : ss ^ 2 = s0 ^ 2 - dotL s1 s1) (hzs2 : zs ^ 2 = z0 ^ 2 - dotL z1 z1) :
    socResidual (s0 * (1 / ss) + z0 / zs)
      (List.zipWith (fun wi zi => -(1 / zs) * zi + 1 * wi) (s1.map (fun si => si * (1 / ss))) z1) =
      2 + 2 * (s0 * z0 + dotL s1 z1) / (ss * zs) := by
  rw [wb1_eq s1 z1 ss zs hlen, socResidual_eq,
    dotL_lin_left s1 z1 _ _ _ hlen, dotL_lin s1 z1 s1 _ _ hlen, dotL_lin s1 z1 z1 _ _ hlen,
    dotL_comm z1 s1]
  have e1 : dotL s1 s1 = s0 ^ 2 - ss ^ 2 := by linarith
  have e2 : dotL z1 z1 = z0 ^ 2 - zs ^ 2 := by linarith
  rw [e1, e2]
  field_simp
  ring

theorem sqrtSocResidual_of_pos (x0 : ℝ) (x1 : List ℝ) (h : 0 < socResidual x0 x1) :
    0 < sqrtSocResidual x0 x1 := by
  unfold sqrtSocResidual
  simp only [h, ↓reduceIte, real_sqrt_eq]
  exact Real.sqrt_pos.mpr h

/-- [R] `update_scaling` succeeds on interior `(s,z)` -/
theorem updateScalingCore_succeeds (K : Cone ℝ) (s0 : ℝ) (s1 : List ℝ) (z0 : ℝ) (z1 : List ℝ)
    (hs : Interior s0 s1) (hz : Interior z0 z1) (hlen : s1.length = z1.length) :
    (updateScalingCore K s0 s1 z0 z1).1 = true := by
  obtain ⟨hss, hss2⟩ := sqrtSocResidual_interior s0 s1 hs
  obtain ⟨hzs, hzs2⟩ := sqrtSocResidual_interior z0 z1 hz
  have hzz : isZero (sqrtSocResidual z0 z1) = false := by
    rw [← Bool.not_eq_true, isZero_real]; exact hzs.ne'
  have hsz : isZero (sqrtSocResidual s0 s1) = false := by
    rw [← Bool.not_eq_true, isZero_real]; exact hss.ne'
  have hres := wb_residual s0 s1 z0 z1 _ _ hlen hss hzs hss2 hzs2
  have hpos : 0 < 2 + 2 * (s0 * z0 + dotL s1 z1) / (sqrtSocResidual s0 s1 * sqrtSocResidual z0 z1) := by
    have := interior_pair_pos s0 s1 z0 z1 hs hz hlen
    positivity
  have hW : ∃ r, scalingW s0 s1 z0 z1 (sqrtSocResidual s0 s1) (sqrtSocResidual z0 z1) = some r := by
    unfold scalingW
    simp only
    have hw : isZero (sqrtSocResidual (s0 * (1 / sqrtSocResidual s0 s1) + z0 / sqrtSocResidual z0 z1)
        (List.zipWith (fun wi zi => -(1 / sqrtSocResidual z0 z1) * zi + 1 * wi)
          (s1.map (fun si => si * (1 / sqrtSocResidual s0 s1))) z1)) = false := by
      rw [← Bool.not_eq_true, isZero_real]
      exact (sqrtSocResidual_of_pos _ _ (by rw [hres]; exact hpos)).ne'
    rw [hw]
    exact ⟨_, rfl⟩
  obtain ⟨⟨w0, w1, ws⟩, hW⟩ := hW
  unfold updateScalingCore
  simp only [hzz, hsz, Bool.or_self, Bool.false_eq_true, ↓reduceIte, hW]


/-- `W·W = η²(2ww′ − J)`: two applications of `mul_W` are `mul_Hs` (normalised `w`) -/
theorem mulW_mulW_eq_mulHs (x0 : ℝ) (x1 : List ℝ) (w0 : ℝ) (w1 : List ℝ) (eta : ℝ) (y0 y0' : ℝ)
    (y1 y1' : List ℝ) (hw : w0 ^ 2 - dotL w1 w1 = 1) (hw0 : 0 < w0)
    (hx : x1.length = w1.length) (hy : y1.length = w1.length) (hy' : y1'.length = w1.length) :
    let u := mulWCore y0 y1 x0 x1 1 0 w0 w1 eta
    mulWCore y0' y1' u.1 u.2 1 0 w0 w1 eta = mulHsCore x0 x1 w0 w1 eta := by
  intro u
  have hu : u = _ := mulWCore_one_zero y0 y1 x0 x1 w0 w1 eta hy hx
  have hul : u.2.length = w1.length := by rw [hu]; simp [hx]
  rw [mulWCore_one_zero y0' y1' u.1 u.2 w0 w1 eta hy' hul, mulHsCore_eq x0 x1 w0 w1 eta hx]
  have h1 : (1 + w0) ≠ 0 := by linarith
  have hd : dotL w1 u.2 = eta * (x0 + dotL w1 x1 / (1 + w0)) * dotL w1 w1 + eta * dotL w1 x1 := by
    rw [hu]; exact dotL_lin w1 x1 w1 _ _ hx.symm
  have hww : dotL w1 w1 = (w0 - 1) * (w0 + 1) := by linarith [hw]
  have hu1 : u.1 = eta * (w0 * x0 + dotL w1 x1) := by rw [hu]
  refine Prod.ext ?_ ?_
  · simp only
    rw [hd, hu1, hww]; field_simp; ring
  · simp only
    apply List.ext_getElem
    · simp [hul, hx]
    · intro i h2 h3
      have hiw : i < w1.length := by simpa [hul] using h2
      have hui : u.2[i]'(by rw [hul]; exact hiw) =
          eta * (x0 + dotL w1 x1 / (1 + w0)) * w1[i] + eta * x1[i]'(by rw [hx]; exact hiw) := by
        simp [hu]
      simp only [List.getElem_zipWith, hui, hd, hu1, hww]
      field_simp
      ring

/-- [R] `(WᵀW) z = s`: `mul_Hs z = s` for the state left by a successful `update_scaling`
on interior `(s,z)` -/
theorem updateScalingCore_WtW (K K' : Cone ℝ) (s0 : ℝ) (s1 : List ℝ) (z0 : ℝ) (z1 : List ℝ)
    (hs : Interior s0 s1) (hz : Interior z0 z1) (hlen : s1.length = z1.length)
    (h : updateScalingCore K s0 s1 z0 z1 = (true, K')) :
    ∃ w0 w1, K'.w = join w0 w1 ∧ mulHsCore z0 z1 w0 w1 K'.eta = (s0, s1) := by
  obtain ⟨hss, hss2⟩ := sqrtSocResidual_interior s0 s1 hs
  obtain ⟨hzs, hzs2⟩ := sqrtSocResidual_interior z0 z1 hz
  have h' := h
  unfold updateScalingCore at h
  simp only at h
  split at h
  · simp at h
  · split at h
    · simp at h
    · rename_i w0 w1 ws hW
      simp only [Prod.mk.injEq, true_and] at h
      obtain ⟨hnorm, hw0⟩ := scalingW_normalised _ _ _ _ _ _ _ _ _ hW
      obtain ⟨_, _, _, hw1⟩ :=
        scalingW_closed s0 s1 z0 z1 _ _ w0 ws w1 hlen hss hzs hs.1 hz.1 hss2 hzs2 hW
      have hw1len : w1.length = z1.length := by rw [hw1]; simp [hlen]
      have heta : K'.eta = Real.sqrt (sqrtSocResidual s0 s1 / sqrtSocResidual z0 z1) := by
        rw [← h]; rfl
      have hKw : K'.w = join w0 w1 := by rw [← h]
      have hepos : K'.eta ≠ 0 := by
        rw [heta]; exact (Real.sqrt_pos.mpr (div_pos hss hzs)).ne'
      have hWz := mulW_z_eq_lam s0 s1 z0 z1 _ _ w0 ws w1 z0 z1 hlen rfl hss hzs hs.1 hz.1 hss2 hzs2 hW
      have hWs := mulWinv_s_eq_lam s0 s1 z0 z1 _ _ w0 ws w1 z0 z1 hlen rfl hss hzs hs.1 hz.1 hss2 hzs2 hW
      rw [← heta] at hWz hWs
      refine ⟨w0, w1, hKw, ?_⟩
      have e1 := mulW_mulW_eq_mulHs z0 z1 w0 w1 K'.eta z0 z0 z1 z1 hnorm hw0 hw1len.symm hw1len.symm
        hw1len.symm
      have e2 := mulW_mulWinv s0 s1 w0 w1 K'.eta z0 z0 z1 z1 hnorm hw0 hepos (by rw [hlen, hw1len])
        hw1len.symm hw1len.symm
      simp only at e1 e2
      rw [← e1, hWz, ← hWs]
      exact e2


end Clarabel.Soc
