/-
  C12: from the entrywise LDLᵀ equations of `_factor_inner` to the matrix identity
  `(1 + L) · diag d · (1 + L)ᵀ = A` needed by `solve_correct_csc` (regulariser off).
-/
import ClarabelProofs.Lemmas.QdldlFactorVal
import ClarabelProofs.Lemmas.QdldlSolve
import Mathlib.Data.Matrix.Mul
import Mathlib.Data.Matrix.Diagonal

namespace Clarabel.Qdldl
open BigOperators Matrix

variable {α : Type} [Field α] [DecidableEq α] [LT α] [DecidableLT α] [FloatLike α]

theorem ldl_entry (n : Nat) (L : Nat → Nat → α) (d : Nat → α) (r c : Fin n) :
    ((1 + Matrix.of fun i j : Fin n => L i j) * Matrix.diagonal (fun i : Fin n => d i) *
      (1 + Matrix.of fun i j : Fin n => L i j)ᵀ : Matrix (Fin n) (Fin n) α) r c =
    (if r = c then d r else 0) + d r * L c r + L r c * d c + ∑ k ∈ Finset.range n, L r k * d k * L c k := by
  rw [Matrix.mul_apply]
  simp only [Matrix.mul_diagonal, Matrix.transpose_apply, Matrix.add_apply, Matrix.one_apply, Matrix.of_apply]
  rw [← Fin.sum_univ_eq_sum_range (fun k => L r k * d k * L c k) n]
  simp only [add_mul, mul_add, Finset.sum_add_distrib, ite_mul, one_mul, zero_mul, mul_ite, mul_one, mul_zero,
    Finset.sum_ite_eq, Finset.mem_univ, if_true]
  by_cases h : r = c
  · subst h; simp only [↓reduceIte]; ring
  · simp only [h, ↓reduceIte]; ring

/-- the entrywise equations are the matrix identity `(1+L) D (1+L)ᵀ = Sym(a)` -/
theorem ldl_matrix_form (n : Nat) (L : Nat → Nat → α) (d : Nat → α) (a : Nat → Nat → α)
    (h0 : ∀ r c, c < n → r ≤ c → L r c = 0)
    (h1 : ∀ r, r < n → ∀ c, c < r → L r c * d c + ∑ j ∈ Finset.range c, L c j * (L r j * d j) = a c r)
    (h2 : ∀ r, r < n → (∑ j ∈ Finset.range r, (L r j * d j) * L r j) + d r = a r r)
    (r c : Fin n) :
    ((1 + Matrix.of fun i j : Fin n => L i j) * Matrix.diagonal (fun i : Fin n => d i) *
      (1 + Matrix.of fun i j : Fin n => L i j)ᵀ : Matrix (Fin n) (Fin n) α) r c =
      a (min r.val c.val) (max r.val c.val) := by
  rw [ldl_entry]
  have hr := r.isLt
  have hc := c.isLt
  rcases Nat.lt_trichotomy c.val r.val with hlt | heq | hgt
  · have hne : r ≠ c := fun e => by rw [e] at hlt; exact Nat.lt_irrefl _ hlt
    rw [if_neg hne, h0 c r hr (Nat.le_of_lt hlt), mul_zero, zero_add, zero_add,
      sum_range_trunc n c (by omega) (fun k => L r k * d k * L c k) (by
        intro k hk1 hk2; rw [h0 c k hk2 hk1, mul_zero]),
      Nat.min_eq_right (Nat.le_of_lt hlt), Nat.max_eq_left (Nat.le_of_lt hlt), ← h1 r hr c hlt]
    congr 1
    exact Finset.sum_congr rfl (fun j _ => by ring)
  · have he : r = c := Fin.ext heq.symm
    subst he
    rw [if_pos rfl, h0 r r hr (Nat.le_refl _), mul_zero, zero_mul, add_zero, add_zero,
      sum_range_trunc n r (by omega) (fun k => L r k * d k * L r k) (by
        intro k hk1 hk2; rw [h0 r k hk2 hk1, mul_zero]),
      Nat.min_self, Nat.max_self, ← h2 r hr]
    ring
  · have hne : r ≠ c := fun e => by rw [e] at hgt; exact Nat.lt_irrefl _ hgt
    rw [if_neg hne, h0 r c hc (Nat.le_of_lt hgt), zero_mul, zero_add, add_zero,
      sum_range_trunc n r (by omega) (fun k => L r k * d k * L c k) (by
        intro k hk1 hk2; rw [h0 r k hk2 hk1, zero_mul, zero_mul]),
      Nat.min_eq_left (Nat.le_of_lt hgt), Nat.max_eq_right (Nat.le_of_lt hgt), ← h1 c hc r hgt]
    rw [mul_comm (d r)]
    congr 1
    exact Finset.sum_congr rfl (fun j _ => by ring)

end Clarabel.Qdldl
