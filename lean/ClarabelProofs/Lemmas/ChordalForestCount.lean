/-
  COUNTING CHARACTERISATION OF FORESTS, on the vocabulary of `ChordalKruskal.lean` (`Conn`,
  `ForestFrom`, `Reps`): an edge list on the duplicate-free vertex list `L` has at least
  `|L| - #edges` connectivity classes, with equality iff it is acyclic.  This makes acyclicity
  independent of the order in which the edges are listed and is the tool behind
  `ChordalKruskalMax.lean` (greedy = maximum weight) and `ChordalJTContract.lean` (contracting an edge
  of a forest leaves a forest).

  * `reps_length_le`  : a coarser connectivity has at most as many classes;
  * `reps_length_eq`  : the number of classes does not depend on the chosen representatives;
  * `reps_general`    : classes after adding any edges, and the equality case;
  * `reps_exists`     : every edge list has a system of representatives;
  * `forest_iff_count`: `ForestFrom [] ms ↔ #classes + #edges = |L|`.
-/
import ClarabelProofs.Lemmas.ChordalKruskal
import Mathlib.Data.List.Perm.Subperm

namespace Clarabel.Chordal
open Clarabel

/-- [S] A COARSER CONNECTIVITY HAS AT MOST AS MANY CLASSES -/
theorem reps_length_le {l l' : List (Nat × Nat)} {L r r' : List Nat} (hr : Reps l L r)
    (hr' : Reps l' L r') (hsub : ∀ a b, a ∈ L → b ∈ L → Conn l a b → Conn l' a b) :
    r'.length ≤ r.length := by
  classical
  let f : Nat → Nat := fun x => if h : x ∈ L then Classical.choose (hr.cover x h) else x
  have hf : ∀ x (h : x ∈ L), f x ∈ r ∧ Conn l x (f x) := by
    intro x h
    have := Classical.choose_spec (hr.cover x h)
    simp only [f, dif_pos h]
    exact this
  have hnd : (r'.map f).Nodup := by
    refine List.Nodup.map_on ?_ hr'.nodup
    intro x hx y hy hxy
    have hxL := hr'.sub x hx
    have hyL := hr'.sub y hy
    have h1 := (hf x hxL).2
    have h2 := (hf y hyL).2
    rw [← hxy] at h2
    exact hr'.sep x hx y hy (hsub x y hxL hyL (h1.trans h2.symm))
  have hss : r'.map f ⊆ r := by
    intro z hz
    obtain ⟨x, hx, rfl⟩ := List.mem_map.1 hz
    exact (hf x (hr'.sub x hx)).1
  have := (hnd.subperm hss).length_le
  simpa using this

/-- [S] the number of classes does not depend on the representatives -/
theorem reps_length_eq {l l' : List (Nat × Nat)} {L r r' : List Nat} (hr : Reps l L r)
    (hr' : Reps l' L r') (hiff : ∀ a b, a ∈ L → b ∈ L → (Conn l a b ↔ Conn l' a b)) :
    r'.length = r.length :=
  Nat.le_antisymm (reps_length_le hr hr' (fun a b ha hb => (hiff a b ha hb).1))
    (reps_length_le hr' hr (fun a b ha hb => (hiff a b ha hb).2))

/-- [S] a redundant edge does not change the representatives -/
theorem reps_snoc_redundant {l : List (Nat × Nat)} {L reps : List Nat} (h : Reps l L reps)
    {e : Nat × Nat} (hc : Conn l e.1 e.2) : Reps (l ++ [e]) L reps := by
  have hback : ∀ {a b}, Conn (l ++ [e]) a b → Conn l a b := by
    intro a b hab
    refine Conn.of_redundant (fun x hx => ?_) hab
    rcases List.mem_append.1 hx with hx | hx
    · exact .inl hx
    · simp only [List.mem_singleton] at hx; subst hx; exact .inr hc
  exact ⟨h.nodup, h.sub, fun v hv => by
      obtain ⟨r, hr, hcr⟩ := h.cover v hv
      exact ⟨r, hr, hcr.mono (fun x hx => List.mem_append_left _ hx)⟩,
    fun r hr r' hr' hcc => h.sep r hr r' hr' (hback hcc)⟩

/-- [S] CLASSES AFTER ADDING ANY EDGES: at least `#classes before - #edges`, and in the equality
case the added edges are acyclic over the old ones -/
theorem reps_general {L : List Nat} : ∀ (ms pre : List (Nat × Nat)) (reps : List Nat),
    (∀ e ∈ ms, e.1 ∈ L ∧ e.2 ∈ L) → Reps pre L reps →
    ∃ reps', Reps (pre ++ ms) L reps' ∧ reps.length ≤ reps'.length + ms.length ∧
      (reps'.length + ms.length = reps.length → ForestFrom pre ms) := by
  intro ms
  induction ms with
  | nil =>
    intro pre reps _ hr
    exact ⟨reps, by simpa using hr, by simp, fun _ => trivial⟩
  | cons e ms ih =>
    intro pre reps hin hr
    have hin' : ∀ e' ∈ ms, e'.1 ∈ L ∧ e'.2 ∈ L := fun e' he' => hin e' (by simp [he'])
    by_cases hc : Conn pre e.1 e.2
    · obtain ⟨reps', hr', hle, _⟩ := ih (pre ++ [e]) reps hin' (reps_snoc_redundant hr hc)
      refine ⟨reps', by simpa [List.append_assoc] using hr', ?_, ?_⟩
      · simp only [List.length_cons]; omega
      · intro heq
        simp only [List.length_cons] at heq
        omega
    · obtain ⟨r1, hr1, hl1⟩ := reps_snoc hr (hin e (by simp)).1 (hin e (by simp)).2 hc
      obtain ⟨reps', hr', hle, hforest⟩ := ih (pre ++ [e]) r1 hin' hr1
      refine ⟨reps', by simpa [List.append_assoc] using hr', ?_, ?_⟩
      · simp only [List.length_cons]; omega
      · intro heq
        simp only [List.length_cons] at heq
        exact ⟨hc, hforest (by omega)⟩

/-- [S] every edge list on `L` has a system of representatives -/
theorem reps_exists {L : List Nat} (hL : L.Nodup) (ms : List (Nat × Nat))
    (hin : ∀ e ∈ ms, e.1 ∈ L ∧ e.2 ∈ L) : ∃ reps, Reps ms L reps := by
  obtain ⟨reps, hr, _, _⟩ := reps_general ms [] L hin (reps_nil hL)
  exact ⟨reps, by simpa using hr⟩

/-- [S] **ACYCLIC IFF `#classes + #edges = #vertices`** (for any system of representatives) -/
theorem forest_iff_count {L : List Nat} (hL : L.Nodup) {ms : List (Nat × Nat)}
    (hin : ∀ e ∈ ms, e.1 ∈ L ∧ e.2 ∈ L) {reps : List Nat} (hr : Reps ms L reps) :
    ForestFrom [] ms ↔ reps.length + ms.length = L.length := by
  constructor
  · intro hf
    obtain ⟨reps', hr', hlen⟩ := forest_count ms [] L hf hin (reps_nil hL)
    rw [List.nil_append] at hr'
    have := reps_length_eq hr hr' (fun _ _ _ _ => Iff.rfl)
    omega
  · intro hc
    obtain ⟨reps', hr', _, hforest⟩ := reps_general ms [] L hin (reps_nil hL)
    rw [List.nil_append] at hr'
    have := reps_length_eq hr hr' (fun _ _ _ _ => Iff.rfl)
    exact hforest (by omega)

/-- [S] any edge list has at least `|L| - #edges` classes -/
theorem count_ge {L : List Nat} (hL : L.Nodup) {ms : List (Nat × Nat)}
    (hin : ∀ e ∈ ms, e.1 ∈ L ∧ e.2 ∈ L) {reps : List Nat} (hr : Reps ms L reps) :
    L.length ≤ reps.length + ms.length := by
  obtain ⟨reps', hr', hle, _⟩ := reps_general ms [] L hin (reps_nil hL)
  rw [List.nil_append] at hr'
  have := reps_length_eq hr hr' (fun _ _ _ _ => Iff.rfl)
  omega

/-- non-vacuity: the path `1 — 0`, `2 — 1` on `[0, 1, 2]` has one class (`[0]`), `1 + 2 = 3` -/
example : ForestFrom [] [(1, 0), (2, 1)] := by
  refine (forest_iff_count (L := [0, 1, 2]) (by decide) (by decide) (reps := [0]) ?_).2 rfl
  refine ⟨by decide, by decide, ?_, ?_⟩
  · intro v hv
    refine ⟨0, by simp, ?_⟩
    have h10 : Conn [(1, 0), (2, 1)] 1 0 := Conn.edge (by simp)
    have h21 : Conn [(1, 0), (2, 1)] 2 1 := Conn.edge (by simp)
    have : v = 0 ∨ v = 1 ∨ v = 2 := by simpa using hv
    rcases this with rfl | rfl | rfl
    · exact Conn.refl _ _
    · exact h10
    · exact h21.trans h10
  · intro r hr r' hr' _
    simp only [List.mem_singleton] at hr hr'
    rw [hr, hr']

end Clarabel.Chordal
