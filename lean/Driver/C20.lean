import Driver.Common
import ClarabelModel.Print

open Clarabel Clarabel.Loop Clarabel.Print Driver

namespace Driver
def KV.config (kv : KV) : Option (Config Float) := Wire.config kv.nat kv.float kv.floats
def KV.oracles (kv : KV) : Option (List (PassOracle Float)) := Wire.oracles kv.floats kv.bools

def hex2 (b : UInt8) : String :=
  String.ofList [hexDigit (b.toNat / 16), hexDigit (b.toNat % 16)]

/-- strings travel hex-encoded (UTF-8), `-` for the empty string -/
def encStr (s : String) : String :=
  if s.isEmpty then "-" else String.join (s.toUTF8.toList.map hex2)

def decBytes : List Char → Option (List UInt8)
  | [] => some []
  | a :: b :: rest => do
    let x ← hexVal a
    let y ← hexVal b
    let t ← decBytes rest
    pure (UInt8.ofNat (x * 16 + y) :: t)
  | _ => none

def decStr (s : String) : Option String :=
  if s == "-" then some "" else do
    let bs ← decBytes s.toList
    String.fromUTF8? (ByteArray.mk bs.toArray)
end Driver

def handleC20 (ch : String) (kv : KV) : String :=
  match ch with
  | "print.exp_reformat" =>
    match (kv.str "s") >>= decStr with
    | none => "bad-request"
    | some s => match expStrReformat s.toList with
      | .ok r => "ok s=" ++ encStr (String.ofList r)
      | .error e => fmtErr e
  | "print.conedims" =>
    match kv.nats "tags", kv.nats "numel", (kv.nat "tag") >>= Tag.ofIndex with
    | some tags, some numel, some tag =>
      match tags.toList.mapM Tag.ofIndex with
      | none => "bad-request"
      | some ts =>
        if ts.length != numel.size then "bad-request" else
        "s=" ++ encStr (printConedimsByType (ts.zip numel.toList) tag)
    | _, _, _ => "bad-request"
  | "print.status_line" =>
    match kv.nat "iters", kv.str "cells" with
    | some it, some cs =>
      match (splitList cs).mapM decStr with
      | none => "bad-request"
      | some cells => match statusLine it cells.toArray with
        | .ok s => "s=" ++ encStr s
        | .error e => fmtErr e
    | _, _ => "bad-request"
  | "print.footer" =>
    match (kv.str "status") >>= Wire.parseStatus with
    | some s => "s=" ++ encStr (footerHead s)
    | none => "bad-request"
  | "print.log" =>
    -- iteration column, extra line and footer status of a whole solve
    match kv.config, kv.oracles with
    | some cfg, some os =>
      match solve cfg 0 os with
      | .done r =>
        let evs := eventsOf r.rows r.info.status
        let nStatus := (evs.filter fun e => match e with | .status _ => true | _ => false).length
        s!"rows={Wire.joinC (r.rows.map fun w => toString w.iterations)} nstatus={nStatus} " ++
        s!"extra={fmtBool r.extraLine} footer={match r.footerStatus with | some s => s.toString | none => "-"} " ++
        s!"status={r.status.toString} iterations={r.iterations}"
      | .exhausted _ => "oracle-exhausted"
      | .panic s => "panic:" ++ s
    | _, _ => "bad-request"
  | _ => "unknown-channel"

def main : IO Unit := runMain handleC20
