import Driver.Common
import Driver.CscIO
import Driver.ConeIO
import ClarabelModel.Print
import ClarabelModel.PrintHeader
import ClarabelModel.PrintWrite

open Clarabel Clarabel.Loop Clarabel.Print Driver

namespace Driver
def KV.config (kv : KV) : Option (Config Float) := Wire.config kv.nat kv.float kv.floats
def KV.oracles (kv : KV) : Option (List (PassOracle Float)) := Wire.oracles kv.floats kv.bools

def hex2 (b : UInt8) : String :=
  String.ofList [hexDigit (b.toNat / 16), hexDigit (b.toNat % 16)]

/-- strings travel hex-encoded (UTF-8), `-` for the empty string -/
def encStr (s : String) : String :=
  if s.isEmpty then "-" else String.join (s.toUTF8.toList.map hex2)

def decBytes : List Char → Option (List UInt8)
  | [] => some []
  | a :: b :: rest => do
    let x ← hexVal a
    let y ← hexVal b
    let t ← decBytes rest
    pure (UInt8.ofNat (x * 16 + y) :: t)
  | _ => none

def decStr (s : String) : Option String :=
  if s == "-" then some "" else do
    let bs ← decBytes s.toList
    String.fromUTF8? (ByteArray.mk bs.toArray)

/-! ### formatter, settings and summary on the wire (channels of round 3) -/

def fmtKey (v : Float) : UInt64 := if v.isNaN then 0x7ff8000000000000 else v.toBits

/-- the float formatter as a finite table `(kind, value) ↦ token` supplied by the harness from
Rust's own `format!`: kinds 0 `{:.1e}`, 1 `{:.3}`, 2 `{:.1}`, 3 `{:?}`, 4 `Duration {:?}` -/
def mkFmt (tbl : List (Nat × UInt64 × String)) : FloatFmt Float :=
  let look (k : Nat) (v : Float) : String :=
    match tbl.find? (fun e => e.1 == k && e.2.1 == fmtKey v) with
    | some e => e.2.2
    | none => "<no-token>"
  { e1 := look 0, f3 := look 1, f1 := look 2, dbg := look 3, duration := look 4,
    isInfinite := fun v => v.isInf, sizeOf := 8 }

def KV.strs (kv : KV) (k : String) : Option (List String) := do
  let s ← kv.get? k
  (splitList s).mapM decStr

def KV.fmtTable (kv : KV) : Option (List (Nat × UInt64 × String)) := do
  let ks ← kv.nats "fk"
  let vs ← kv.floats "fv"
  let ts ← kv.strs "ft"
  if ks.size != vs.size || ks.size != ts.length then none else
  pure ((ks.toList.zip (vs.toList.zip ts)).map (fun e => (e.1, fmtKey e.2.1, e.2.2)))

def KV.settings (kv : KV) : Option (Settings Float) := do
  let verbose ← kv.nat "verbose"
  let su ← kv.nats "su"
  let sb ← kv.bools "sb"
  let sf ← kv.floats "sf"
  let merge ← (kv.str "merge") >>= decStr
  if su.size != 3 || sb.size != 6 || sf.size != 14 then none else
  pure { verbose := verbose != 0, maxIter := su[0]!, timeLimit := sf[0]!, maxStepFraction := sf[1]!,
         tolFeas := sf[2]!, tolGapAbs := sf[3]!, tolGapRel := sf[4]!,
         staticRegularizationEnable := sb[0]!, staticRegularizationConstant := sf[5]!,
         staticRegularizationProportional := sf[6]!,
         dynamicRegularizationEnable := sb[1]!, dynamicRegularizationEps := sf[7]!,
         dynamicRegularizationDelta := sf[8]!,
         iterativeRefinementEnable := sb[2]!, iterativeRefinementReltol := sf[9]!,
         iterativeRefinementAbstol := sf[10]!, iterativeRefinementMaxIter := su[1]!,
         iterativeRefinementStopRatio := sf[11]!,
         equilibrateEnable := sb[3]!, equilibrateMinScaling := sf[12]!, equilibrateMaxScaling := sf[13]!,
         equilibrateMaxIter := su[2]!,
         chordalDecompositionCompact := sb[4]!, chordalDecompositionCompleteDual := sb[5]!,
         chordalDecompositionMergeMethod := merge }

def KV.linInfo (kv : KV) : Option LinearSolverInfo := do
  let name ← (kv.str "lname") >>= decStr
  let threads ← kv.nat "threads"
  let direct ← kv.nat "direct"
  pure { name, threads, direct := direct != 0 }

/-- `removed=-` / `removed=k`, `chordalc=-` / `chordalc=a,b,c,d` -/
def KV.summary (kv : KV) : Option Summary := do
  let n ← kv.nat "n"
  let m ← kv.nat "m"
  let nnzP ← kv.nat "nnzP"
  let nnzA ← kv.nat "nnzA"
  let tags ← kv.nats "tags"
  let numel ← kv.nats "numel"
  let ts ← tags.toList.mapM Tag.ofIndex
  if ts.length != numel.size then none else
  let removed ← kv.str "removed"
  let presolveRemoved ← if removed == "-" then some none else removed.toNat?.map some
  let cc ← kv.str "chordalc"
  let chordal ← if cc == "-" then some none else do
    let v ← kv.nats "chordalc"
    if v.size != 4 then none else
    pure (some { initPsd := v[0]!, decomposable := v[1]!, premerge := v[2]!, final := v[3]! : ChordalCounts })
  pure { presolveRemoved, chordal, n, m, nnzP, nnzA, cones := ts.zip numel.toList }

def fmtIoErr : IoErr → String
  | .interrupted => "interrupted" | .other => "other" | .writeZero => "writeZero" | .fuel => "fuel"

def fmtOpRes : OpRes → String
  | .wrote k => s!"w{k}" | .done => "ok" | .failed e => "err:" ++ fmtIoErr e

def encBytes (b : List UInt8) : String := if b.isEmpty then "-" else String.join (b.map hex2)

def parseScript (xs : Array Int) : List WriteRes :=
  xs.toList.map (fun x => if x == -1 then .interrupted else if x < 0 then .err else .ok x.toNat)

/-- `w:<hex>;a:<hex>;f` -/
def parseOps (s : String) : Option (List Op) :=
  if s == "-" then some [] else
  (s.splitOn ";").mapM (fun tok =>
    match tok.toList with
    | ['f'] => some .flush
    | 'w' :: ':' :: cs => (if cs == ['-'] then some [] else decBytes cs).map .write
    | 'a' :: ':' :: cs => (if cs == ['-'] then some [] else decBytes cs).map .writeAll
    | _ => none)

def mkTarget (kind : String) (script : List WriteRes) : Option Target :=
  match kind with
  | "buffer" => some (.buffer [])
  | "stream" => some (.stream { script })
  | "file" => some (.file { script })
  | "stdout" => some (.stdout { script })
  | "sink" => some .sink
  | _ => none
end Driver

def handleC20 (ch : String) (kv : KV) : String :=
  match ch with
  | "print.exp_reformat" =>
    match (kv.str "s") >>= decStr with
    | none => "bad-request"
    | some s => match expStrReformat s.toList with
      | .ok r => "ok s=" ++ encStr (String.ofList r)
      | .error e => fmtErr e
  | "print.conedims" =>
    match kv.nats "tags", kv.nats "numel", (kv.nat "tag") >>= Tag.ofIndex with
    | some tags, some numel, some tag =>
      match tags.toList.mapM Tag.ofIndex with
      | none => "bad-request"
      | some ts =>
        if ts.length != numel.size then "bad-request" else
        "s=" ++ encStr (printConedimsByType (ts.zip numel.toList) tag)
    | _, _, _ => "bad-request"
  | "print.status_line" =>
    match kv.nat "iters", kv.str "cells" with
    | some it, some cs =>
      match (splitList cs).mapM decStr with
      | none => "bad-request"
      | some cells => match statusLine it cells.toArray with
        | .ok s => "s=" ++ encStr s
        | .error e => fmtErr e
    | _, _ => "bad-request"
  | "print.footer" =>
    match (kv.str "status") >>= Wire.parseStatus with
    | some s => "s=" ++ encStr (footerHead s)
    | none => "bad-request"
  | "print.log" =>
    -- iteration column, extra line and footer status of a whole solve
    match kv.config, kv.oracles with
    | some cfg, some os =>
      match solve cfg 0 os with
      | .done r =>
        let evs := eventsOf r.rows r.info.status
        let nStatus := (evs.filter fun e => match e with | .status _ => true | _ => false).length
        s!"rows={Wire.joinC (r.rows.map fun w => toString w.iterations)} nstatus={nStatus} " ++
        s!"extra={fmtBool r.extraLine} footer={match r.footerStatus with | some s => s.toString | none => "-"} " ++
        s!"status={r.status.toString} iterations={r.iterations}"
      | .exhausted _ => "oracle-exhausted"
      | .panic s => "panic:" ++ s
    | _, _ => "bad-request"
  | "print.configuration" =>
    match kv.settings, kv.linInfo, kv.fmtTable, kv.str "mode" with
    | some set, some lin, some tbl, some mode =>
      let fmt := mkFmt tbl
      if mode == "summary" then
        match kv.summary with
        | some sm => "s=" ++ encStr (printConfiguration fmt lin set sm)
        | none => "bad-request"
      else
        -- the summary is computed by the model of `DefaultProblemData::new` from the user's problem
        match kv.csc "P", kv.floats "q", kv.csc "A", kv.floats "b", kv.cones "cones9", kv.nat "presolve", kv.float "inf" with
        | some P, some q, some A, some b, some cs, some pre, some inf =>
          match ProblemData.new P q A b cs (pre != 0) false inf with
          | .ok d => "s=" ++ encStr (printConfiguration fmt lin set (Summary.ofData d none))
          | .error e => fmtErr e
        | _, _, _, _, _, _, _ => "bad-request"
    | _, _, _, _ => "bad-request"
  | "print.status_header" =>
    match kv.nat "verbose" with
    | some v => "s=" ++ encStr (printStatusHeader (v != 0))
    | none => "bad-request"
  | "print.footer_full" =>
    match kv.nat "verbose", (kv.str "status") >>= Wire.parseStatus, kv.float "time", kv.fmtTable with
    | some v, some st, some t, some tbl => "s=" ++ encStr (printFooter (mkFmt tbl) (v != 0) st t)
    | _, _, _, _ => "bad-request"
  | "print.whole" =>
    match kv.settings, kv.linInfo, kv.fmtTable, kv.summary, (kv.str "version") >>= decStr,
          kv.nats "ri", kv.strs "rc", (kv.str "fstatus") >>= Wire.parseStatus, kv.float "time" with
    | some set, some lin, some tbl, some sm, some ver, some ri, some rc, some st, some t =>
      if rc.length != 8 * ri.size then "bad-request" else
      let rows : List RowText := (List.range ri.size).map (fun k =>
        { iterations := ri[k]!, cells := ((rc.drop (8 * k)).take 8).toArray })
      match wholeLog (mkFmt tbl) lin set sm ver ((kv.nat "debug").getD 0 != 0) rows st t with
      | .ok s => "s=" ++ encStr s
      | .error e => fmtErr e
    | _, _, _, _, _, _, _, _, _ => "bad-request"
  | "print.write_impl" =>
    match kv.str "target", kv.ints "script", (kv.str "ops") >>= parseOps with
    | some kind, some script, some ops =>
      match mkTarget kind (parseScript script) with
      | none => "bad-request"
      | some t =>
        let (rs, t') := t.run ops
        let base := s!"res={",".intercalate (rs.map fmtOpRes)} got={encBytes t'.delivered}"
        if kind == "stream" then
          base ++ s!" calls={fmtNats t'.calls.toArray} flushes={t'.flushes} left={t'.pending.length}"
        else base
    | _, _, _ => "bad-request"
  | "print.target_kind" =>
    match kv.str "target", (kv.str "pre") >>= (fun h => if h == "-" then some [] else decBytes h.toList) with
    | some kind, some pre =>
      match mkTarget kind [] with
      | none => "bad-request"
      | some t =>
        let t := (t.writeAll pre).2
        let c := t.clone
        -- the clone receives one more byte; a copied buffer must not alias the original
        let c' := (c.writeAll [33]).2
        let cb := match c' with | .buffer b => encBytes b | _ => "-"
        let ob := match t with | .buffer b => encBytes b | _ => "-"
        s!"kind={t.debugName} clone={c.debugName} clonebuf={cb} origbuf={ob}"
    | _, _ => "bad-request"
  | _ => "unknown-channel"

def main : IO Unit := runMain handleC20
