/-
  Model driver for C01 / C02 / C03 (copy of Driver/C01.lean) (the three executables share this text; `Driver/C02.lean`
  and `Driver/C03.lean` are verbatim copies — every property's driver must be its own root).
  Channels: residuals.update, info.update, info.check_convergence, info.check_termination,
  info.post_process, variables.unscale, variables.calc_mu, solution.post_process;
  C03 only: info.reset.
-/
import Driver.CscIO
import ClarabelModel.Residuals
import ClarabelModel.Info
import ClarabelModel.Unscale
import ClarabelModel.InfoReset

open Clarabel Driver
open Clarabel.Residuals Clarabel.Info Clarabel.Unscale

namespace KktDriver

/-- error tokens must be a single word on the wire -/
def fmtM {β : Type} (f : β → String) : MErr β → String
  | .ok v => f v
  | .error e => (fmtErr e).map (fun c => if c == ' ' then '_' else c)

def parseVars (kv : KV) : Option (Vars Float) := do
  let x ← kv.floats "x"
  let s ← kv.floats "s"
  let z ← kv.floats "z"
  let τ ← kv.float "tau"
  let κ ← kv.float "kappa"
  pure { x, s, z, τ, κ }

def parseResid (kv : KV) : Option (Resid Float) := do
  let rx ← kv.floats "rx"
  let rz ← kv.floats "rz"
  let rτ ← kv.float "rtau"
  let rx_inf ← kv.floats "rx_inf"
  let rz_inf ← kv.floats "rz_inf"
  let dot_qx ← kv.float "dot_qx"
  let dot_bz ← kv.float "dot_bz"
  let dot_sz ← kv.float "dot_sz"
  let dot_xPx ← kv.float "dot_xPx"
  let Px ← kv.floats "Px"
  pure { rx, rz, rτ, rx_inf, rz_inf, dot_qx, dot_bz, dot_sz, dot_xPx, Px }

def fmtResid (r : Resid Float) : String :=
  s!"rx={fmtFloats r.rx} rz={fmtFloats r.rz} rtau={fmtFloat r.rτ} rx_inf={fmtFloats r.rx_inf} " ++
  s!"rz_inf={fmtFloats r.rz_inf} dot_qx={fmtFloat r.dot_qx} dot_bz={fmtFloat r.dot_bz} " ++
  s!"dot_sz={fmtFloat r.dot_sz} dot_xPx={fmtFloat r.dot_xPx} Px={fmtFloats r.Px}"

def parseEquil (kv : KV) : Option (Equil Float) := do
  let d ← kv.floats "d"
  let dinv ← kv.floats "dinv"
  let e ← kv.floats "e"
  let einv ← kv.floats "einv"
  let c ← kv.float "c"
  pure { d, dinv, e, einv, c }

/-- `info=` carries the 15 scalars in structure order; `iterations`, `status` separately -/
def parseInfo (kv : KV) : Option (InfoS Float) := do
  let a ← kv.floats "info"
  if a.size != 15 then none
  let it ← kv.nat "iterations"
  let st ← (kv.nat "status") >>= SolverStatus.ofNat?
  pure { cost_primal := a[0]!, cost_dual := a[1]!, res_primal := a[2]!, res_dual := a[3]!,
         res_primal_inf := a[4]!, res_dual_inf := a[5]!, gap_abs := a[6]!, gap_rel := a[7]!,
         ktratio := a[8]!, prev_cost_primal := a[9]!, prev_cost_dual := a[10]!,
         prev_res_primal := a[11]!, prev_res_dual := a[12]!, prev_gap_abs := a[13]!,
         prev_gap_rel := a[14]!, iterations := it, status := st }

def fmtInfo (i : InfoS Float) : String :=
  let a := #[i.cost_primal, i.cost_dual, i.res_primal, i.res_dual, i.res_primal_inf, i.res_dual_inf,
             i.gap_abs, i.gap_rel, i.ktratio, i.prev_cost_primal, i.prev_cost_dual,
             i.prev_res_primal, i.prev_res_dual, i.prev_gap_abs, i.prev_gap_rel]
  s!"info={fmtFloats a} iterations={i.iterations} status={i.status.toNat}"

def parseTols (kv : KV) (k : String) : Option (Tols Float) := do
  let a ← kv.floats k
  if a.size != 6 then none
  pure { gap_abs := a[0]!, gap_rel := a[1]!, feas := a[2]!, infeas_abs := a[3]!,
         infeas_rel := a[4]!, ktratio := a[5]! }

def parseSettings (kv : KV) : Option (Settings Float) := do
  let full ← parseTols kv "tol"
  let reduced ← parseTols kv "rtol"
  let max_iter ← kv.nat "max_iter"
  pure { full, reduced, max_iter }

def fmtOpt : Option Float → String
  | some v => fmtFloat v
  | none => "xnan"

def fmtVars (v : Vars Float) : String :=
  s!"x={fmtFloats v.x} s={fmtFloats v.s} z={fmtFloats v.z} tau={fmtFloat v.τ} kappa={fmtFloat v.κ}"

def fmtSolution (s : Solution Float) : String :=
  s!"status={s.status.toNat} obj_val={fmtOpt s.obj_val} obj_val_dual={fmtOpt s.obj_val_dual} " ++
  s!"iterations={s.iterations} r_prim={fmtOpt s.r_prim} r_dual={fmtOpt s.r_dual} " ++
  s!"sx={fmtFloats s.x} sz={fmtFloats s.z} ss={fmtFloats s.s}"

def handle (ch : String) (kv : KV) : String :=
  match ch with
  | "residuals.update" =>
    match kv.csc "P", kv.csc "A", kv.floats "q", kv.floats "b", parseVars kv, kv.floats "Px0" with
    | some P, some A, some q, some b, some v, some Px0 =>
      -- the previous (stale) contents of the residual object
      match kv.floats "rx0", kv.floats "rz0", kv.floats "rxinf0", kv.floats "rzinf0" with
      | some rx, some rz, some rx_inf, some rz_inf =>
        let r0 : Resid Float := { rx, rz, rτ := 1.0, rx_inf, rz_inf,
                                  dot_qx := 7.0, dot_bz := 7.0, dot_sz := 7.0, dot_xPx := 7.0, Px := Px0 }
        fmtM fmtResid (Residuals.update r0 v { P, q, A, b })
      | _, _, _, _ => "bad-request"
    | _, _, _, _, _, _ => "bad-request"
  | "info.update" =>
    match parseEquil kv, parseVars kv, parseResid kv, kv.floats "q", kv.floats "b", parseInfo kv with
    | some eq, some v, some r, some q, some b, some i =>
      let res : MErr String := do
        -- `get_normb` is evaluated before `get_normq`
        let normb ← getNormb (kv.float "normb") b eq.einv
        let normq ← getNormq (kv.float "normq") q eq.dinv eq.c
        let i' ← Info.update i eq normq normb v r
        pure (fmtInfo i' ++ s!" normq={fmtFloat normq} normb={fmtFloat normb}")
      fmtM id res
    | _, _, _, _, _, _ => "bad-request"
  | "info.check_convergence" =>
    match parseInfo kv, kv.float "dot_bz", kv.float "dot_qx", parseSettings kv, kv.str "mode" with
    | some i, some bz, some qx, some s, some mode =>
      let t := if mode == "almost" then s.reduced else s.full
      let i' := if mode == "almost" then checkConvergenceAlmost i bz qx s else checkConvergenceFull i bz qx s
      s!"status={i'.status.toNat} is_solved={fmtBool (isSolved i t.gap_abs t.gap_rel t.feas)} " ++
      s!"is_pinf={fmtBool (isPrimalInfeasible i bz t.infeas_abs t.infeas_rel)} " ++
      s!"is_dinf={fmtBool (isDualInfeasible i qx t.infeas_abs t.infeas_rel)}"
    | _, _, _, _, _ => "bad-request"
  | "info.check_termination" =>
    match parseInfo kv, kv.float "dot_bz", kv.float "dot_qx", parseSettings kv, kv.nat "iter",
          kv.nat "time_over" with
    | some i, some bz, some qx, some s, some iter, some tov =>
      let (i', done) := checkTermination i bz qx s iter (tov != 0)
      s!"status={i'.status.toNat} isdone={fmtBool done}"
    | _, _, _, _, _, _ => "bad-request"
  | "info.post_process" =>
    match parseInfo kv, kv.float "dot_bz", kv.float "dot_qx", parseSettings kv with
    | some i, some bz, some qx, some s => s!"status={(Info.postProcess i bz qx s).status.toNat}"
    | _, _, _, _ => "bad-request"
  | "info.prev_roundtrip" =>
    match parseInfo kv with
    | some i => fmtInfo (savePrev i) ++ " ; " ++ fmtInfo (resetToPrev i)
    | none => "bad-request"
  | "info.reset" =>
    -- `DefaultInfo::reset` followed by `save_scalars(·, ·, ·, iter)` (C03 round 3)
    match parseInfo kv, kv.nat "iter" with
    | some i, some iter => fmtInfo (reset i) ++ " ; " ++ fmtInfo (saveScalars (reset i) iter)
    | _, _ => "bad-request"
  | "variables.unscale" =>
    match parseEquil kv, parseVars kv, kv.nat "is_infeasible" with
    | some eq, some v, some inf => fmtVars (unscale v eq (inf != 0))
    | _, _, _ => "bad-request"
  | "variables.calc_mu" =>
    match kv.float "dot_sz", kv.float "tau", kv.float "kappa", kv.nat "degree" with
    | some sz, some τ, some κ, some deg =>
      let r : Resid Float := { (default : Resid Float) with dot_sz := sz }
      let v : Vars Float := { (default : Vars Float) with τ, κ }
      fmtFloat (calcMu r v deg)
    | _, _, _, _ => "bad-request"
  | "solution.post_process" =>
    match parseEquil kv, parseVars kv, parseInfo kv, kv.nat "n", kv.nat "mfull" with
    | some eq, some v, some i, some n, some mfull =>
      let pm : Option (PresolveMap Float) :=
        match kv.bools "keep", kv.float "infbound" with
        | some keep, some ib => some { keep, infbound := ib }
        | _, _ => none
      let sol0 : Solution Float := Solution.new n mfull
      fmtM (fun (p : Solution Float × Vars Float) => fmtSolution p.1 ++ " " ++ fmtVars p.2)
        (Unscale.postProcess sol0 eq pm v i)
    | _, _, _, _, _ => "bad-request"
  | _ => "unknown-channel"

end KktDriver

def main : IO Unit := runMain KktDriver.handle
