import Driver.Common
import ClarabelModel.Loop
import ClarabelModel.Timers
import ClarabelModel.NewGuards

open Clarabel Clarabel.Loop Clarabel.Loop.Wire Driver

namespace Driver
def KV.config (kv : KV) : Option (Config Float) := Wire.config kv.nat kv.float kv.floats
def KV.oracles (kv : KV) : Option (List (PassOracle Float)) := Wire.oracles kv.floats kv.bools
end Driver

/-- `Info` from the scalars the termination logic reads -/
def parseInfo (kv : KV) : Option (Info Float × Dots Float) := do
  let kt ← kv.float "kt"
  let ga ← kv.float "ga"
  let gr ← kv.float "gr"
  let rp ← kv.float "rp"
  let rd ← kv.float "rd"
  let rpi ← kv.float "rpi"
  let rdi ← kv.float "rdi"
  let prev ← kv.floats "prev"
  if prev.size != 6 then none
  let dbz ← kv.float "dbz"
  let dqx ← kv.float "dqx"
  let tm ← kv.float "time"
  let iters ← kv.nat "iters"
  let st ← (kv.str "status") >>= parseStatus
  let cp ← kv.float "cp"
  let cd ← kv.float "cd"
  pure ({ mu := 0, sigma := 0, stepLength := 0, iterations := iters, costPrimal := cp, costDual := cd,
          resPrimal := rp, resDual := rd, resPrimalInf := rpi, resDualInf := rdi, gapAbs := ga,
          gapRel := gr, ktratio := kt, prevCostPrimal := prev[0]!, prevCostDual := prev[1]!,
          prevResPrimal := prev[2]!, prevResDual := prev[3]!, prevGapAbs := prev[4]!,
          prevGapRel := prev[5]!, solveTime := tm, status := st }, ⟨dbz, dqx⟩)

def fmtPrev (i : Info Float) : String :=
  fmtFloats #[i.prevCostPrimal, i.prevCostDual, i.prevResPrimal, i.prevResDual, i.prevGapAbs, i.prevGapRel]
def fmtCur (i : Info Float) : String :=
  fmtFloats #[i.costPrimal, i.costDual, i.resPrimal, i.resDual, i.gapAbs, i.gapRel]


/-! ### timers -/
open Clarabel.Timers in
/-- `at=… stack=… keys=… running=…` of a run of the timer machine with the clock `0` -/
def fmtTimerRun (ops : List Timers.Op) : String :=
  let z : Timers.Clock := fun _ _ => 0
  let r := Timers.runUntil z z 0 ops Timers.State.empty []
  let at_ := match r.1 with | some k => toString k | none => "-"
  s!"at={at_} {Timers.Wire.fmtShape r.2.1}"

/-- pass shapes from the arrays `d<i> f<i> s<i> k<i>` of solve number `i` -/
def passShapes (kv : KV) (i : Nat) : Option (List Timers.PassShape) := do
  let d ← kv.bools s!"d{i}"
  let f ← kv.bools s!"f{i}"
  let s ← kv.bools s!"s{i}"
  let k ← kv.bools s!"k{i}"
  if f.size != d.size || s.size != d.size || k.size != d.size then none
  else pure ((List.range d.size).map fun j =>
    { done := d[j]!, failLine := f[j]!, scaleOk := s[j]!, kktAffOk := k[j]! })

/-- the class of a construction guard (the harness maps the panic messages to the same names) -/
def guardClass : ModelErr → String
  | .panic "assert:A-and-b-incompatible-dimensions" => "A-b"
  | .panic "assert:constraint-dimensions-inconsistent-with-size-of-cones" => "cones"
  | .panic "assert:A-and-q-incompatible-dimensions" => "A-q"
  | .panic "assert:P-and-q-incompatible-dimensions" => "P-q"
  | .panic "assert:P-not-square" => "P-square"
  | .panic "assert dim >= 2" => "soc-dim"
  | .panic "assert: powers > 0" => "genpow-positive"
  | .panic "assert: powers sum to 1" => "genpow-sum"
  | .panic _ => "other-panic"
  | .err _ => "model-err"

def handleC04 (ch : String) (kv : KV) : String :=
  match ch with
  | "loop.trace" =>
    match kv.config, kv.oracles with
    | some cfg, some os => fmtOutcome (solve cfg 0 os)
    | _, _ => "bad-request"
  | "info.check_termination" =>
    match kv.config, parseInfo kv, kv.nat "iter" with
    | some cfg, some (i, d), some iter =>
      let s := checkTermination i d cfg iter
      s!"status={s.toString} isdone={fmtBool (decide (s ≠ .Unsolved))}"
    | _, _, _ => "bad-request"
  | "info.post_process" =>
    match kv.config, parseInfo kv with
    | some cfg, some (i, d) => s!"status={(postProcess i d cfg).toString}"
    | _, _ => "bad-request"
  | "info.save_reset" =>
    -- op=0: save_prev_iterate, op=1: reset_to_prev_iterate
    match parseInfo kv, kv.nat "op" with
    | some (i, _), some op =>
      let j := if op == 0 then i.savePrev else i.resetToPrev
      s!"cur={fmtCur j} prev={fmtPrev j}"
    | _, _ => "bad-request"
  | "loop.checkpoint" =>
    match kv.config, kv.nat "which", kv.nat "flag", kv.float "alpha", kv.nat "dual",
          (kv.str "status") >>= Wire.parseStatus with
    | some cfg, some which, some flag, some a, some dual, some st =>
      let sc : Scaling := if dual != 0 then .Dual else .PrimalDual
      let ok := flag != 0
      let (cp, st', rolled) : Checkpoint × Status × Bool :=
        match which with
        | 0 => (cpInsufficientProgress cfg st sc, cpInsufficientProgressStatus cfg st sc,
                decide (st = .InsufficientProgress))
        | 1 => (cpNumericalError cfg ok sc, cpNumericalErrorStatus cfg ok st sc, false)
        | 2 => (cpSmallStep cfg a sc, cpSmallStepStatus cfg a st sc, false)
        | _ => (cpIsScalingSuccess ok, cpIsScalingSuccessStatus ok st, false)
      s!"cp={cp.toString} status={st'.toString} rolled={fmtBool rolled}"
    | _, _, _, _, _, _ => "bad-request"
  | "new.check_dimensions" =>
    match kv.nat "Pm", kv.nat "Pn", kv.nat "q", kv.nat "Am", kv.nat "An", kv.nat "b", kv.nats "cones" with
    | some pm, some pn, some q, some am, some an, some b, some cs =>
      match checkDimensions pm pn q am an b cs.toList with
      | .ok () => "ok"
      | .error e => fmtErr e
    | _, _, _, _, _, _, _ => "bad-request"
  | "timers.script" =>
    -- ops + the harness clock before / after every call + what the real timers measured
    match (kv.str "ops"), kv.nats "tb", kv.nats "ta", kv.nats "re", kv.nats "rr" with
    | some opsS, some tb, some ta, some re, some rr =>
      match (splitList (if opsS == "-" then "" else opsS)).mapM Timers.Wire.parseOp with
      | none => "bad-request"
      | some ops =>
        if tb.size != ops.length || ta.size != ops.length then "bad-request" else
        let cb : Timers.Clock := fun n _ => tb[n]!
        let ca : Timers.Clock := fun n _ => ta[n]!
        -- lower bound: intervals open late and close early; upper bound: the other way round
        let lo := Timers.runUntil ca cb 0 ops Timers.State.empty []
        let hi := Timers.runUntil cb ca 0 ops Timers.State.empty []
        let at_ := match hi.1 with | some k => toString k | none => "-"
        let ks := Timers.Wire.sortPaths hi.2.1.keys
        let el (s : Timers.State) (p : Timers.Path) : Nat := match s.cell p with | some c => c.elapsed | none => 0
        let inb := (List.range ks.length).map fun i =>
          let p := ks[i]!
          decide (el lo.2.1 p ≤ re[i]! ∧ re[i]! ≤ el hi.2.1 p) && decide (i < re.size)
        let rdb := (List.range hi.2.2.length).map fun i =>
          decide (lo.2.2[i]! ≤ rr[i]! ∧ rr[i]! ≤ hi.2.2[i]!) && decide (i < rr.size)
        let dash (x : String) := if x.isEmpty then "-" else x
        s!"at={at_} {Timers.Wire.fmtShape hi.2.1} inb={dash (fmtBools inb.toArray)} rdb={dash (fmtBools rdb.toArray)}"
    | _, _, _, _, _ => "bad-request"
  | "timers.solve" =>
    -- `DefaultSolver::new` followed by `nsolve` calls of `solve()` with the recorded pass shapes
    match kv.nat "nsolve" with
    | some ns =>
      let solves := (List.range ns).mapM fun i => do
        let ps ← passShapes kv (i + 1)
        let x ← kv.nat s!"x{i + 1}"
        pure (Timers.solveOps ps (x != 0))
      match solves with
      | some l => fmtTimerRun (Timers.newOps ++ l.flatten) ++ " sum=1 mono=1"
      | none => "bad-request"
    | none => "bad-request"
  | "new.guards" =>
    match kv.nat "Pm", kv.nat "Pn", kv.nat "q", kv.nat "Am", kv.nat "An", kv.nat "b",
          (kv.str "cones") >>= NewGuards.Wire.parseCones parseFloat with
    | some pm, some pn, some q, some am, some an, some b, some cs =>
      match NewGuards.newGuards pm pn q am an b cs with
      | .ok () => "guard=ok"
      | .error e => "guard=" ++ guardClass e
    | _, _, _, _, _, _, _ => "bad-request"
  | _ => "unknown-channel"

def main : IO Unit := runMain handleC04
