import Driver.Common
import ClarabelModel.Loop

open Clarabel Clarabel.Loop Clarabel.Loop.Wire Driver

namespace Driver
def KV.config (kv : KV) : Option (Config Float) := Wire.config kv.nat kv.float kv.floats
def KV.oracles (kv : KV) : Option (List (PassOracle Float)) := Wire.oracles kv.floats kv.bools
end Driver

/-- `Info` from the scalars the termination logic reads -/
def parseInfo (kv : KV) : Option (Info Float × Dots Float) := do
  let kt ← kv.float "kt"
  let ga ← kv.float "ga"
  let gr ← kv.float "gr"
  let rp ← kv.float "rp"
  let rd ← kv.float "rd"
  let rpi ← kv.float "rpi"
  let rdi ← kv.float "rdi"
  let prev ← kv.floats "prev"
  if prev.size != 6 then none
  let dbz ← kv.float "dbz"
  let dqx ← kv.float "dqx"
  let tm ← kv.float "time"
  let iters ← kv.nat "iters"
  let st ← (kv.str "status") >>= parseStatus
  let cp ← kv.float "cp"
  let cd ← kv.float "cd"
  pure ({ mu := 0, sigma := 0, stepLength := 0, iterations := iters, costPrimal := cp, costDual := cd,
          resPrimal := rp, resDual := rd, resPrimalInf := rpi, resDualInf := rdi, gapAbs := ga,
          gapRel := gr, ktratio := kt, prevCostPrimal := prev[0]!, prevCostDual := prev[1]!,
          prevResPrimal := prev[2]!, prevResDual := prev[3]!, prevGapAbs := prev[4]!,
          prevGapRel := prev[5]!, solveTime := tm, status := st }, ⟨dbz, dqx⟩)

def fmtPrev (i : Info Float) : String :=
  fmtFloats #[i.prevCostPrimal, i.prevCostDual, i.prevResPrimal, i.prevResDual, i.prevGapAbs, i.prevGapRel]
def fmtCur (i : Info Float) : String :=
  fmtFloats #[i.costPrimal, i.costDual, i.resPrimal, i.resDual, i.gapAbs, i.gapRel]

def handleC04 (ch : String) (kv : KV) : String :=
  match ch with
  | "loop.trace" =>
    match kv.config, kv.oracles with
    | some cfg, some os => fmtOutcome (solve cfg 0 os)
    | _, _ => "bad-request"
  | "info.check_termination" =>
    match kv.config, parseInfo kv, kv.nat "iter" with
    | some cfg, some (i, d), some iter =>
      let s := checkTermination i d cfg iter
      s!"status={s.toString} isdone={fmtBool (decide (s ≠ .Unsolved))}"
    | _, _, _ => "bad-request"
  | "info.post_process" =>
    match kv.config, parseInfo kv with
    | some cfg, some (i, d) => s!"status={(postProcess i d cfg).toString}"
    | _, _ => "bad-request"
  | "info.save_reset" =>
    -- op=0: save_prev_iterate, op=1: reset_to_prev_iterate
    match parseInfo kv, kv.nat "op" with
    | some (i, _), some op =>
      let j := if op == 0 then i.savePrev else i.resetToPrev
      s!"cur={fmtCur j} prev={fmtPrev j}"
    | _, _ => "bad-request"
  | "loop.checkpoint" =>
    match kv.config, kv.nat "which", kv.nat "flag", kv.float "alpha", kv.nat "dual",
          (kv.str "status") >>= Wire.parseStatus with
    | some cfg, some which, some flag, some a, some dual, some st =>
      let sc : Scaling := if dual != 0 then .Dual else .PrimalDual
      let ok := flag != 0
      let (cp, st', rolled) : Checkpoint × Status × Bool :=
        match which with
        | 0 => (cpInsufficientProgress cfg st sc, cpInsufficientProgressStatus cfg st sc,
                decide (st = .InsufficientProgress))
        | 1 => (cpNumericalError cfg ok sc, cpNumericalErrorStatus cfg ok st sc, false)
        | 2 => (cpSmallStep cfg a sc, cpSmallStepStatus cfg a st sc, false)
        | _ => (cpIsScalingSuccess ok, cpIsScalingSuccessStatus ok st, false)
      s!"cp={cp.toString} status={st'.toString} rolled={fmtBool rolled}"
    | _, _, _, _, _, _ => "bad-request"
  | "new.check_dimensions" =>
    match kv.nat "Pm", kv.nat "Pn", kv.nat "q", kv.nat "Am", kv.nat "An", kv.nat "b", kv.nats "cones" with
    | some pm, some pn, some q, some am, some an, some b, some cs =>
      match checkDimensions pm pn q am an b cs.toList with
      | .ok () => "ok"
      | .error e => fmtErr e
    | _, _, _, _, _, _, _ => "bad-request"
  | _ => "unknown-channel"

def main : IO Unit := runMain handleC04
