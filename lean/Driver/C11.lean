import Driver.CscIO
import ClarabelModel.CscBlocks
import ClarabelModel.Kkt
import ClarabelModel.KktPasses
import ClarabelModel.KktRanges

open Clarabel Driver Clarabel.Csc Clarabel.Kkt

/-- model errors as one token (sites contain spaces) -/
def fmtE (e : ModelErr) : String :=
  (fmtErr e).map (fun c => if c == ' ' then '_' else c)

def fmtME {β : Type} (f : β → String) : MErr β → String
  | .ok v => f v
  | .error e => fmtE e

def parseTriangle (s : String) : Option MatrixTriangle :=
  if s == "triu" then some .triu else if s == "tril" then some .tril else none

def parseShape (s : String) : Option MatrixShape :=
  if s == "N" then some .N else if s == "T" then some .T else none

/-- `z3 n2 s5 e w g2:1 t3` -/
def parseCone (s : String) : Option ConeSpec :=
  match s.toList with
  | ['e'] => some .exp
  | ['w'] => some .pow
  | 'z' :: r => (String.ofList r).toNat?.map .zero
  | 'n' :: r => (String.ofList r).toNat?.map .nonneg
  | 's' :: r => (String.ofList r).toNat?.map .soc
  | 't' :: r => (String.ofList r).toNat?.map .psd
  | 'g' :: r =>
    match (String.ofList r).splitOn ":" with
    | [a, b] => do pure (.genpow (← a.toNat?) (← b.toNat?))
    | _ => none
  | _ => none

def parseCones (kv : KV) : Option (List ConeSpec) := do
  let s ← kv.get? "cones"
  (splitList s).mapM parseCone

def fmtSparseMaps (maps : Array SparseMap) : String :=
  let parts := maps.toList.zipIdx.map (fun p =>
    let i := p.2
    match p.1 with
    | .soc u v D => s!"s{i}u={fmtNats u} s{i}v={fmtNats v} s{i}D={fmtNats D}"
    | .genpow pp q r D => s!"s{i}p={fmtNats pp} s{i}q={fmtNats q} s{i}r={fmtNats r} s{i}D={fmtNats D}")
  s!"nsp={maps.size}" ++ String.join (parts.map (" " ++ ·))

def fmtMap (mp : LDLDataMap) : String :=
  s!"mapP={fmtNats mp.P} mapA={fmtNats mp.A} Hs={fmtNats mp.Hsblocks} {fmtSparseMaps mp.sparse_maps} diagP={fmtNats mp.diagP} diagfull={fmtNats mp.diag_full}"

def parseSparseMaps (kv : KV) : Option (Array SparseMap) := do
  let nsp ← kv.nat "nsp"
  let l ← (List.range nsp).mapM (fun i =>
    match kv.nats s!"s{i}u" with
    | some u => do pure (SparseMap.soc u (← kv.nats s!"s{i}v") (← kv.nats s!"s{i}D"))
    | none => do
      pure (SparseMap.genpow (← kv.nats s!"s{i}p") (← kv.nats s!"s{i}q") (← kv.nats s!"s{i}r") (← kv.nats s!"s{i}D")))
  pure l.toArray

/-- per-cone scaling data: `nc=.. c0=nn c0w=.. c1=socd c1w=.. c1eta=.. …` -/
def parseScalings (kv : KV) : Option (List (ConeScaling Float)) := do
  let nc ← kv.nat "nc"
  (List.range nc).mapM (fun i => do
    let kind ← kv.get? s!"c{i}"
    match kind with
    | "zero" => pure (.zero (← kv.nat s!"c{i}dim"))
    | "nn" => pure (.nonneg (← kv.floats s!"c{i}w"))
    | "socd" => pure (.socDense (← kv.floats s!"c{i}w") (← kv.float s!"c{i}eta"))
    | "socs" => pure (.socSparse (← kv.nat s!"c{i}dim") (← kv.float s!"c{i}eta") (← kv.floats s!"c{i}u")
        (← kv.floats s!"c{i}v") (← kv.float s!"c{i}d"))
    | "dense" => pure (.dense (← kv.floats s!"c{i}H"))
    | "genpow" => pure (.genpow (← kv.float s!"c{i}mu") (← kv.floats s!"c{i}p") (← kv.floats s!"c{i}q")
        (← kv.floats s!"c{i}r") (← kv.floats s!"c{i}d1") (← kv.float s!"c{i}d2"))
    | _ => none)

def fmtKMap (r : Csc Float × Array Nat) : String := fmtCsc r.1 ++ s!" map={fmtNats r.2}"

def handleBlk (ch : String) (kv : KV) : Option String := do
  let K ← kv.csc "K"
  match ch with
  | "blk.colcount_dense_triangle" =>
    pure (fmtME fmtCsc (colcountDenseTriangle K (← kv.nat "initcol") (← kv.nat "blockcols") (← parseTriangle (← kv.get? "shape"))))
  | "blk.colcount_diag" => pure (fmtME fmtCsc (colcountDiag K (← kv.nat "initcol") (← kv.nat "blockcols")))
  | "blk.colcount_missing_diag" => pure (fmtME fmtCsc (colcountMissingDiag K (← kv.csc "M") (← kv.nat "initcol")))
  | "blk.colcount_colvec" => pure (fmtME fmtCsc (colcountColvec K (← kv.nat "len") (← kv.nat "firstrow") (← kv.nat "firstcol")))
  | "blk.colcount_rowvec" => pure (fmtME fmtCsc (colcountRowvec K (← kv.nat "len") (← kv.nat "firstrow") (← kv.nat "firstcol")))
  | "blk.colcount_block" => pure (fmtME fmtCsc (colcountBlock K (← kv.csc "M") (← kv.nat "initcol") (← parseShape (← kv.get? "shape"))))
  | "blk.fill_colvec" => pure (fmtME fmtKMap (fillColvec K (← kv.nats "map") (← kv.nat "initrow") (← kv.nat "initcol")))
  | "blk.fill_rowvec" => pure (fmtME fmtKMap (fillRowvec K (← kv.nats "map") (← kv.nat "initrow") (← kv.nat "initcol")))
  | "blk.fill_block" =>
    pure (fmtME fmtKMap (fillBlock K (← kv.csc "M") (← kv.nats "map") (← kv.nat "initrow") (← kv.nat "initcol") (← parseShape (← kv.get? "shape"))))
  | "blk.fill_dense_triangle" =>
    pure (fmtME fmtKMap (fillDenseTriangle K (← kv.nats "map") (← kv.nat "offset") (← kv.nat "blockdim") (← parseTriangle (← kv.get? "shape"))))
  | "blk.fill_diag" => pure (fmtME fmtKMap (fillDiag K (← kv.nats "map") (← kv.nat "offset") (← kv.nat "blockdim")))
  | "blk.fill_missing_diag" => pure (fmtME fmtCsc (fillMissingDiag K (← kv.csc "M") (← kv.nat "initcol")))
  | "blk.colcount_to_colptr" => pure (fmtCsc (colcountToColptr K))
  | "blk.colptr_to_colcount" => pure (fmtME fmtCsc (colptrToColcount K))
  | "blk.backshift_colptrs" => pure (fmtME fmtCsc (backshiftColptrs K))
  | "blk.count_diagonal_entries" => pure (fmtME toString (countDiagonalEntries K (← parseTriangle (← kv.get? "shape"))))
  | _ => none

def fmtAssemble (r : Csc Float × LDLDataMap) (signs : MErr (Array Int)) : String :=
  match signs with
  | .error e => fmtE e
  | .ok s => fmtCsc r.1 ++ " " ++ fmtMap r.2 ++ s!" dsigns={fmtInts s}"

def handleAssemble (kv : KV) : Option String := do
  let P ← kv.csc "P"
  let A ← kv.csc "A"
  let cones ← parseCones kv
  let shape ← parseTriangle (← kv.get? "shape")
  match assembleKktMatrix P A cones shape with
  | .error e => pure (fmtE e)
  | .ok r => pure (fmtAssemble r (fillSigns A.m A.n r.2.sparse_maps))

/-- `kkt.update`: assemble, write `-Hs` and the expansion values, regularise, restore -/
def handleUpdate (kv : KV) : Option String := do
  let P ← kv.csc "P"
  let A ← kv.csc "A"
  let cones ← parseCones kv
  let shape ← parseTriangle (← kv.get? "shape")
  -- history `…ident`: the last scaling operation was `set_identity_scaling`; the model
  -- derives the scaling data from the cone list alone (no state can leak in)
  let hist := (kv.get? "hist").getD "fresh"
  let sc ← if hist.endsWith "ident" then cones.mapM (identityScaling (α := Float)) else parseScalings kv
  let enable ← kv.nat "reg"
  let const ← kv.float "regconst"
  let prop ← kv.float "regprop"
  let r : MErr String := do
    let (K, mp) ← assembleKktMatrix P A cones shape
    let signs ← fillSigns A.m A.n mp.sparse_maps
    let nz ← updateValues K.nzval mp sc
    let (reg, nzFactor) ← regularizeAndRestore nz mp.diag_full signs (enable != 0) const prop
    pure s!"nzval={fmtFloats reg.nzval} nzupdated={fmtFloats nz} nzfactor={fmtFloats nzFactor} diagkkt={fmtFloats reg.diagKkt} shifted={fmtFloats reg.diagShifted} eps={fmtFloat reg.eps}"
  pure (fmtME id r)

/-- `kkt.get_hs`: the packed `Hs` block of one cone from its scaling data -/
def handleGetHs (kv : KV) : Option String := do
  let hist := (kv.get? "hist").getD "fresh"
  let sc ← if hist.endsWith "ident" then (← parseCones kv).mapM (identityScaling (α := Float)) else parseScalings kv
  let r : MErr String := do
    let blocks ← sc.mapM getHs
    pure s!"Hs={fmtFloats (blocks.map Array.toList).flatten.toArray}"
  pure (fmtME id r)

/-- per-cone scaling data of pass `pre` (`p0`, `p1`, …): `nc=.. p0c0=nn p0c0w=.. …` -/
def parseScalingsPre (kv : KV) (pre : String) : Option (List (ConeScaling Float)) := do
  let nc ← kv.nat "nc"
  (List.range nc).mapM (fun i => do
    let kind ← kv.get? s!"{pre}c{i}"
    match kind with
    | "zero" => pure (.zero (← kv.nat s!"{pre}c{i}dim"))
    | "nn" => pure (.nonneg (← kv.floats s!"{pre}c{i}w"))
    | "socd" => pure (.socDense (← kv.floats s!"{pre}c{i}w") (← kv.float s!"{pre}c{i}eta"))
    | "socs" => pure (.socSparse (← kv.nat s!"{pre}c{i}dim") (← kv.float s!"{pre}c{i}eta")
        (← kv.floats s!"{pre}c{i}u") (← kv.floats s!"{pre}c{i}v") (← kv.float s!"{pre}c{i}d"))
    | "dense" => pure (.dense (← kv.floats s!"{pre}c{i}H"))
    | "genpow" => pure (.genpow (← kv.float s!"{pre}c{i}mu") (← kv.floats s!"{pre}c{i}p")
        (← kv.floats s!"{pre}c{i}q") (← kv.floats s!"{pre}c{i}r") (← kv.floats s!"{pre}c{i}d1")
        (← kv.float s!"{pre}c{i}d2"))
    | _ => none)

/-- `kkt.passes`: assemble, then one `update` per pass on the value array the previous pass left -/
def handlePasses (kv : KV) : Option String := do
  let P ← kv.csc "P"
  let A ← kv.csc "A"
  let cones ← parseCones kv
  let shape ← parseTriangle (← kv.get? "shape")
  let enable ← kv.nat "reg"
  let const ← kv.float "regconst"
  let prop ← kv.float "regprop"
  let np ← kv.nat "np"
  let hist ← (List.range np).mapM (fun k => parseScalingsPre kv s!"p{k}")
  let r : MErr String := do
    let (K, mp) ← assembleKktMatrix P A cones shape
    let signs ← fillSigns A.m A.n mp.sparse_maps
    let outs ← runPasses mp signs (enable != 0) const prop K.nzval hist
    let parts := outs.zipIdx.map (fun p =>
      s!" p{p.2}nzval={fmtFloats p.1.nzval} p{p.2}nzfactor={fmtFloats p.1.nzFactor} p{p.2}eps={fmtFloat p.1.eps}")
    pure (s!"np={outs.length}" ++ String.join parts)
  pure (fmtME id r)

/-- `kkt.cone_ranges`: `make_rng_cones`, `make_rng_blocks`, `rng_cones_iter`, length of
`allocate_kkt_Hsblocks` -/
def handleConeRanges (kv : KV) : Option String := do
  let cones ← parseCones kv
  let rc := makeRngCones cones
  let rb := makeRngBlocks cones
  let it := rngConesIter cones
  let f (xs : List (Nat × Nat)) : String := fmtNats (xs.map (·.1)).toArray
  let g (xs : List (Nat × Nat)) : String := fmtNats (xs.map (·.2)).toArray
  pure s!"cs={f rc} ce={g rc} bs={f rb} be={g rb} is={f it} ie={g it} hslen={allocateKktHsblocksLen cones}"

def handle (ch : String) (kv : KV) : String :=
  let r :=
    if ch.startsWith "blk." then
      match handleBlk ch kv with
      | some s => some s
      | none => if (kv.csc "K").isNone then none else some "unknown-channel"
    else match ch with
      | "kkt.assemble" => handleAssemble kv
      | "kkt.update" => handleUpdate kv
      | "kkt.get_hs" => handleGetHs kv
      | "kkt.passes" => handlePasses kv
      | "kkt.cone_ranges" => handleConeRanges kv
      | _ => some "unknown-channel"
  r.getD "bad-request"

def main : IO Unit := runMain handle
