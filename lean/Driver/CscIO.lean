import Driver.Common
import ClarabelModel.Csc

namespace Driver
open Clarabel

/-- parse `<p>m <p>n <p>colptr <p>rowval <p>nzval` -/
def KV.csc (kv : KV) (p : String) : Option (Csc Float) := do
  let m ← kv.nat (p ++ "m")
  let n ← kv.nat (p ++ "n")
  let colptr ← kv.nats (p ++ "colptr")
  let rowval ← kv.nats (p ++ "rowval")
  let nzval ← kv.floats (p ++ "nzval")
  pure { m, n, colptr, rowval, nzval }

def fmtCsc (M : Csc Float) : String :=
  s!"m={M.m} n={M.n} colptr={fmtNats M.colptr} rowval={fmtNats M.rowval} nzval={fmtFloats M.nzval}"

def fmtM {β : Type} (f : β → String) : MErr β → String
  | .ok v => f v
  | .error e => fmtErr e

end Driver
