/-
  Driver of the whole-solver model with nonsymmetric cones (`ClarabelModel/SolverNS/*.lean`),
  run at `Float`.

  Channels (requests share one format: problem `P* q A* b cones`, ordering `perm`, settings):

    solvens.setup   state of `DefaultSolver::new`: internal data after collapse / presolve /
                    equilibration, KKT matrix (dense 3×3 blocks of the exponential / power
                    cones, sparse expansion of the generalised power cones), data maps, `dsigns`
    solvens.init    state after `default_start()` (`unit_initialization` when a nonsymmetric
                    cone is present): iterate, `(x2, z2)`, KKT values
    solvens.full    the whole `solve()`: every pass of the loop (iterate, μ, σ, α, info scalars,
                    decisions, scaling strategy, the four checkpoints, α_aff, σ, α) + the
                    returned solution
    solvens.twice   `solve()` twice on the same object: the record of the second solve, the
                    figures of the first one, and whether both returned the same bits
    solvens.state   what `solve()` leaves in the object (`step_lhs`, `step_rhs`, `prev_vars`, the
                    KKT values of the last update) and `variables.barrier(step_lhs, α, cones)` on
                    that state for the requested `alphas`

  Settings keys: those of `Driver/Solver.lean` plus `minsw` (`min_switch_step_length`) and
  `bstep` (`linesearch_backtrack_step`).
-/
import Driver.CscIO
import Driver.ConeIO
import ClarabelModel.SolverNS.Solve

open Clarabel Driver Clarabel.SolverNS

namespace SolverNSDriver

/-- fuel of the model for the unbounded `loop` of `backtrack_search` (never reached: the
generators keep `linesearch_backtrack_step < 1` and `min_terminate_step_length > 0`) -/
def btFuel : Nat := 200000

def mkTols (xs : Array Float) : Option (Info.Tols Float) :=
  if xs.size != 6 then none else
  some { gap_abs := xs[0]!, gap_rel := xs[1]!, feas := xs[2]!, infeas_abs := xs[3]!,
         infeas_rel := xs[4]!, ktratio := xs[5]! }

def parseSettings (kv : KV) : Option (Settings Float) := do
  let maxiter ← kv.nat "maxiter"
  let full ← (kv.floats "tols") >>= mkTols
  let reduced ← (kv.floats "rtols") >>= mkTols
  let msf ← kv.float "msf"
  let minterm ← kv.float "minterm"
  let minsw ← kv.float "minsw"
  let bstep ← kv.float "bstep"
  let eq ← kv.nat "eq"
  let eqit ← kv.nat "eqit"
  let eqmin ← kv.float "eqmin"
  let eqmax ← kv.float "eqmax"
  let sreg ← kv.nat "sreg"
  let sregc ← kv.float "sregc"
  let sregp ← kv.float "sregp"
  let dyneps ← kv.float "dyneps"
  let dyndelta ← kv.float "dyndelta"
  let ir ← kv.nat "ir"
  let irrel ← kv.float "irrel"
  let irabs ← kv.float "irabs"
  let irit ← kv.nat "irit"
  let irstop ← kv.float "irstop"
  let presolve ← kv.nat "presolve"
  let inf ← kv.float "inf"
  let maxval ← kv.float "maxval"
  pure {
    info := { full, reduced, max_iter := maxiter }
    maxStepFraction := msf
    minTerminateStepLength := minterm
    equil := { enable := eq != 0, maxIter := eqit, minScaling := eqmin, maxScaling := eqmax }
    lin := { staticRegEnable := sreg != 0, staticRegConstant := sregc, staticRegProportional := sregp,
             dynRegEps := dyneps, dynRegDelta := dyndelta, irEnable := ir != 0, irReltol := irrel,
             irAbstol := irabs, irMaxIter := irit, irStopRatio := irstop }
    presolveEnable := presolve != 0
    infbound := inf
    maxValue := maxval
    minSwitchStepLength := minsw
    linesearchBacktrackStep := bstep
    btFuel := btFuel }

structure Request where
  P : Csc Float
  q : Array Float
  A : Csc Float
  b : Array Float
  cones : List (ConeT Float)
  perm : Array Nat
  st : Settings Float

def parseRequest (kv : KV) : Option Request := do
  let P ← kv.csc "P"
  let q ← kv.floats "q"
  let A ← kv.csc "A"
  let b ← kv.floats "b"
  let cones ← kv.cones "cones"
  let perm ← kv.nats "perm"
  let st ← parseSettings kv
  pure { P, q, A, b, cones, perm, st }

def fmtCscP (p : String) (M : Csc Float) : String :=
  s!"{p}m={M.m} {p}n={M.n} {p}colptr={fmtNats M.colptr} {p}rowval={fmtNats M.rowval} {p}nzval={fmtFloats M.nzval}"

def fmtOptF : Option Float → String
  | some v => fmtFloat v
  | none => "xnan"

def fmtSparseMaps (maps : Array Kkt.SparseMap) : String :=
  let parts := maps.toList.zipIdx.map (fun p =>
    let i := p.2
    match p.1 with
    | .soc u v D => s!"s{i}u={fmtNats u} s{i}v={fmtNats v} s{i}D={fmtNats D}"
    | .genpow pp q r D => s!"s{i}p={fmtNats pp} s{i}q={fmtNats q} s{i}r={fmtNats r} s{i}D={fmtNats D}")
  s!"nsp={maps.size}" ++ String.join (parts.map (" " ++ ·))

def fmtSetup (S : SolverSt Float) (perm : Array Nat) : String :=
  let d := S.data
  let eq := d.equilibration
  let K := S.kktsystem.kktsolver
  let keep := match d.presolver with
    | some p => match p.keep with
      | some k => fmtBools k
      | none => "-"
    | none => "-"
  s!"n={d.n} m={d.m} cones={fmtCones d.cones} keep={keep} " ++
  fmtCscP "P" d.P ++ s!" q={fmtFloats d.q} " ++ fmtCscP "A" d.A ++ s!" b={fmtFloats d.b} " ++
  s!"d={fmtFloats eq.d} dinv={fmtFloats eq.dinv} e={fmtFloats eq.e} einv={fmtFloats eq.einv} c={fmtFloat eq.c} " ++
  s!"normq={fmtOptF d.normq} normb={fmtOptF d.normb} " ++
  fmtCscP "K" K.KKT ++
  s!" mapP={fmtNats K.map.P} mapA={fmtNats K.map.A} Hs={fmtNats K.map.Hsblocks} " ++
  fmtSparseMaps K.map.sparse_maps ++
  s!" diagP={fmtNats K.map.diagP} diagfull={fmtNats K.map.diag_full} dsigns={fmtInts K.dsigns} " ++
  s!"p={K.p} sym={if isSymmetric S.cones then 1 else 0} pd={if allowsPD S.cones then 1 else 0} " ++
  s!"deg={degreeAll S.cones} perm={fmtNats perm}"

def fmtVarsP (p : String) (v : Residuals.Vars Float) : String :=
  s!"{p}x={fmtFloats v.x} {p}s={fmtFloats v.s} {p}z={fmtFloats v.z} {p}tau={fmtFloat v.τ} {p}kappa={fmtFloat v.κ}"

def fmtInit (S : SolverSt Float) : String :=
  fmtVarsP "" S.variables ++
  s!" x2={fmtFloats S.kktsystem.x2} z2={fmtFloats S.kktsystem.z2} " ++
  s!"K={fmtFloats S.kktsystem.kktsolver.KKT.nzval} reg={fmtFloat S.kktsystem.kktsolver.diagonalRegularizer}"

def cat (xs : List (Array Float)) : Array Float := xs.foldl (· ++ ·) #[]

def optList {β : Type} (xs : List (Option β)) : List β := xs.filterMap id

/-- bitwise equality of two float arrays (NaN = NaN) -/
def bitsEq (a b : Array Float) : Bool :=
  a.size == b.size && (a.toList.zip b.toList).all (fun p => p.1.toBits == p.2.toBits || (p.1.isNaN && p.2.isNaN))

def optBitsEq (a b : Option Float) : Bool :=
  match a, b with
  | some x, some y => x.toBits == y.toBits || (x.isNaN && y.isNaN)
  | none, none => true
  -- `none` stands for NaN
  | some x, none => x.isNaN
  | none, some y => y.isNaN

/-- wire code of a `StrategyCheckpoint` -/
def cpCode : Loop.Checkpoint → Nat
  | .NoUpdate => 0
  | .Fail => 1
  | .Update .Dual => 2
  | .Update .PrimalDual => 3

/-- provenance of the returned point, computed as the harness computes it on the
implementation: the index (from the end, among the last three) of the recorded iterate whose
un-scaling is the final `variables`, 99 if none is -/
def provenance (r : SolveResult Float) : Nat :=
  let eq := r.S.st.data.equilibration
  let fin := r.S.st.variables
  let inf := r.S.solution.status.isInfeasible
  let cinv := 1.0 / eq.c
  let cand := (r.traj.reverse.take 3).zipIdx
  let hit := cand.find? (fun p =>
    let ps := p.1.vars
    let scaleinv := if inf then 1.0 / ps.κ else 1.0 / ps.τ
    let x := (ps.x.toList.zip eq.d.toList).map (fun q => (q.1 * q.2) * scaleinv)
    let z := (ps.z.toList.zip eq.e.toList).map (fun q => (q.1 * q.2) * (scaleinv * cinv))
    let s := (ps.s.toList.zip eq.einv.toList).map (fun q => (q.1 * q.2) * scaleinv)
    bitsEq x.toArray fin.x && bitsEq s.toArray fin.s && bitsEq z.toArray fin.z)
  match hit with
  | some p => p.2
  | none => 99

def fmtFull (r : SolveResult Float) (perm : Array Nat) : String :=
  let t := r.traj
  let fl (f : PassRec Float → Float) : String := fmtFloats (t.map f).toArray
  let sol := r.S.solution
  -- did `strategy_checkpoint_insufficient_progress` roll the iterate back in some pass?
  let rb : Nat := if t.any (fun l => match l.ipCp with
      | some .NoUpdate => false
      | some _ => true
      | none => false) then 1 else 0
  -- passes that reached `scale_cones`
  let scaled := t.filter (fun l => l.scalingSuccess.isSome)
  s!"np={t.length} px={fmtFloats (cat (t.map (·.vars.x)))} ps={fmtFloats (cat (t.map (·.vars.s)))} " ++
  s!"pz={fmtFloats (cat (t.map (·.vars.z)))} ptau={fl (·.vars.τ)} pkap={fl (·.vars.κ)} " ++
  s!"pmu={fl (·.mu)} psig={fl (·.sigma)} pstep={fl (·.stepLength)} " ++
  s!"pit={fmtNats (t.map (·.info.iterations)).toArray} " ++
  s!"pcp={fl (·.info.cost_primal)} pcd={fl (·.info.cost_dual)} prp={fl (·.info.res_primal)} " ++
  s!"prd={fl (·.info.res_dual)} prpi={fl (·.info.res_primal_inf)} prdi={fl (·.info.res_dual_inf)} " ++
  s!"pga={fl (·.info.gap_abs)} pgr={fl (·.info.gap_rel)} pkt={fl (·.info.ktratio)} " ++
  s!"pdbz={fl (·.dotBz)} pdqx={fl (·.dotQx)} " ++
  s!"pdone={fmtBools (t.map (·.isdone)).toArray} pst={fmtNats (t.map (·.status.toNat)).toArray} " ++
  s!"pip={fmtNats ((optList (t.map (·.ipCp))).map cpCode).toArray} " ++
  s!"pss={fmtBools (optList (t.map (·.scalingSuccess))).toArray} " ++
  s!"pdual={fmtBools (scaled.map (·.dual)).toArray} " ++
  s!"pks={fmtBools (optList (t.map (·.kktSuccess))).toArray} " ++
  s!"pne={fmtNats ((optList (t.map (·.neCp))).map cpCode).toArray} " ++
  s!"aaff={fmtFloats (optList (t.map (·.alphaAff))).toArray} " ++
  s!"sig={fmtFloats (optList (t.map (·.sigmaNew))).toArray} " ++
  s!"alpha={fmtFloats (optList (t.map (·.alpha))).toArray} " ++
  s!"psm={fmtNats ((optList (t.map (·.smCp))).map cpCode).toArray} " ++
  s!"status={sol.status.toNat} iterations={sol.iterations} " ++
  s!"x={fmtFloats sol.x} s={fmtFloats sol.s} z={fmtFloats sol.z} " ++
  s!"obj={fmtOptF sol.obj_val} objd={fmtOptF sol.obj_val_dual} rp={fmtOptF sol.r_prim} rd={fmtOptF sol.r_dual} " ++
  s!"imu={fmtFloat r.S.st.infoMu} isig={fmtFloat r.S.st.infoSigma} istep={fmtFloat r.S.st.infoStepLength} " ++
  s!"perm={fmtNats perm} prov={provenance r} rb={rb} " ++
  s!"nq={fmtOptF r.S.st.data.normq} nb={fmtOptF r.S.st.data.normb}"

/-- the norm caches before the first solve of `solvens.twice` (request field `cm`): 0 as `new` left
them, 1 both cleared, 2 / 3 one of them cleared, 4 both holding the stale values `cq`, `cb` -/
def applyCm (S : Solver Float) (cm : Nat) (cq cb : Float) : Solver Float :=
  let d := S.st.data
  let d' : ProblemData Float := match cm with
    | 1 => { d with normq := none, normb := none }
    | 2 => { d with normq := none }
    | 3 => { d with normb := none }
    | 4 => { d with normq := some cq, normb := some cb }
    | _ => d
  { S with st := { S.st with data := d' } }

/-- second solve on the same object: its full record, the figures of the first solve, whether the
two returned the same bits, and the norm caches before / after the first solve -/
def fmtTwice (S0 : Solver Float) (r1 r2 : SolveResult Float) (perm : Array Nat) : String :=
  let (a, b) := (r1.S.solution, r2.S.solution)
  let same := a.status.toNat == b.status.toNat && a.iterations == b.iterations && bitsEq a.x b.x
    && bitsEq a.s b.s && bitsEq a.z b.z && optBitsEq a.obj_val b.obj_val
    && optBitsEq a.obj_val_dual b.obj_val_dual && optBitsEq a.r_prim b.r_prim && optBitsEq a.r_dual b.r_dual
  fmtFull r2 perm ++
  s!" status1={a.status.toNat} iterations1={a.iterations} x1={fmtFloats a.x} s1={fmtFloats a.s} " ++
  s!"z1={fmtFloats a.z} same={if same then 1 else 0} " ++
  s!"nq0={fmtOptF S0.st.data.normq} nb0={fmtOptF S0.st.data.normb} " ++
  s!"nq1={fmtOptF r1.S.st.data.normq} nb1={fmtOptF r1.S.st.data.normb}"

/-- `variables.barrier(step_lhs, α, cones)` on the state `solve()` left behind, for the
requested `α` in order, stopping at the first panic: `(values, panicked?)` -/
def barrierValues (S : SolverSt Float) : List Float → List Float × Bool
  | [] => ([], false)
  | a :: rest =>
    match barrier S.variables S.stepLhs a S.cones with
    | .ok v =>
      let r := barrierValues S rest
      (v :: r.1, r.2)
    | .error _ => ([], true)

def fmtState (r : SolveResult Float) (alphas : Array Float) : String :=
  let S := r.S.st
  let K := S.kktsystem.kktsolver
  let bv := barrierValues S alphas.toList
  s!"status={r.S.solution.status.toNat} " ++
  fmtVarsP "l" S.stepLhs ++ " " ++ fmtVarsP "r" S.stepRhs ++ " " ++ fmtVarsP "v" S.prevVars ++
  s!" K={fmtFloats K.KKT.nzval} reg={fmtFloat K.diagonalRegularizer} " ++
  s!"bar={fmtFloats bv.1.toArray} bp={if bv.2 then 1 else 0}"

def handle (ch : String) (kv : KV) : String :=
  match ch with
  | "solvens.state" =>
    match parseRequest kv, kv.floats "alphas" with
    | some r, some alphas => fmtME (fun res => fmtState res alphas) (do
        let S ← Solver.new r.P r.q r.A r.b r.cones r.st r.perm
        S.solve r.st)
    | _, _ => "bad-request"
  | "solvens.setup" =>
    match parseRequest kv with
    | none => "bad-request"
    | some r => fmtME (fun S => fmtSetup S.st r.perm) (Solver.new r.P r.q r.A r.b r.cones r.st r.perm)
  | "solvens.init" =>
    match parseRequest kv with
    | none => "bad-request"
    | some r => fmtME fmtInit (do
        let S ← Solver.new r.P r.q r.A r.b r.cones r.st r.perm
        S.st.defaultStart r.st)
  | "solvens.full" =>
    match parseRequest kv with
    | none => "bad-request"
    | some r => fmtME (fun res => fmtFull res r.perm) (do
        let S ← Solver.new r.P r.q r.A r.b r.cones r.st r.perm
        S.solve r.st)
  | "solvens.twice" =>
    -- `solve()` twice on the same object: the record is the one of the second solve
    match parseRequest kv with
    | none => "bad-request"
    | some r =>
      let cm := (kv.nat "cm").getD 0
      let cq := (kv.float "cqv").getD 0
      let cb := (kv.float "cbv").getD 0
      fmtME (fun p => fmtTwice p.1 p.2.1 p.2.2 r.perm) (do
        let S ← Solver.new r.P r.q r.A r.b r.cones r.st r.perm
        let S := applyCm S cm cq cb
        let r1 ← S.solve r.st
        let r2 ← r1.S.solve r.st
        pure (S, r1, r2))
  | _ => "unknown-channel"

end SolverNSDriver

def main : IO Unit := runMain SolverNSDriver.handle
