import Driver.CscIO
import ClarabelModel.Qdldl

open Clarabel Driver

namespace C12Driver

def unknownIdx : Nat := 18446744073709551615

def fmtEtree (e : Array (Option Nat)) : String :=
  fmtNats (e.map (fun o => o.getD unknownIdx))

def fmtIntsArr (xs : Array Int) : String := fmtInts xs

abbrev Fact := Qdldl.Factorisation Float

def fmtFactors (F : Fact) (sfx : String := "") : String :=
  s!"Lcolptr{sfx}={fmtNats F.L.colptr} Lrowval{sfx}={fmtNats F.L.rowval} Lnzval{sfx}={fmtFloats F.L.nzval} " ++
  s!"D{sfx}={fmtFloats F.D} Dinv{sfx}={fmtFloats F.Dinv} inertia{sfx}={F.positiveInertia} count{sfx}={F.regularizeCount}"

def fmtState (F : Fact) : String :=
  s!"perm={fmtNats F.perm} iperm={fmtNats F.iperm} " ++ fmtFactors F ++
  s!" etree={fmtEtree F.etree} Lnz={fmtNats F.Lnz} Pcolptr={fmtNats F.triuA.colptr} " ++
  s!"Prowval={fmtNats F.triuA.rowval} Pnzval={fmtFloats F.triuA.nzval} AtoPAPt={fmtNats F.AtoPAPt} " ++
  s!"dsigns={fmtIntsArr F.rp.Dsigns} sym={fmtBool F.isSymbolic}"

/-- error token without blanks (a response token must not contain whitespace) -/
def fmtErr' (e : ModelErr) : String :=
  String.ofList ((fmtErr e).toList.map (fun c => if c == ' ' || c == '=' || c == ',' then '_' else c))

def fmtRes : MErr String → String
  | .ok s => s
  | .error e => fmtErr' e

/-- common settings of `new`: `(perm, amd?, iperm, dsigns, enable, eps, delta, logical)` -/
def construct (kv : KV) : Option (MErr Fact) := do
  let A ← kv.csc ""
  let perm ← kv.nats "perm"
  let enable ← kv.nat "enable"
  let eps ← kv.float "eps"
  let delta ← kv.float "delta"
  let logical ← kv.nat "logical"
  let dsigns : Option (Array Int) := kv.ints "dsigns"
  match kv.nat "amd" with
  | some 1 =>
    let iperm ← kv.nats "iperm"
    pure (Qdldl.newAmd A perm iperm dsigns (enable != 0) eps delta (logical != 0))
  | _ => pure (Qdldl.new A perm dsigns (enable != 0) eps delta (logical != 0))

/-- run the operation sequence; returns the rendered tokens -/
def runOps (kv : KV) (nops : Nat) (F0 : Fact) : Option (MErr String) := do
  let mut F := F0
  let mut out : String := ""
  for t in [0:nops] do
    let op ← kv.str s!"op{t}"
    match op with
    | "update" =>
      let idx ← kv.nats s!"i{t}"
      let vals ← kv.floats s!"v{t}"
      match Qdldl.updateValues F idx vals with
      | .ok F' => F := F'
      | .error e => return (.error e)
    | "scale" =>
      let idx ← kv.nats s!"i{t}"
      let sc ← kv.float s!"s{t}"
      match Qdldl.scaleValues F idx sc with
      | .ok F' => F := F'
      | .error e => return (.error e)
    | "offset" =>
      let idx ← kv.nats s!"i{t}"
      let off ← kv.float s!"s{t}"
      let sg ← kv.ints s!"g{t}"
      match Qdldl.offsetValues F idx off sg with
      | .ok F' => F := F'
      | .error e => return (.error e)
    | "refactor" =>
      match Qdldl.refactor F with
      | .ok F' =>
        F := F'
        out := out ++ s!"r{t}=ok " ++ fmtFactors F (toString t) ++ " "
      | .error (.err k) =>
        -- the failed call leaves no state in the model: refactor once more on the same object
        let again := match Qdldl.refactor F with
          | .ok _ => "ok"
          | .error (.err k2) => s!"err:{k2}"
          | .error _ => "panic"
        return (.ok (out ++ s!"r{t}=err:{k} again{t}={again}"))
      | .error e => return (.error e)
    | "solve" =>
      let b ← kv.floats s!"b{t}"
      match Qdldl.solve F b with
      | .ok x => out := out ++ s!"x{t}={fmtFloats x} "
      | .error e => return (.error e)
    | _ => none
  return (.ok (out ++ s!"Pnzval={fmtFloats F.triuA.nzval} sym={fmtBool F.isSymbolic}"))

def handle (ch : String) (kv : KV) : String :=
  match ch with
  | "qdldl.invperm" =>
    match kv.nats "p" with
    | some p => fmtRes ((Perm.invperm p).map (fun b => s!"ok b={fmtNats b}"))
    | none => "bad-request"
  | "utils.invperm" =>
    match kv.nats "p" with
    | some p => fmtRes ((Perm.utilsInvperm p).map (fun b => s!"b={fmtNats b}"))
    | none => "bad-request"
  | "qdldl.check_structure" =>
    match kv.csc "" with
    | some A => fmtRes ((Qdldl.checkStructure A).map (fun _ => "ok"))
    | none => "bad-request"
  | "qdldl.etree" =>
    match kv.nat "n", kv.nats "Ap", kv.nats "Ai" with
    | some n, some Ap, some Ai =>
      fmtRes ((Qdldl.etree n Ap Ai).map (fun s => s!"Lnz={fmtNats s.Lnz} etree={fmtEtree s.etree}"))
    | _, _, _ => "bad-request"
  | "qdldl.permute_symmetric" =>
    match kv.csc "", kv.nats "iperm" with
    | some A, some ip =>
      fmtRes ((Qdldl.permuteSymmetric A ip).map (fun r => fmtCsc r.1 ++ s!" AtoPAPt={fmtNats r.2}"))
    | _, _ => "bad-request"
  | "qdldl.permute" =>
    match kv.floats "x", kv.floats "b", kv.nats "p" with
    | some x, some b, some p => fmtRes ((Perm.permute x b p).map (fun r => s!"x={fmtFloats r}"))
    | _, _, _ => "bad-request"
  | "qdldl.ipermute" =>
    match kv.floats "x", kv.floats "b", kv.nats "p" with
    | some x, some b, some p => fmtRes ((Perm.ipermute x b p).map (fun r => s!"x={fmtFloats r}"))
    | _, _, _ => "bad-request"
  | "qdldl.lsolve" =>
    match kv.nats "Lp", kv.nats "Li", kv.floats "Lx", kv.floats "b" with
    | some Lp, some Li, some Lx, some b =>
      fmtRes ((Qdldl.lsolve Lp Li Lx b).map (fun r => s!"x={fmtFloats r}"))
    | _, _, _, _ => "bad-request"
  | "qdldl.ltsolve" =>
    match kv.nats "Lp", kv.nats "Li", kv.floats "Lx", kv.floats "b" with
    | some Lp, some Li, some Lx, some b =>
      fmtRes ((Qdldl.ltsolve Lp Li Lx b).map (fun r => s!"x={fmtFloats r}"))
    | _, _, _, _ => "bad-request"
  | "qdldl.dltsolve" =>
    match kv.nats "Lp", kv.nats "Li", kv.floats "Lx", kv.floats "Dinv", kv.floats "b" with
    | some Lp, some Li, some Lx, some Dinv, some b =>
      fmtRes ((Qdldl.dltsolve Lp Li Lx Dinv b).map (fun r => s!"x={fmtFloats r}"))
    | _, _, _, _, _ => "bad-request"
  | "qdldl.solve_raw" =>
    match kv.nats "Lp", kv.nats "Li", kv.floats "Lx", kv.floats "Dinv", kv.floats "b" with
    | some Lp, some Li, some Lx, some Dinv, some b =>
      fmtRes ((Qdldl.solveRaw Lp Li Lx Dinv b).map (fun r => s!"x={fmtFloats r}"))
    | _, _, _, _, _ => "bad-request"
  | "qdldl.factor_raw" =>
    match kv.csc "", kv.ints "dsigns", kv.nat "enable", kv.float "eps", kv.float "delta", kv.nat "logical" with
    | some A, some ds, some en, some eps, some delta, some lg =>
      let r : MErr String := do
        let es ← Qdldl.etree A.m A.colptr A.rowval
        let n := A.n
        let sumLnz := es.Lnz.toList.foldl (· + ·) 0
        let F : Fact :=
          { perm := #[], iperm := #[],
            L := { m := n, n := n, colptr := (Array.replicate (n + 1) 0).setIfInBounds n sumLnz,
                   rowval := Array.replicate sumLnz 0, nzval := Array.replicate sumLnz 0 },
            D := Array.replicate n 0, Dinv := Array.replicate n 0, etree := es.etree, Lnz := es.Lnz,
            triuA := A, AtoPAPt := #[],
            rp := { Dsigns := ds, enable := en != 0, eps := eps, delta := delta },
            positiveInertia := 0, regularizeCount := 0, isSymbolic := lg != 0 }
        let F ← Qdldl.factor F (lg != 0)
        pure (fmtFactors F ++ s!" etree={fmtEtree F.etree} Lnz={fmtNats F.Lnz}")
      fmtRes r
    | _, _, _, _, _, _ => "bad-request"
  | "qdldl.new" =>
    match construct kv with
    | some r => fmtRes (r.map fmtState)
    | none => "bad-request"
  | "qdldl.ops" =>
    match construct kv, kv.nat "nops" with
    | some (.ok F), some nops =>
      match runOps kv nops F with
      | some r => fmtRes r
      | none => "bad-request"
    | some (.error e), some _ => fmtErr' e
    | _, _ => "bad-request"
  | _ => "unknown-channel"

end C12Driver

def main : IO Unit := runMain C12Driver.handle
