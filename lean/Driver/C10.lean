import Driver.CscIO
import Driver.ConeIO
import ClarabelModel.Collapse
import ClarabelModel.ProblemData
import ClarabelModel.Equil
import ClarabelModel.EquilUnscale

open Clarabel Driver Equil

def fmtCscQ (p : String) (M : Csc Float) : String :=
  s!"{p}m={M.m} {p}n={M.n} {p}colptr={fmtNats M.colptr} {p}rowval={fmtNats M.rowval} {p}nzval={fmtFloats M.nzval}"

def fmtEquil (d : ProblemData Float) : String :=
  let q := d.equilibration
  s!"d={fmtFloats q.d} e={fmtFloats q.e} dinv={fmtFloats q.dinv} einv={fmtFloats q.einv} c={fmtFloat q.c} {fmtCscQ "P" d.P} q={fmtFloats d.q} {fmtCscQ "A" d.A} b={fmtFloats d.b} cones={fmtCones d.cones}"

def kvSettings (kv : KV) : Option (Settings Float) := do
  let en ← kv.nat "enable"
  let mi ← kv.nat "maxiter"
  let lo ← kv.float "smin"
  let hi ← kv.float "smax"
  pure { enable := en != 0, maxIter := mi, minScaling := lo, maxScaling := hi }

def handleC10 (ch : String) (kv : KV) : String :=
  match ch with
  | "equil.equilibrate" =>
    match kv.csc "P", kv.floats "q", kv.csc "A", kv.floats "b", kv.cones "cones", kvSettings kv with
    | some P, some q, some A, some b, some cs, some st =>
      fmtME fmtEquil (do
        let d ← ProblemData.new P q A b cs false false (1e20 : Float)
        equilibrate d d.cones st)
    | _, _, _, _, _, _ => "bad-request"
  | "equil.unscale_roundtrip" =>
    match kv.csc "P", kv.floats "q", kv.csc "A", kv.floats "b", kv.cones "cones", kvSettings kv with
    | some P, some q, some A, some b, some cs, some st =>
      match kv.floats "ux", kv.floats "us", kv.floats "uz", kv.float "tau", kv.float "kappa" with
      | some ux, some us, some uz, some tau, some kappa =>
        fmtME (fun (v : Residuals.Vars Float) =>
            s!"x={fmtFloats v.x} s={fmtFloats v.s} z={fmtFloats v.z} tau={fmtFloat v.τ} kappa={fmtFloat v.κ}") (do
          let d ← ProblemData.new P q A b cs false false (1e20 : Float)
          let d' ← equilibrate d d.cones st
          pure (unscaleRoundtrip d'.equilibration ux us uz tau kappa))
      | _, _, _, _, _ => "bad-request"
    | _, _, _, _, _, _ => "bad-request"
  | "equil.rectify" =>
    match kv.cones "cones", kv.floats "e" with
    | some cs, some e =>
      if Cones.numel cs != e.size then "panic:range" else
      let r := rectifyGo cs e.toList
      s!"delta={fmtFloats r.1.toArray} changed={fmtBool r.2}"
    | _, _ => "bad-request"
  | "csc.norms" =>
    match kv.csc "", kv.floats "init" with
    | some M, some init =>
      if !M.wellFormed then "err:noncanonical-matrix" else
      let z : Array Float := Array.replicate M.n 0.0
      let zr : Array Float := Array.replicate M.m 0.0
      let sym := if M.m == M.n then fmtFloats (colNormsSym M z) else ""
      s!"col={fmtFloats (colNorms M z)} colnr={fmtFloats (colNormsNoReset M init)} row={fmtFloats (rowNorms M zr)} sym={sym}"
    | _, _ => "bad-request"
  | "csc.scalings" =>
    match kv.csc "", kv.floats "l", kv.floats "r", kv.float "c" with
    | some M, some l, some r, some c =>
      if !M.wellFormed then "err:noncanonical-matrix" else
      s!"lr={fmtFloats (lrscale M l r).nzval} l={fmtFloats (lscale M l).nzval} s={fmtFloats (scaleMat M c).nzval}"
    | _, _, _, _ => "bad-request"
  | _ => "unknown-channel"

def main : IO Unit := runMain handleC10
