import Driver.Common
import ClarabelModel.Cones.Exp
import ClarabelModel.Cones.Pow
import ClarabelModel.Cones.GenPow

open Clarabel Driver

namespace C14Driver

def v3? (kv : KV) (k : String) : Option (V3 Float) := do
  let a ← kv.floats k
  Nonsym.v3ofArray? a

def fmtV3 (x : V3 Float) : String := fmtFloats (Nonsym.v3toArray x)
def fmtSym3 (H : Sym3 Float) : String := fmtFloats H.toArray

def sym3? (kv : KV) (k : String) : Option (Sym3 Float) := do
  let a ← kv.floats k
  Sym3.ofArray? a

def fmtME {β : Type} (f : β → String) : MErr β → String
  | .ok v => f v
  | .error (.panic _) => "panic:model"
  | .error e => fmtErr e

/-- fuel for `backtrack_search`: with `step ≤ 0.99` far more than enough to fall under any
positive `α_min ≥ 1e-300`; exhaustion is reported, never silently truncated. -/
def btFuel : Nat := 200000

def handleSym3 (ch : String) (kv : KV) : String :=
  match ch with
  | "sym3.mul" =>
    match sym3? kv "H", v3? kv "x" with
    | some H, some x => "y=" ++ fmtV3 (H.mul x)
    | _, _ => "bad-request"
  | "sym3.quad_form" =>
    match sym3? kv "H", v3? kv "x", v3? kv "y" with
    | some H, some x, some y => "q=" ++ fmtFloat (H.quadForm y x)
    | _, _, _ => "bad-request"
  | "sym3.norm_fro" =>
    match sym3? kv "H" with
    | some H => "n=" ++ fmtFloat H.normFro
    | _ => "bad-request"
  | "sym3.index_linear" =>
    match kv.nat "r", kv.nat "c" with
    | some r, some c => "i=" ++ toString (Sym3.indexLinear r c)
    | _, _ => "bad-request"
  | "sym3.cholesky" =>
    match sym3? kv "H", v3? kv "b" with
    | some H, some b =>
      let (ok, L) := Sym3.choleskyFactor H
      if ok then "ok=1 L=" ++ fmtSym3 L ++ " x=" ++ fmtV3 (Sym3.choleskySolve L b)
      else "ok=0 L=" ++ fmtSym3 L
    | _, _ => "bad-request"
  | _ => "unknown-channel"

def handleExp (ch : String) (kv : KV) : String :=
  match ch with
  | "exp.is_primal_feasible" =>
    match v3? kv "s" with
    | some s => fmtBool (Exp.isPrimalFeasible s.1 s.2.1 s.2.2)
    | _ => "bad-request"
  | "exp.is_dual_feasible" =>
    match v3? kv "z" with
    | some z => fmtBool (Exp.isDualFeasible z.1 z.2.1 z.2.2)
    | _ => "bad-request"
  | "exp.barrier_dual" =>
    match v3? kv "z" with
    | some z => "f=" ++ fmtFloat (Exp.barrierDual z.1 z.2.1 z.2.2)
    | _ => "bad-request"
  | "exp.barrier_primal" =>
    match v3? kv "s" with
    | some s => fmtME (fun f => "f=" ++ fmtFloat f) (Exp.barrierPrimal s)
    | _ => "bad-request"
  | "exp.wright_omega" =>
    match kv.float "z" with
    | some z => fmtME (fun w => "w=" ++ fmtFloat w) (Exp.wrightOmega z)
    | _ => "bad-request"
  | "exp.gradient_primal" =>
    match v3? kv "s" with
    | some s => fmtME (fun g => "g=" ++ fmtV3 g) (Exp.gradientPrimal s)
    | _ => "bad-request"
  | "exp.update_dual_grad_H" =>
    match v3? kv "z" with
    | some z =>
      let (g, H) := Exp.updateDualGradH z
      "grad=" ++ fmtV3 g ++ " H=" ++ fmtSym3 H
    | _ => "bad-request"
  | "exp.higher_correction" =>
    match v3? kv "z", v3? kv "ds", v3? kv "v" with
    | some z, some ds, some v =>
      let (_, H) := Exp.updateDualGradH z
      "eta=" ++ fmtV3 (Exp.higherCorrection H z ds v)
    | _, _, _ => "bad-request"
  | "exp.combined_ds_shift" =>
    match v3? kv "z", v3? kv "dz", v3? kv "ds", kv.float "sigmamu" with
    | some z, some dz, some ds, some sm =>
      let (g, H) := Exp.updateDualGradH z
      "shift=" ++ fmtV3 (Exp.combinedDsShift H g z dz ds sm)
    | _, _, _, _ => "bad-request"
  | "exp.update_scaling" =>
    match v3? kv "s", v3? kv "z", kv.float "mu", kv.nat "dual", v3? kv "x" with
    | some s, some z, some mu, some dual, some x =>
      fmtME (fun st => "ok=1 Hs=" ++ fmtSym3 st.Hs ++ " grad=" ++ fmtV3 st.grad ++ " H=" ++ fmtSym3 st.Hdual
          ++ " z=" ++ fmtV3 st.z ++ " y=" ++ fmtV3 (st.Hs.mul x))
        (Exp.updateScaling s z mu (dual != 0))
    | _, _, _, _, _ => "bad-request"
  | "exp.unit_initialization" =>
    let u : V3 Float := Exp.unitInitialization
    "z=" ++ fmtV3 u ++ " s=" ++ fmtV3 u
  | "exp.compute_barrier" =>
    match v3? kv "z", v3? kv "s", v3? kv "dz", v3? kv "ds", kv.float "a" with
    | some z, some s, some dz, some ds, some a =>
      fmtME (fun f => "f=" ++ fmtFloat f) (Exp.computeBarrier z s dz ds a)
    | _, _, _, _, _ => "bad-request"
  | "exp.step_length" =>
    match v3? kv "z", v3? kv "s", v3? kv "dz", v3? kv "ds", kv.float "step", kv.float "amin", kv.float "amax" with
    | some z, some s, some dz, some ds, some step, some amin, some amax =>
      fmtME (fun r => "az=" ++ fmtFloat r.1 ++ " as=" ++ fmtFloat r.2)
        (Exp.stepLength dz ds z s step amin amax btFuel)
    | _, _, _, _, _, _, _ => "bad-request"
  | _ => "unknown-channel"

def handlePow (ch : String) (kv : KV) : String :=
  match kv.float "alpha" with
  | none => "bad-request"
  | some a =>
  match ch with
  | "pow.is_primal_feasible" =>
    match v3? kv "s" with
    | some s => fmtBool (Pow.isPrimalFeasible a s.1 s.2.1 s.2.2)
    | _ => "bad-request"
  | "pow.is_dual_feasible" =>
    match v3? kv "z" with
    | some z => fmtBool (Pow.isDualFeasible a z.1 z.2.1 z.2.2)
    | _ => "bad-request"
  | "pow.barrier_dual" =>
    match v3? kv "z" with
    | some z => "f=" ++ fmtFloat (Pow.barrierDual a z.1 z.2.1 z.2.2)
    | _ => "bad-request"
  | "pow.barrier_primal" =>
    match v3? kv "s" with
    | some s => "f=" ++ fmtFloat (Pow.barrierPrimal a s)
    | _ => "bad-request"
  | "pow.newton_raphson" =>
    match kv.float "s3", kv.float "phi" with
    | some s3, some phi => "x=" ++ fmtFloat (Pow.newtonRaphson s3 phi a).1
    | _, _ => "bad-request"
  | "pow.gradient_primal" =>
    match v3? kv "s" with
    | some s => "g=" ++ fmtV3 (Pow.gradientPrimal a s)
    | _ => "bad-request"
  | "pow.update_dual_grad_H" =>
    match v3? kv "z" with
    | some z =>
      let (g, H) := Pow.updateDualGradH a z
      "grad=" ++ fmtV3 g ++ " H=" ++ fmtSym3 H
    | _ => "bad-request"
  | "pow.higher_correction" =>
    match v3? kv "z", v3? kv "ds", v3? kv "v" with
    | some z, some ds, some v =>
      let (_, H) := Pow.updateDualGradH a z
      "eta=" ++ fmtV3 (Pow.higherCorrection a H z ds v)
    | _, _, _ => "bad-request"
  | "pow.combined_ds_shift" =>
    match v3? kv "z", v3? kv "dz", v3? kv "ds", kv.float "sigmamu" with
    | some z, some dz, some ds, some sm =>
      let (g, H) := Pow.updateDualGradH a z
      "shift=" ++ fmtV3 (Pow.combinedDsShift a H g z dz ds sm)
    | _, _, _, _ => "bad-request"
  | "pow.update_scaling" =>
    match v3? kv "s", v3? kv "z", kv.float "mu", kv.nat "dual", v3? kv "x" with
    | some s, some z, some mu, some dual, some x =>
      let st := Pow.updateScaling a s z mu (dual != 0)
      "ok=1 Hs=" ++ fmtSym3 st.Hs ++ " grad=" ++ fmtV3 st.grad ++ " H=" ++ fmtSym3 st.Hdual
          ++ " z=" ++ fmtV3 st.z ++ " y=" ++ fmtV3 (st.Hs.mul x)
    | _, _, _, _, _ => "bad-request"
  | "pow.unit_initialization" =>
    let u := Pow.unitInitialization a
    "z=" ++ fmtV3 u ++ " s=" ++ fmtV3 u
  | "pow.compute_barrier" =>
    match v3? kv "z", v3? kv "s", v3? kv "dz", v3? kv "ds", kv.float "a" with
    | some z, some s, some dz, some ds, some al =>
      "f=" ++ fmtFloat (Pow.computeBarrier a z s dz ds al)
    | _, _, _, _, _ => "bad-request"
  | "pow.step_length" =>
    match v3? kv "z", v3? kv "s", v3? kv "dz", v3? kv "ds", kv.float "step", kv.float "amin", kv.float "amax" with
    | some z, some s, some dz, some ds, some step, some amin, some amax =>
      fmtME (fun r => "az=" ++ fmtFloat r.1 ++ " as=" ++ fmtFloat r.2)
        (Pow.stepLength a dz ds z s step amin amax btFuel)
    | _, _, _, _, _, _, _ => "bad-request"
  | _ => "unknown-channel"

def fmtData (D : GenPow.Data Float) : String :=
  "d1=" ++ fmtFloats D.d1 ++ " d2=" ++ fmtFloat D.d2 ++ " p=" ++ fmtFloats D.p ++ " q=" ++ fmtFloats D.q
    ++ " r=" ++ fmtFloats D.r

def handleGenPowWith (ch : String) (kv : KV) (al : Array Float) (dim2 : Nat) (ψ : Float) : String :=
  match ch with
  | "genpow.new" =>
    "psi=" ++ fmtFloat ψ ++ " dim=" ++ toString (al.size + dim2) ++ " degree=" ++ toString (al.size + 1)
  | "genpow.is_primal_feasible" =>
    match kv.floats "s" with
    | some s => fmtME fmtBool (GenPow.isPrimalFeasible al s)
    | _ => "bad-request"
  | "genpow.is_dual_feasible" =>
    match kv.floats "z" with
    | some z => fmtME fmtBool (GenPow.isDualFeasible al z)
    | _ => "bad-request"
  | "genpow.barrier_dual" =>
    match kv.floats "z" with
    | some z => fmtME (fun f => "f=" ++ fmtFloat f) (GenPow.barrierDual al z)
    | _ => "bad-request"
  | "genpow.barrier_primal" =>
    match kv.floats "s" with
    | some s => fmtME (fun f => "f=" ++ fmtFloat f) (GenPow.barrierPrimal al ψ s)
    | _ => "bad-request"
  | "genpow.gradient_primal" =>
    match kv.floats "s" with
    | some s => fmtME (fun g => "g=" ++ fmtFloats g) (GenPow.gradientPrimal al ψ s)
    | _ => "bad-request"
  | "genpow.update_dual_grad_H" =>
    match kv.floats "z" with
    | some z => fmtME (fun D => "grad=" ++ fmtFloats D.grad ++ " " ++ fmtData D) (GenPow.updateDualGradH al z)
    | _ => "bad-request"
  | "genpow.update_scaling" =>
    match kv.floats "z", kv.float "mu", kv.floats "x" with
    | some z, some mu, some x =>
      fmtME (fun (r : Bool × GenPow.State Float × Array Float) =>
          let st := r.2.1
          "ok=" ++ fmtBool r.1 ++ " Hs=" ++ fmtFloats (GenPow.getHs st.D st.mu dim2) ++ " mu=" ++ fmtFloat st.mu
            ++ " grad=" ++ fmtFloats st.D.grad ++ " " ++ fmtData st.D ++ " z=" ++ fmtFloats st.z
            ++ " y=" ++ fmtFloats r.2.2)
        (do
          let st0 : GenPow.State Float := GenPow.State.init al.size dim2
          -- optional earlier update on the same cone object
          let st1 ← match kv.floats "zprev" with
            | some zp => do
              let r ← GenPow.updateScaling al st0 zp 1
              pure r.2
            | none => pure st0
          let (ok, st) ← GenPow.updateScaling al st1 z mu
          let y ← GenPow.mulHs st.D st.mu al.size x
          pure (ok, st, y))
    | _, _, _ => "bad-request"
  | "genpow.combined_ds_shift" =>
    match kv.floats "z", kv.floats "dz", kv.floats "ds", kv.float "sigmamu" with
    | some z, some dz, some ds, some sm =>
      fmtME (fun (r : Bool × GenPow.State Float) =>
          "ok=" ++ fmtBool r.1 ++ " shift=" ++ fmtFloats (GenPow.combinedDsShift r.2.D dz ds sm))
        (GenPow.updateScaling al (GenPow.State.init al.size dim2) z 1)
    | _, _, _, _ => "bad-request"
  | "genpow.unit_initialization" =>
    let u := GenPow.unitInitialization al dim2
    "z=" ++ fmtFloats u ++ " s=" ++ fmtFloats u
  | "genpow.compute_barrier" =>
    match kv.floats "z", kv.floats "s", kv.floats "dz", kv.floats "ds", kv.float "a" with
    | some z, some s, some dz, some ds, some a =>
      fmtME (fun f => "f=" ++ fmtFloat f) (GenPow.computeBarrier al ψ z s dz ds a)
    | _, _, _, _, _ => "bad-request"
  | "genpow.step_length" =>
    match kv.floats "z", kv.floats "s", kv.floats "dz", kv.floats "ds", kv.float "step", kv.float "amin", kv.float "amax" with
    | some z, some s, some dz, some ds, some step, some amin, some amax =>
      fmtME (fun r => "az=" ++ fmtFloat r.1 ++ " as=" ++ fmtFloat r.2)
        (GenPow.stepLength al dz ds z s step amin amax btFuel)
    | _, _, _, _, _, _, _ => "bad-request"
  | _ => "unknown-channel"

def handleGenPow (ch : String) (kv : KV) : String :=
  match kv.floats "alpha", kv.nat "dim2" with
  | some al, some dim2 =>
    match GenPow.new al with
    | .error _ => "panic:model"
    | .ok ψ => handleGenPowWith ch kv al dim2 ψ
  | _, _ => "bad-request"

/-- `_newton_raphson_genpowcone` on its own (no cone object) -/
def handleGenPowNR (kv : KV) : String :=
  match kv.float "normr", kv.floats "p", kv.float "phi", kv.floats "alpha", kv.float "psi" with
  | some normr, some p, some phi, some al, some ψ => "x=" ++ fmtFloat (GenPow.newtonRaphson normr p phi al ψ).1
  | _, _, _, _, _ => "bad-request"

def handle (ch : String) (kv : KV) : String :=
  if ch.startsWith "sym3." then handleSym3 ch kv
  else if ch.startsWith "exp." then handleExp ch kv
  else if ch.startsWith "pow." then handlePow ch kv
  else if ch == "genpow.newton_raphson" then handleGenPowNR kv
  else if ch.startsWith "genpow." then handleGenPow ch kv
  else "unknown-channel"

end C14Driver

def main : IO Unit := runMain C14Driver.handle
