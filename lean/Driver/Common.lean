/-
  Line protocol helpers shared by all model drivers (import-free).

  A request is one line:  `<channel> key=v1,v2,... key=...`.
  Floats travel as `x<16 hex digits>` (IEEE-754 bit pattern) or `xnan`; naturals in decimal;
  integers with a leading `-` when negative.  A response is one line of the same token kinds.
-/
import ClarabelModel.Scalar

namespace Driver
open Clarabel

def hexDigit (n : Nat) : Char :=
  if n < 10 then Char.ofNat (48 + n) else Char.ofNat (87 + n)

def toHex16 (n : UInt64) : String := Id.run do
  let mut s : List Char := []
  let mut v := n.toNat
  for _ in [0:16] do
    s := hexDigit (v % 16) :: s
    v := v / 16
  return String.ofList s

def fmtFloat (f : Float) : String :=
  if f.isNaN then "xnan" else "x" ++ toHex16 f.toBits

def hexVal (c : Char) : Option Nat :=
  if '0' ≤ c ∧ c ≤ '9' then some (c.toNat - 48)
  else if 'a' ≤ c ∧ c ≤ 'f' then some (c.toNat - 87)
  else none

def parseFloat (s : String) : Option Float :=
  if s == "xnan" then some (0.0 / 0.0) else
  match s.toList with
  | 'x' :: cs =>
    if cs.length != 16 then none else
    let r := cs.foldl (fun acc c => match acc, hexVal c with
      | some a, some d => some (a * 16 + d)
      | _, _ => none) (some 0)
    r.map (fun n => Float.ofBits (UInt64.ofNat n))
  | _ => none

def splitList (s : String) : List String :=
  if s.isEmpty then [] else s.splitOn ","

abbrev KV := List (String × String)

def parseLine (line : String) : String × KV :=
  match (line.trimAscii.toString.splitOn " ").filter (· ≠ "") with
  | [] => ("", [])
  | ch :: rest =>
    (ch, rest.filterMap (fun tok =>
      match tok.splitOn "=" with
      | [k, v] => some (k, v)
      | _ => none))

def KV.get? (kv : KV) (k : String) : Option String := (kv.find? (·.1 == k)).map (·.2)

def KV.nats (kv : KV) (k : String) : Option (Array Nat) := do
  let s ← kv.get? k
  let xs ← (splitList s).mapM String.toNat?
  pure xs.toArray

def KV.ints (kv : KV) (k : String) : Option (Array Int) := do
  let s ← kv.get? k
  let xs ← (splitList s).mapM String.toInt?
  pure xs.toArray

def KV.nat (kv : KV) (k : String) : Option Nat := do
  let s ← kv.get? k
  s.toNat?

def KV.int (kv : KV) (k : String) : Option Int := do
  let s ← kv.get? k
  s.toInt?

def KV.floats (kv : KV) (k : String) : Option (Array Float) := do
  let s ← kv.get? k
  let xs ← (splitList s).mapM parseFloat
  pure xs.toArray

def KV.float (kv : KV) (k : String) : Option Float := do
  let s ← kv.get? k
  parseFloat s

def KV.str (kv : KV) (k : String) : Option String := kv.get? k

def KV.bools (kv : KV) (k : String) : Option (Array Bool) := do
  let xs ← kv.nats k
  pure (xs.map (· != 0))

def fmtNats (xs : Array Nat) : String := ",".intercalate (xs.toList.map toString)
def fmtInts (xs : Array Int) : String := ",".intercalate (xs.toList.map toString)
def fmtFloats (xs : Array Float) : String := ",".intercalate (xs.toList.map fmtFloat)
def fmtBools (xs : Array Bool) : String := ",".intercalate (xs.toList.map (fun b => if b then "1" else "0"))
def fmtBool (b : Bool) : String := if b then "1" else "0"

def fmtErr : ModelErr → String
  | .panic s => "panic:" ++ s
  | .err k => "err:" ++ k

/-- Run a handler over stdin, one response line per request line. -/
partial def loop (h : IO.FS.Stream) (out : IO.FS.Stream) (handle : String → KV → String) : IO Unit := do
  let line ← h.getLine
  if line.isEmpty then return ()
  let (ch, kv) := parseLine line
  if ch == "" then
    out.putStrLn "empty"
  else
    out.putStrLn (handle ch kv)
  loop h out handle

def runMain (handle : String → KV → String) : IO Unit := do
  let stdin ← IO.getStdin
  let stdout ← IO.getStdout
  loop stdin stdout handle
  stdout.flush

end Driver
