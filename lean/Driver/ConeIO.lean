/-
  Cone lists on the wire (format documented at the top of `ClarabelModel/Collapse.lean`).
-/
import Driver.Common
import ClarabelModel.Collapse

namespace Driver
open Clarabel

def parseNatSuffix (cs : List Char) : Option Nat := (String.ofList cs).toNat?

def parseCone (tok : String) : Option (ConeT Float) :=
  match tok.toList with
  | ['e'] => some .exp
  | 'z' :: cs => (parseNatSuffix cs).map .zero
  | 'n' :: cs => (parseNatSuffix cs).map .nonneg
  | 'q' :: cs => (parseNatSuffix cs).map .soc
  | 's' :: cs => (parseNatSuffix cs).map .psd
  | 'p' :: ':' :: cs => (parseFloat (String.ofList cs)).map .pow
  | 'g' :: ':' :: cs =>
    match (String.ofList cs).splitOn ":" with
    | [as, d] => do
      let dim2 ← d.toNat?
      let αs ← (if as.isEmpty then [] else as.splitOn ";").mapM parseFloat
      pure (.genpow αs.toArray dim2)
    | _ => none
  | _ => none

def parseCones (s : String) : Option (List (ConeT Float)) :=
  (splitList s).mapM parseCone

def KV.cones (kv : KV) (k : String) : Option (List (ConeT Float)) := do
  let s ← kv.get? k
  parseCones s

def fmtCone : ConeT Float → String
  | .zero n => s!"z{n}"
  | .nonneg n => s!"n{n}"
  | .soc n => s!"q{n}"
  | .exp => "e"
  | .pow a => "p:" ++ fmtFloat a
  | .genpow αs d => "g:" ++ ";".intercalate (αs.toList.map fmtFloat) ++ s!":{d}"
  | .psd n => s!"s{n}"

/-- like `fmtM`, but the panic site is rendered without blanks (one token on the wire) -/
def fmtME {β : Type} (f : β → String) : MErr β → String
  | .ok v => f v
  | .error (.panic s) => "panic:" ++ s.map (fun c => if c == ' ' then '_' else c)
  | .error (.err k) => "err:" ++ k.map (fun c => if c == ' ' then '_' else c)

def fmtCones (cs : List (ConeT Float)) : String := ",".intercalate (cs.map fmtCone)

end Driver
