import Driver.CscIO
import ClarabelModel.Step
import ClarabelModel.KktSystem

open Clarabel Driver Clarabel.Step

/- the step-machinery channels shared with C05 (same handlers as `Driver/C05.lean`; the two
   executables each need their own root `main`, hence the copy) -/
namespace C06Step

def fmax64 : Float := 1.7976931348623157e308

def getCones (kv : KV) : Option (List ConeK) := do
  let ks ← kv.nats "ck"
  let ds ← kv.nats "cd"
  if ks.size ≠ ds.size then none
  pure ((ks.toList.zip ds.toList).map fun (k, d) => if k == 0 then ConeK.zero d else ConeK.nn d)

def getVars (kv : KV) (p : String) : Option (Vars Float) := do
  let x ← kv.floats (p ++ "x")
  let s ← kv.floats (p ++ "s")
  let z ← kv.floats (p ++ "z")
  let τ ← kv.float (p ++ "tau")
  let κ ← kv.float (p ++ "kappa")
  pure { x := x, s := s, z := z, τ := τ, κ := κ }

def fmtVars (p : String) (v : Vars Float) : String :=
  s!"{p}x={fmtFloats v.x} {p}s={fmtFloats v.s} {p}z={fmtFloats v.z} {p}tau={fmtFloat v.τ} {p}kappa={fmtFloat v.κ}"

def okSizes (cones : List ConeK) (vs : List (Array Float)) : Bool :=
  vs.all (fun v => v.size == numel cones)

def handle (ch : String) (kv : KV) : String :=
  match ch with
  | "step.calc_mu" =>
    match kv.float "dotsz", kv.float "tau", kv.float "kappa", kv.nat "deg" with
    | some d, some t, some k, some n => "mu=" ++ fmtFloat (calcMu d t k n)
    | _, _, _, _ => "bad-request"
  | "step.centering" =>
    match kv.float "a" with
    | some a => "sigma=" ++ fmtFloat (centeringParameter a)
    | none => "bad-request"
  | "step.add_step" =>
    match getVars kv "v", getVars kv "d", kv.float "a" with
    | some v, some d, some a =>
      if v.x.size != d.x.size || v.s.size != d.s.size || v.z.size != d.z.size then "bad-request"
      else fmtVars "" (addStep v d a)
    | _, _, _ => "bad-request"
  | "step.affine_rhs" =>
    match getCones kv, getVars kv "v", kv.floats "rx", kv.floats "rz", kv.float "rtau" with
    | some cones, some v, some rx, some rz, some rτ =>
      if !okSizes cones [v.s, v.z, rz] then "bad-request" else
      let mask := nnMask cones
      let (lam, _) := updateScaling mask v.s v.z
      fmtVars "" (affineStepRhs mask rx rz rτ lam v)
    | _, _, _, _, _ => "bad-request"
  | "step.combined_rhs" =>
    match getCones kv, getVars kv "v", getVars kv "d", kv.floats "rx", kv.floats "rz",
          kv.float "rtau", kv.float "sigma", kv.float "mu", kv.float "m" with
    | some cones, some v, some d, some rx, some rz, some rτ, some σ, some μ, some m =>
      if !okSizes cones [v.s, v.z, rz, d.s, d.z] || rx.size != v.x.size then "bad-request" else
      let mask := nnMask cones
      let (lam, w) := updateScaling mask v.s v.z
      let aff := affineStepRhs mask rx rz rτ lam v
      let (rhs, d') := combinedStepRhs mask w aff rx rz rτ v d σ μ m
      fmtVars "" rhs ++ " " ++ fmtVars "d" d'
    | _, _, _, _, _, _, _, _, _ => "bad-request"
  | "step.sym_init" =>
    match getCones kv, getVars kv "v" with
    | some cones, some v =>
      if !okSizes cones [v.s, v.z] then "bad-request" else
      fmtVars "" (symmetricInitialization fmax64 0.1 cones v)
    | _, _ => "bad-request"
  | "step.step_length" =>
    match getCones kv, getVars kv "v", getVars kv "d", kv.float "msf", kv.nat "combined" with
    | some cones, some v, some d, some msf, some c =>
      if !okSizes cones [v.s, v.z, d.s, d.z] then "bad-request" else
      "alpha=" ++ fmtFloat (calcStepLength cones v d fmax64 msf (c != 0))
    | _, _, _, _, _ => "bad-request"
  | "kkt.solve" =>
    match kv.csc "P", getCones kv, getVars kv "v", getVars kv "r", kv.floats "q", kv.floats "b",
          kv.nat "affine" with
    | some P, some cones, some v, some r, some q, some b, some aff =>
      match kv.floats "x1", kv.floats "z1", kv.floats "x2", kv.floats "z2" with
      | some x1, some z1, some x2, some z2 =>
        let n := v.x.size
        if !okSizes cones [v.s, v.z, r.s, r.z, b, z1, z2] || q.size != n || x1.size != n
            || x2.size != n || r.x.size != n then "bad-request" else
        let mask := nnMask cones
        let (_, w) := updateScaling mask v.s v.z
        match KktSystem.solveNN P mask w q b v r (aff != 0) x1 z1 x2 z2 with
        | .ok (lhs, wx, wz) =>
          fmtVars "" lhs ++ s!" workx={fmtFloats wx} workz={fmtFloats wz}"
        | .error e => fmtErr e
      | _, _, _, _ => "bad-request"
    | _, _, _, _, _, _, _ => "bad-request"
  | _ => "unknown-channel"

end C06Step

namespace C06Driver

/-- `traj.sigma_mu`: recompute μ per pass from the observed iterate, σ and the Mehrotra damping
from the observed affine step lengths (the j-th recorded α_aff belongs to iteration j+1) -/
def trajSigmaMu (kv : KV) : Option String := do
  let deg ← kv.nat "deg"
  let np ← kv.nat "np"
  let tau ← kv.floats "tau"
  let kappa ← kv.floats "kappa"
  let aaff ← kv.floats "aaff"
  if tau.size ≠ np ∨ kappa.size ≠ np then none
  let mut mus : Array Float := #[]
  for i in [0:np] do
    let s ← kv.floats s!"s{i}"
    let z ← kv.floats s!"z{i}"
    if s.size ≠ z.size then none
    let t ← tau[i]?
    let k ← kappa[i]?
    mus := mus.push (calcMu (Vec.dot s z) t k deg)
  let sig := aaff.map centeringParameter
  let ms := (aaff.toList.zipIdx.map fun (a, j) => mehrotraM (j + 1) a).toArray
  pure s!"mu={fmtFloats mus} sigma={fmtFloats sig} m={fmtFloats ms} same=1"

def handle (ch : String) (kv : KV) : String :=
  match ch with
  | "traj.sigma_mu" => (trajSigmaMu kv).getD "bad-request"
  | _ => C06Step.handle ch kv

end C06Driver

def main : IO Unit := runMain C06Driver.handle
