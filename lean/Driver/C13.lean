import Driver.Common
import ClarabelModel.Cones.Nonneg
import ClarabelModel.Cones.Soc

open Clarabel Driver

namespace DriverC13

def fmtM {β : Type} (f : β → String) : MErr β → String
  | .ok v => f v
  | .error e => String.ofList ((fmtErr e).toList.map (fun c => if c == ' ' then '_' else c))

def fv (k : String) (v : Array Float) : String := k ++ "=" ++ fmtFloats v

/-- NN cone after `update_scaling(s,z)` -/
def nnCone (kv : KV) : Option (MErr (Nonneg.Cone Float)) := do
  let s ← kv.floats "s"
  let z ← kv.floats "z"
  pure (Nonneg.updateScaling (Nonneg.new s.size) s z)

/-- SOC after `update_scaling(s,z)` (the flag is dropped; the state is what was left) -/
def socCone (kv : KV) : Option (MErr (Bool × Soc.Cone Float)) := do
  let s ← kv.floats "s"
  let z ← kv.floats "z"
  pure (do
    let K ← Soc.new s.size
    Soc.updateScaling K s z)

def fmtSoc (r : Bool × Soc.Cone Float) : String :=
  let K := r.2
  let (u, v, d) := match K.sparse with
    | some sp => (fmtFloats sp.u, fmtFloats sp.v, fmtFloat sp.d)
    | none => ("", "", "")
  s!"ok={fmtBool r.1} w={fmtFloats K.w} lam={fmtFloats K.lam} eta={fmtFloat K.eta} u={u} v={v} d={d}"

def handle (ch : String) (kv : KV) : String :=
  match ch with
  -- ------------------------------------------------------------ nonnegative cone
  | "nn.update_scaling" =>
    match nnCone kv with
    | none => "bad-request"
    | some K => fmtM (fun K => s!"ok=1 w={fmtFloats K.w} lam={fmtFloats K.lam}") K
  | "nn.get_hs" =>
    match nnCone kv, kv.nat "len" with
    | some K, some n => fmtM (fv "hs") (do let K ← K; Nonneg.getHs K n)
    | _, _ => "bad-request"
  | "nn.mul_hs" =>
    match nnCone kv, kv.floats "x" with
    | some K, some x => fmtM (fv "y") (do let K ← K; Nonneg.mulHs K x)
    | _, _ => "bad-request"
  | "nn.mul_w" =>
    match nnCone kv, kv.floats "x", kv.floats "y", kv.float "a", kv.float "b" with
    | some K, some x, some y, some a, some b => fmtM (fv "y") (do let K ← K; Nonneg.mulW K y x a b)
    | _, _, _, _, _ => "bad-request"
  | "nn.mul_winv" =>
    match nnCone kv, kv.floats "x", kv.floats "y", kv.float "a", kv.float "b" with
    | some K, some x, some y, some a, some b => fmtM (fv "y") (do let K ← K; Nonneg.mulWinv K y x a b)
    | _, _, _, _, _ => "bad-request"
  | "nn.circ_op" =>
    match kv.floats "y", kv.floats "z" with
    | some y, some z => fmtM (fv "x") (Nonneg.circOp y z)
    | _, _ => "bad-request"
  | "nn.inv_circ_op" =>
    match kv.floats "y", kv.floats "z" with
    | some y, some z => fmtM (fv "x") (Nonneg.invCircOp y z)
    | _, _ => "bad-request"
  | "nn.lam_inv_circ_op" =>
    match nnCone kv, kv.floats "x" with
    | some K, some x => fmtM (fv "x") (do let K ← K; Nonneg.lamInvCircOp K x)
    | _, _ => "bad-request"
  | "nn.affine_ds" =>
    match nnCone kv, kv.nat "len" with
    | some K, some n => fmtM (fv "ds") (do let K ← K; Nonneg.affineDs K n)
    | _, _ => "bad-request"
  | "nn.combined_ds_shift" =>
    match nnCone kv, kv.floats "dz", kv.floats "ds", kv.float "sigmamu" with
    | some K, some dz, some ds, some sm =>
      fmtM (fun (r : Array Float × Array Float × Array Float) =>
          s!"shift={fmtFloats r.1} stepz={fmtFloats r.2.1} steps={fmtFloats r.2.2}")
        (do let K ← K; Nonneg.combinedDsShift K dz ds sm)
    | _, _, _, _ => "bad-request"
  | "nn.ds_from_dz_offset" =>
    match kv.floats "ds", kv.floats "zz" with
    | some ds, some zz => fmtM (fv "out") (Nonneg.dsFromDzOffset ds zz)
    | _, _ => "bad-request"
  -- ------------------------------------------------------------ second-order cone
  | "soc.update_scaling" =>
    match socCone kv with
    | none => "bad-request"
    | some K => fmtM fmtSoc K
  | "soc.get_hs" =>
    match socCone kv with
    | some K => fmtM (fv "hs") (do let K ← K; Soc.getHs K.2)
    | _ => "bad-request"
  | "soc.mul_hs" =>
    match socCone kv, kv.floats "x" with
    | some K, some x => fmtM (fv "y") (do let K ← K; Soc.mulHs K.2 x)
    | _, _ => "bad-request"
  | "soc.mul_w" =>
    match socCone kv, kv.floats "x", kv.floats "y", kv.float "a", kv.float "b" with
    | some K, some x, some y, some a, some b => fmtM (fv "y") (do let K ← K; Soc.mulW K.2 y x a b)
    | _, _, _, _, _ => "bad-request"
  | "soc.mul_winv" =>
    match socCone kv, kv.floats "x", kv.floats "y", kv.float "a", kv.float "b" with
    | some K, some x, some y, some a, some b => fmtM (fv "y") (do let K ← K; Soc.mulWinv K.2 y x a b)
    | _, _, _, _, _ => "bad-request"
  | "soc.circ_op" =>
    match kv.floats "y", kv.floats "z" with
    | some y, some z => fmtM (fv "x") (Soc.circOp y z)
    | _, _ => "bad-request"
  | "soc.inv_circ_op" =>
    match kv.floats "y", kv.floats "z" with
    | some y, some z => fmtM (fv "x") (Soc.invCircOp y z)
    | _, _ => "bad-request"
  | "soc.lam_inv_circ_op" =>
    match socCone kv, kv.floats "x" with
    | some K, some x => fmtM (fv "x") (do let K ← K; Soc.lamInvCircOp K.2 x)
    | _, _ => "bad-request"
  | "soc.affine_ds" =>
    match socCone kv with
    | some K => fmtM (fv "ds") (do let K ← K; Soc.affineDs K.2)
    | _ => "bad-request"
  | "soc.combined_ds_shift" =>
    match socCone kv, kv.floats "dz", kv.floats "ds", kv.float "sigmamu" with
    | some K, some dz, some ds, some sm =>
      fmtM (fun (r : Array Float × Array Float × Array Float) =>
          s!"shift={fmtFloats r.1} stepz={fmtFloats r.2.1} steps={fmtFloats r.2.2}")
        (do let K ← K; Soc.combinedDsShift K.2 dz ds sm)
    | _, _, _, _ => "bad-request"
  | "soc.ds_from_dz_offset" =>
    match socCone kv, kv.floats "ds", kv.floats "zz" with
    | some K, some ds, some zz => fmtM (fv "out") (do let K ← K; Soc.dsFromDzOffset K.2 ds zz)
    | _, _, _ => "bad-request"
  | _ => "unknown-channel"

end DriverC13

def main : IO Unit := Driver.runMain DriverC13.handle
