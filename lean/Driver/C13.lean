import Driver.Common
import ClarabelModel.Cones.Nonneg
import ClarabelModel.Cones.Soc
import ClarabelModel.Cones.PsdTriangle

open Clarabel Driver

namespace DriverC13

def fmtM {β : Type} (f : β → String) : MErr β → String
  | .ok v => f v
  | .error e => String.ofList ((fmtErr e).toList.map (fun c => if c == ' ' then '_' else c))

def fv (k : String) (v : Array Float) : String := k ++ "=" ++ fmtFloats v

/-- NN cone after `update_scaling(s,z)` -/
def nnCone (kv : KV) : Option (MErr (Nonneg.Cone Float)) := do
  let s ← kv.floats "s"
  let z ← kv.floats "z"
  pure (Nonneg.updateScaling (Nonneg.new s.size) s z)

/-- SOC after `update_scaling(s,z)` (the flag is dropped; the state is what was left) -/
def socCone (kv : KV) : Option (MErr (Bool × Soc.Cone Float)) := do
  let s ← kv.floats "s"
  let z ← kv.floats "z"
  pure (do
    let K ← Soc.new s.size
    Soc.updateScaling K s z)

def fmtSoc (r : Bool × Soc.Cone Float) : String :=
  let K := r.2
  let (u, v, d) := match K.sparse with
    | some sp => (fmtFloats sp.u, fmtFloats sp.v, fmtFloat sp.d)
    | none => ("", "", "")
  s!"ok={fmtBool r.1} w={fmtFloats K.w} lam={fmtFloats K.lam} eta={fmtFloat K.eta} u={u} v={v} d={d}"

/-- PSD cone state as taken from the implementation after `update_scaling(s,z)`:
`n`, `lam`, `r`, `rinv` (column-major); `Λisqrt` and `Hs` are not read by these channels -/
def psdCone (kv : KV) : Option (PsdTri.Cone Float) := do
  let n ← kv.nat "n"
  let lam ← kv.floats "lam"
  let r ← kv.floats "r"
  let rinv ← kv.floats "rinv"
  pure ⟨n, lam, #[], r, rinv, #[]⟩

/-- the operations of a history request: `ops=u,i,…`; operation `k` of kind `u` reads
`s<k>`, `z<k>` -/
def parseOps (kv : KV) : Option (List (Nat × Bool)) := do
  let ops ← kv.str "ops"
  let toks := splitList ops
  let rec go (i : Nat) : List String → Option (List (Nat × Bool))
    | [] => some []
    | t :: ts => do
      let rest ← go (i + 1) ts
      if t == "u" then some ((i, true) :: rest)
      else if t == "i" then some ((i, false) :: rest) else none
  go 0 toks

def socOps (kv : KV) : Option (List (Soc.Op Float)) := do
  let ops ← parseOps kv
  ops.mapM (fun (p : Nat × Bool) =>
    if p.2 then do
      let s ← kv.floats s!"s{p.1}"
      let z ← kv.floats s!"z{p.1}"
      pure (Soc.Op.update s z)
    else pure Soc.Op.identity)

def nnOps (kv : KV) : Option (List (Nonneg.Op Float)) := do
  let ops ← parseOps kv
  ops.mapM (fun (p : Nat × Bool) =>
    if p.2 then do
      let s ← kv.floats s!"s{p.1}"
      let z ← kv.floats s!"z{p.1}"
      pure (Nonneg.Op.update s z)
    else pure Nonneg.Op.identity)

def fmtSocHistory (l : List (Soc.Snapshot Float)) : String :=
  let rec go (k : Nat) : List (Soc.Snapshot Float) → List String
    | [] => []
    | sn :: rest =>
      let (u, v, d) := match sn.sparse with
        | some sp => (fmtFloats sp.u, fmtFloats sp.v, fmtFloat sp.d)
        | none => ("", "", "")
      s!"ok{k}={fmtBool sn.ok} w{k}={fmtFloats sn.w} eta{k}={fmtFloat sn.eta} u{k}={u} v{k}={v} d{k}={d} hs{k}={fmtFloats sn.hs} y{k}={fmtFloats sn.y}"
        :: go (k + 1) rest
  " ".intercalate (go 0 l)

def fmtNnHistory (l : List (Array Float × Array Float × Array Float)) : String :=
  let rec go (k : Nat) : List (Array Float × Array Float × Array Float) → List String
    | [] => []
    | sn :: rest =>
      s!"w{k}={fmtFloats sn.1} hs{k}={fmtFloats sn.2.1} y{k}={fmtFloats sn.2.2}" :: go (k + 1) rest
  " ".intercalate (go 0 l)

def handle (ch : String) (kv : KV) : String :=
  match ch with
  -- ------------------------------------------------------------ nonnegative cone
  | "nn.update_scaling" =>
    match nnCone kv with
    | none => "bad-request"
    | some K => fmtM (fun K => s!"ok=1 w={fmtFloats K.w} lam={fmtFloats K.lam}") K
  | "nn.get_hs" =>
    match nnCone kv, kv.nat "len" with
    | some K, some n => fmtM (fv "hs") (do let K ← K; Nonneg.getHs K n)
    | _, _ => "bad-request"
  | "nn.mul_hs" =>
    match nnCone kv, kv.floats "x" with
    | some K, some x => fmtM (fv "y") (do let K ← K; Nonneg.mulHs K x)
    | _, _ => "bad-request"
  | "nn.mul_w" =>
    match nnCone kv, kv.floats "x", kv.floats "y", kv.float "a", kv.float "b" with
    | some K, some x, some y, some a, some b => fmtM (fv "y") (do let K ← K; Nonneg.mulW K y x a b)
    | _, _, _, _, _ => "bad-request"
  | "nn.mul_winv" =>
    match nnCone kv, kv.floats "x", kv.floats "y", kv.float "a", kv.float "b" with
    | some K, some x, some y, some a, some b => fmtM (fv "y") (do let K ← K; Nonneg.mulWinv K y x a b)
    | _, _, _, _, _ => "bad-request"
  | "nn.circ_op" =>
    match kv.floats "y", kv.floats "z" with
    | some y, some z => fmtM (fv "x") (Nonneg.circOp y z)
    | _, _ => "bad-request"
  | "nn.inv_circ_op" =>
    match kv.floats "y", kv.floats "z" with
    | some y, some z => fmtM (fv "x") (Nonneg.invCircOp y z)
    | _, _ => "bad-request"
  | "nn.lam_inv_circ_op" =>
    match nnCone kv, kv.floats "x" with
    | some K, some x => fmtM (fv "x") (do let K ← K; Nonneg.lamInvCircOp K x)
    | _, _ => "bad-request"
  | "nn.affine_ds" =>
    match nnCone kv, kv.nat "len" with
    | some K, some n => fmtM (fv "ds") (do let K ← K; Nonneg.affineDs K n)
    | _, _ => "bad-request"
  | "nn.combined_ds_shift" =>
    match nnCone kv, kv.floats "dz", kv.floats "ds", kv.float "sigmamu" with
    | some K, some dz, some ds, some sm =>
      fmtM (fun (r : Array Float × Array Float × Array Float) =>
          s!"shift={fmtFloats r.1} stepz={fmtFloats r.2.1} steps={fmtFloats r.2.2}")
        (do let K ← K; Nonneg.combinedDsShift K dz ds sm)
    | _, _, _, _ => "bad-request"
  | "nn.ds_from_dz_offset" =>
    match kv.floats "ds", kv.floats "zz" with
    | some ds, some zz => fmtM (fv "out") (Nonneg.dsFromDzOffset ds zz)
    | _, _ => "bad-request"
  -- ------------------------------------------------------------ second-order cone
  | "soc.update_scaling" =>
    match socCone kv with
    | none => "bad-request"
    | some K => fmtM fmtSoc K
  | "soc.get_hs" =>
    match socCone kv with
    | some K => fmtM (fv "hs") (do let K ← K; Soc.getHs K.2)
    | _ => "bad-request"
  | "soc.mul_hs" =>
    match socCone kv, kv.floats "x" with
    | some K, some x => fmtM (fv "y") (do let K ← K; Soc.mulHs K.2 x)
    | _, _ => "bad-request"
  | "soc.mul_w" =>
    match socCone kv, kv.floats "x", kv.floats "y", kv.float "a", kv.float "b" with
    | some K, some x, some y, some a, some b => fmtM (fv "y") (do let K ← K; Soc.mulW K.2 y x a b)
    | _, _, _, _, _ => "bad-request"
  | "soc.mul_winv" =>
    match socCone kv, kv.floats "x", kv.floats "y", kv.float "a", kv.float "b" with
    | some K, some x, some y, some a, some b => fmtM (fv "y") (do let K ← K; Soc.mulWinv K.2 y x a b)
    | _, _, _, _, _ => "bad-request"
  | "soc.circ_op" =>
    match kv.floats "y", kv.floats "z" with
    | some y, some z => fmtM (fv "x") (Soc.circOp y z)
    | _, _ => "bad-request"
  | "soc.inv_circ_op" =>
    match kv.floats "y", kv.floats "z" with
    | some y, some z => fmtM (fv "x") (Soc.invCircOp y z)
    | _, _ => "bad-request"
  | "soc.lam_inv_circ_op" =>
    match socCone kv, kv.floats "x" with
    | some K, some x => fmtM (fv "x") (do let K ← K; Soc.lamInvCircOp K.2 x)
    | _, _ => "bad-request"
  | "soc.affine_ds" =>
    match socCone kv with
    | some K => fmtM (fv "ds") (do let K ← K; Soc.affineDs K.2)
    | _ => "bad-request"
  | "soc.combined_ds_shift" =>
    match socCone kv, kv.floats "dz", kv.floats "ds", kv.float "sigmamu" with
    | some K, some dz, some ds, some sm =>
      fmtM (fun (r : Array Float × Array Float × Array Float) =>
          s!"shift={fmtFloats r.1} stepz={fmtFloats r.2.1} steps={fmtFloats r.2.2}")
        (do let K ← K; Soc.combinedDsShift K.2 dz ds sm)
    | _, _, _, _ => "bad-request"
  | "soc.ds_from_dz_offset" =>
    match socCone kv, kv.floats "ds", kv.floats "zz" with
    | some K, some ds, some zz => fmtM (fv "out") (do let K ← K; Soc.dsFromDzOffset K.2 ds zz)
    | _, _, _ => "bad-request"
  -- ------------------------------------------------------------ PSD cone (LAPACK results given)
  | "psd.svec_to_mat" =>
    match kv.nat "n", kv.floats "x" with
    | some n, some x =>
      if x.size != PsdIndex.triangularNumber n then "err:unmodelled-size"
      else fv "m" (PsdTri.colMajor n (PsdTri.svecToMat x))
    | _, _ => "bad-request"
  | "psd.mat_to_svec" =>
    match kv.nat "n", kv.floats "m" with
    | some n, some m =>
      if m.size != n * n then "err:unmodelled-size"
      else fv "x" (PsdTri.matToSvec n (PsdTri.matOf n m))
    | _, _ => "bad-request"
  | "psd.skron" =>
    match kv.nat "n", kv.floats "a" with
    | some n, some a =>
      if a.size != n * n then "err:unmodelled-size"
      else fv "hs" (PsdTri.skronPacked n (PsdTri.symView (PsdTri.matOf n a)))
    | _, _ => "bad-request"
  | "psd.update_scaling_tail" =>
    match kv.nat "n", kv.floats "l1", kv.floats "l2", kv.floats "u", kv.floats "vt", kv.floats "sig" with
    | some n, some l1, some l2, some u, some vt, some sig =>
      fmtM (fun (r : PsdTri.Cone Float × Array Float) =>
          s!"lam={fmtFloats r.1.lam} lamisqrt={fmtFloats r.1.lamIsqrt} r={fmtFloats r.1.R} rinv={fmtFloats r.1.Rinv} rrt={fmtFloats r.2} hs={fmtFloats r.1.Hs}")
        (PsdTri.assembleScaling n l1 l2 u vt sig)
    | _, _, _, _, _, _ => "bad-request"
  | "psd.update_scaling" =>
    -- the whole `update_scaling`: prior state and LAPACK results (flags `c1 c2 svd`; factors when
    -- all succeeded) from the request
    match kv.nat "n", kv.floats "s", kv.floats "z", kv.nat "c1", kv.nat "c2", kv.nat "svd" with
    | some n, some s, some z, some c1, some c2, some svd =>
      match kv.floats "lam0", kv.floats "lamisqrt0", kv.floats "r0", kv.floats "rinv0", kv.floats "hs0" with
      | some lam0, some li0, some r0, some ri0, some hs0 =>
        let K : PsdTri.Cone Float := ⟨n, lam0, li0, r0, ri0, hs0⟩
        let g (k : String) : Array Float := (kv.floats k).getD #[]
        let lap : PsdTri.LapackOut Float :=
          { chol1 := if c1 == 1 then some (g "l1") else none,
            chol2 := if c2 == 1 then some (g "l2") else none,
            svd := if svd == 1 then some (g "u", g "vt", g "sig") else none }
        fmtM (fun (r : Bool × PsdTri.Cone Float) =>
            s!"ok={fmtBool r.1} lam={fmtFloats r.2.lam} lamisqrt={fmtFloats r.2.lamIsqrt} r={fmtFloats r.2.R} rinv={fmtFloats r.2.Rinv} hs={fmtFloats r.2.Hs}")
          (PsdTri.updateScaling K s z lap)
      | _, _, _, _, _ => "bad-request"
    | _, _, _, _, _, _ => "bad-request"
  | "psd.get_hs" =>
    -- Hs from the implementation's own RRᵀ (bit-exact: `skron` + `pack_triu`)
    match kv.nat "n", kv.floats "rrt", kv.nat "len" with
    | some n, some a, some len =>
      if a.size != n * n then "err:unmodelled-size"
      else
        let K : PsdTri.Cone Float := ⟨n, #[], #[], #[], #[], PsdTri.skronPacked n (PsdTri.symView (PsdTri.matOf n a))⟩
        fmtM (fv "hs") (PsdTri.getHs K len)
    | _, _, _ => "bad-request"
  | "psd.set_identity" =>
    match kv.nat "n" with
    | some n =>
      let K : PsdTri.Cone Float := PsdTri.identityScaling n
      s!"r={fmtFloats K.R} rinv={fmtFloats K.Rinv} hs={fmtFloats K.Hs}"
    | _ => "bad-request"
  | "psd.mul_w" =>
    match psdCone kv, kv.floats "x", kv.floats "y", kv.float "a", kv.float "b", kv.nat "t" with
    | some K, some x, some y, some a, some b, some t => fmtM (fv "y") (PsdTri.mulW K (t != 0) y x a b)
    | _, _, _, _, _, _ => "bad-request"
  | "psd.mul_winv" =>
    match psdCone kv, kv.floats "x", kv.floats "y", kv.float "a", kv.float "b", kv.nat "t" with
    | some K, some x, some y, some a, some b, some t => fmtM (fv "y") (PsdTri.mulWinv K (t != 0) y x a b)
    | _, _, _, _, _, _ => "bad-request"
  | "psd.mul_hs" =>
    match psdCone kv, kv.floats "x" with
    | some K, some x => fmtM (fv "y") (PsdTri.mulHs K x)
    | _, _ => "bad-request"
  | "psd.circ_op" =>
    match kv.nat "n", kv.floats "y", kv.floats "z" with
    | some n, some y, some z => fmtM (fv "x") (PsdTri.circOp n y z)
    | _, _, _ => "bad-request"
  | "psd.lam_inv_circ_op" =>
    match psdCone kv, kv.floats "x" with
    | some K, some x => fmtM (fv "x") (PsdTri.lamInvCircOp K x)
    | _, _ => "bad-request"
  | "psd.affine_ds" =>
    match psdCone kv, kv.nat "len" with
    | some K, some len => fmtM (fv "ds") (PsdTri.affineDs K len)
    | _, _ => "bad-request"
  | "psd.combined_ds_shift" =>
    match psdCone kv, kv.floats "dz", kv.floats "ds", kv.float "sigmamu" with
    | some K, some dz, some ds, some sm =>
      fmtM (fun (r : Array Float × Array Float × Array Float) =>
          s!"shift={fmtFloats r.1} stepz={fmtFloats r.2.1} steps={fmtFloats r.2.2}")
        (PsdTri.combinedDsShift K dz ds sm)
    | _, _, _, _ => "bad-request"
  | "psd.ds_from_dz_offset" =>
    match psdCone kv, kv.floats "ds" with
    | some K, some ds => fmtM (fv "out") (PsdTri.dsFromDzOffset K ds)
    | _, _ => "bad-request"
  -- ------------------------------------------------------------ histories on one cone object
  | "soc.history" =>
    match kv.nat "dim", socOps kv, kv.floats "x" with
    | some dim, some ops, some x =>
      fmtM fmtSocHistory (do let K ← Soc.new dim; Soc.runHistory K x ops)
    | _, _, _ => "bad-request"
  | "nn.history" =>
    match kv.nat "dim", nnOps kv, kv.floats "x" with
    | some dim, some ops, some x =>
      fmtM fmtNnHistory (Nonneg.runHistory (Nonneg.new dim) x ops)
    | _, _, _ => "bad-request"
  | _ => "unknown-channel"

end DriverC13

def main : IO Unit := Driver.runMain DriverC13.handle
