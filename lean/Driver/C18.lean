import Driver.CscIO
import ClarabelModel.Chordal.AugStd
import ClarabelModel.Chordal.Reverse
import ClarabelModel.Chordal.AugCompact
import ClarabelModel.Chordal.AugCompactFull
import ClarabelModel.Chordal.PsdCompletion

open Clarabel Clarabel.Chordal Driver

namespace DriverC18

def splitByLens (flat : List Nat) : List Nat → Option (List (Array Nat))
  | [] => if flat.isEmpty then some [] else none
  | l :: ls =>
    if flat.length < l then none else do
      let rest ← splitByLens (flat.drop l) ls
      pure ((flat.take l).toArray :: rest)

def parseSets (kv : KV) (k : String) : Option (Array VSet) := do
  let lens ← kv.nats (k ++ "_len")
  let flat ← kv.nats k
  let l ← splitByLens flat.toList lens.toList
  pure l.toArray

def coneOf (kind dim : Nat) : Option Cone :=
  match kind with
  | 0 => some (.zero dim) | 1 => some (.nonneg dim) | 2 => some (.soc dim) | 3 => some .exp
  | 4 => some (.psd dim) | _ => none

def parseCones (kv : KV) (p : String) : Option (Array Cone) := do
  let k ← kv.nats (p ++ "ckind")
  let d ← kv.nats (p ++ "cdim")
  if k.size != d.size then none else
  let l ← (List.range k.size).mapM (fun i => coneOf (k.getD i 0) (d.getD i 0))
  pure l.toArray

def coneKind : Cone → Nat
  | .zero _ => 0 | .nonneg _ => 1 | .soc _ => 2 | .exp => 3 | .psd _ => 4
def coneDim : Cone → Nat
  | .zero n => n | .nonneg n => n | .soc n => n | .exp => 3 | .psd n => n

def fmtCones (p : String) (cs : Array Cone) : String :=
  s!"{p}ckind={fmtNats (cs.map coneKind)} {p}cdim={fmtNats (cs.map coneDim)}"

def parsePattern (kv : KV) (i : Nat) : Option SPattern := do
  let p := s!"p{i}_"
  let oi ← kv.nat (p ++ "oi")
  let ord ← kv.nats (p ++ "ord")
  let ncl ← kv.nat (p ++ "ncl")
  let snode ← parseSets kv (p ++ "snode")
  let sep ← parseSets kv (p ++ "sep")
  let par ← kv.nats (p ++ "par")
  let spost ← kv.nats (p ++ "spost")
  let nblk ← kv.nats (p ++ "nblk")
  pure { sntree := { snode := snode, snodePost := spost, snodeParent := par, snodeChildren := #[],
                     post := #[], separators := sep, nblk := some nblk, nCliques := ncl },
         ordering := ord, origIndex := oi }

def parseInfo (kv : KV) : Option ChordalInfo := do
  let n ← kv.nat "n"
  let m ← kv.nat "m"
  let cones ← parseCones kv ""
  let np ← kv.nat "np"
  let ps ← (List.range np).mapM (parsePattern kv)
  pure { initDims := (n, m), initCones := cones, spatterns := ps.toArray }

def fmtME {β : Type} (f : β → String) : MErr β → String
  | .ok v => f v
  | .error e => fmtErr e

def fmtCscP (p : String) (M : Csc Float) : String :=
  s!"{p}m={M.m} {p}n={M.n} {p}colptr={fmtNats M.colptr} {p}rowval={fmtNats M.rowval} {p}nzval={fmtFloats M.nzval}"

def parseConeMaps (kv : KV) : Option (Array ConeMapEntry) := do
  let oi ← kv.nats "cm_oi"
  let t ← kv.ints "cm_t"
  let c ← kv.ints "cm_c"
  if oi.size != t.size || oi.size != c.size then none else
  pure ((List.range oi.size).map (fun i =>
    let ti := t.getD i 0
    { origIndex := oi.getD i 0,
      treeAndClique := if ti < 0 then none else some (ti.toNat, (c.getD i 0).toNat) : ConeMapEntry })).toArray

def fmtConeMaps (cm : Array ConeMapEntry) : String :=
  let t : Array Int := cm.map (fun e => match e.treeAndClique with | none => (-1 : Int) | some x => Int.ofNat x.1)
  let c : Array Int := cm.map (fun e => match e.treeAndClique with | none => (-1 : Int) | some x => Int.ofNat x.2)
  s!"cm_oi={fmtNats (cm.map (·.origIndex))} cm_t={fmtInts t} cm_c={fmtInts c}"

/-- sorted, duplicate-free -/
def sortDedup (l : List Nat) : List Nat :=
  (l.mergeSort (fun a b => decide (a ≤ b))).eraseDups

/-- the external step of `psdComplete` (Cholesky / SVD solve and the GEMM product) replayed from
the output `Bout` of the implementation: the entry `(a, b)` of the product of pass `j` is the
value that the implementation left at `W[(η[a], ν[b])]`, i.e. at `Bout[(p[η[a]], p[ν[b]])]` -/
def extFromOutput (p : SPattern) (N : Nat) (Bout : Array Float) (j : Nat) (_W : Array Float) :
    MErr (Nat × Nat → Float) := do
  let ν ← p.sntree.getSnode j
  let α ← p.sntree.getSeparators j
  let i ← getE ν 0 "psd_complete: ν[0]"
  let η := etaOf i N α ν
  pure (fun ab =>
    Bout.getD (linIdx N (p.ordering.getD (η.getD ab.1 0) 0, p.ordering.getD (ν.getD ab.2 0) 0)) 0)

def handle (ch : String) (kv : KV) : String :=
  match ch with
  | "psd_complete.data" =>
    match parseInfo kv, kv.nat "d", kv.floats "W", kv.floats "Wout" with
    | some ci, some d, some W, some Wout =>
      match ci.spatterns[0]? with
      | none => "panic:spatterns[0]"
      | some p =>
        match psdComplete (extFromOutput p d Wout) W d p with
        | .ok B => s!"W={fmtFloats B}"
        | .error e => (fmtErr e).replace " " "_"
    | _, _, _, _ => "bad-request"
  | "psd_complete.written" =>
    match parseInfo kv, kv.nat "d" with
    | some ci, some d =>
      match ci.spatterns[0]? with
      | none => "panic:spatterns[0]"
      | some p =>
        match psdCompleteChanged p d with
        | .ok l => s!"chg={fmtNats (sortDedup l).toArray}"
        | .error e => (fmtErr e).replace " " "_"   -- one token, as on the implementation side
    | _, _ => "bad-request"
  | "std.H" =>
    match parseInfo kv with
    | some ci => fmtME (fun (h : ChordalInfo.StdH) =>
        s!"rows={h.rows} lenH={h.lenH} HI={fmtNats h.HI} {fmtCones "" h.conesNew}") ci.findStandardHAndCones
    | none => "bad-request"
  | "std.augment" =>
    match parseInfo kv, kv.csc "P", kv.floats "q", kv.csc "A", kv.floats "b" with
    | some ci, some P, some q, some A, some b =>
      fmtME (fun (r : Csc Float × Array Float × Csc Float × Array Float × Array Cone × ChordalInfo.StdH) =>
        s!"{fmtCscP "P" r.1} q={fmtFloats r.2.1} {fmtCscP "A" r.2.2.1} b={fmtFloats r.2.2.2.1} {fmtCones "" r.2.2.2.2.1}")
        (ci.decompAugmentStandard P q A b)
    | _, _, _, _, _ => "bad-request"
  | "std.reverse" =>
    match parseInfo kv, kv.floats "s", kv.floats "z" with
    | some ci, some s, some z =>
      fmtME (fun (r : Array Float × Array Float) => s!"s={fmtFloats r.1} z={fmtFloats r.2} nx={ci.initDims.1}")
        (do let h ← ci.findStandardHAndCones
            decompReverseStandard h ci.initDims.2 s z)
    | _, _, _ => "bad-request"
  | "compact.Ab" =>
    match parseInfo kv, kv.csc "A", kv.floats "b" with
    | some ci, some A, some b =>
      fmtME (fun (r : Csc Float × Array Float × Array Cone × Array ConeMapEntry) =>
        s!"{fmtCscP "A" r.1} b={fmtFloats r.2.1} {fmtCones "" r.2.2.1} {fmtConeMaps r.2.2.2}")
        (findCompactAbAndCones ci A b)
    | _, _, _ => "bad-request"
  | "compact.augment" =>
    match parseInfo kv, kv.csc "P", kv.floats "q", kv.csc "A", kv.floats "b" with
    | some ci, some P, some q, some A, some b =>
      fmtME (fun (r : Csc Float × Array Float × Csc Float × Array Float × Array Cone × Array ConeMapEntry) =>
        s!"{fmtCscP "P" r.1} q={fmtFloats r.2.1} {fmtCscP "A" r.2.2.1} b={fmtFloats r.2.2.2.1} {fmtCones "" r.2.2.2.2.1} {fmtConeMaps r.2.2.2.2.2}")
        (decompAugmentCompact ci P q A b)
    | _, _, _, _, _ => "bad-request"
  | "compact.reverse" =>
    match parseInfo kv, parseConeMaps kv, parseCones kv "o", kv.floats "s", kv.floats "z" with
    | some ci, some cm, some oc, some s, some z =>
      fmtME (fun (r : Array Float × Array Float) => s!"s={fmtFloats r.1} z={fmtFloats r.2} nx={ci.initDims.1}")
        (decompReverseCompact ci cm oc s z)
    | _, _, _, _, _ => "bad-request"
  | _ => "unknown-channel"

end DriverC18

def main : IO Unit := runMain DriverC18.handle
