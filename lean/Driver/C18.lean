import Driver.CscIO
import ClarabelModel.Chordal.AugStd
import ClarabelModel.Chordal.Reverse
import ClarabelModel.Chordal.AugCompact
import ClarabelModel.Chordal.AugCompactFull
import ClarabelModel.Chordal.PsdCompletion
import ClarabelModel.Chordal.InfoAccessors

open Clarabel Clarabel.Chordal Driver

namespace DriverC18

def splitByLens (flat : List Nat) : List Nat → Option (List (Array Nat))
  | [] => if flat.isEmpty then some [] else none
  | l :: ls =>
    if flat.length < l then none else do
      let rest ← splitByLens (flat.drop l) ls
      pure ((flat.take l).toArray :: rest)

def parseSets (kv : KV) (k : String) : Option (Array VSet) := do
  let lens ← kv.nats (k ++ "_len")
  let flat ← kv.nats k
  let l ← splitByLens flat.toList lens.toList
  pure l.toArray

def coneOf (kind dim : Nat) : Option Cone :=
  match kind with
  | 0 => some (.zero dim) | 1 => some (.nonneg dim) | 2 => some (.soc dim) | 3 => some .exp
  | 4 => some (.psd dim) | _ => none

def parseCones (kv : KV) (p : String) : Option (Array Cone) := do
  let k ← kv.nats (p ++ "ckind")
  let d ← kv.nats (p ++ "cdim")
  if k.size != d.size then none else
  let l ← (List.range k.size).mapM (fun i => coneOf (k.getD i 0) (d.getD i 0))
  pure l.toArray

def coneKind : Cone → Nat
  | .zero _ => 0 | .nonneg _ => 1 | .soc _ => 2 | .exp => 3 | .psd _ => 4
def coneDim : Cone → Nat
  | .zero n => n | .nonneg n => n | .soc n => n | .exp => 3 | .psd n => n

def fmtCones (p : String) (cs : Array Cone) : String :=
  s!"{p}ckind={fmtNats (cs.map coneKind)} {p}cdim={fmtNats (cs.map coneDim)}"

def parsePattern (kv : KV) (i : Nat) : Option SPattern := do
  let p := s!"p{i}_"
  let oi ← kv.nat (p ++ "oi")
  let ord ← kv.nats (p ++ "ord")
  let ncl ← kv.nat (p ++ "ncl")
  let snode ← parseSets kv (p ++ "snode")
  let sep ← parseSets kv (p ++ "sep")
  let par ← kv.nats (p ++ "par")
  let spost ← kv.nats (p ++ "spost")
  let nblk ← kv.nats (p ++ "nblk")
  let nblk? := if (kv.nat (p ++ "nonblk")).isSome then none else some nblk
  pure { sntree := { snode := snode, snodePost := spost, snodeParent := par, snodeChildren := #[],
                     post := #[], separators := sep, nblk := nblk?, nCliques := ncl },
         ordering := ord, origIndex := oi }

def parseInfo (kv : KV) : Option ChordalInfo := do
  let n ← kv.nat "n"
  let m ← kv.nat "m"
  let cones ← parseCones kv ""
  let np ← kv.nat "np"
  let ps ← (List.range np).mapM (parsePattern kv)
  pure { initDims := (n, m), initCones := cones, spatterns := ps.toArray }

def fmtME {β : Type} (f : β → String) : MErr β → String
  | .ok v => f v
  | .error e => fmtErr e

def fmtCscP (p : String) (M : Csc Float) : String :=
  s!"{p}m={M.m} {p}n={M.n} {p}colptr={fmtNats M.colptr} {p}rowval={fmtNats M.rowval} {p}nzval={fmtFloats M.nzval}"

def parseConeMaps (kv : KV) : Option (Array ConeMapEntry) := do
  let oi ← kv.nats "cm_oi"
  let t ← kv.ints "cm_t"
  let c ← kv.ints "cm_c"
  if oi.size != t.size || oi.size != c.size then none else
  pure ((List.range oi.size).map (fun i =>
    let ti := t.getD i 0
    { origIndex := oi.getD i 0,
      treeAndClique := if ti < 0 then none else some (ti.toNat, (c.getD i 0).toNat) : ConeMapEntry })).toArray

def fmtConeMaps (cm : Array ConeMapEntry) : String :=
  let t : Array Int := cm.map (fun e => match e.treeAndClique with | none => (-1 : Int) | some x => Int.ofNat x.1)
  let c : Array Int := cm.map (fun e => match e.treeAndClique with | none => (-1 : Int) | some x => Int.ofNat x.2)
  s!"cm_oi={fmtNats (cm.map (·.origIndex))} cm_t={fmtInts t} cm_c={fmtInts c}"

/-- sorted, duplicate-free -/
def sortDedup (l : List Nat) : List Nat :=
  (l.mergeSort (fun a b => decide (a ≤ b))).eraseDups

/-- the external step of `psdComplete` (Cholesky / SVD solve and the GEMM product) replayed from
the output `Bout` of the implementation: the entry `(a, b)` of the product of pass `j` is the
value that the implementation left at `W[(η[a], ν[b])]`, i.e. at `Bout[(p[η[a]], p[ν[b]])]` -/
def extFromOutput (p : SPattern) (N : Nat) (Bout : Array Float) (j : Nat) (_W : Array Float) :
    MErr (Nat × Nat → Float) := do
  let ν ← p.sntree.getSnode j
  let α ← p.sntree.getSeparators j
  let i ← getE ν 0 "psd_complete: ν[0]"
  let η := etaOf i N α ν
  pure (fun ab =>
    Bout.getD (linIdx N (p.ordering.getD (η.getD ab.1 0) 0, p.ordering.getD (ν.getD ab.2 0) 0)) 0)


/-- one token for a model error (the implementation side prints `panic:<message-without-spaces>`) -/
def fmtME1 {β : Type} (f : β → String) : MErr β → String
  | .ok v => f v
  | .error e => (fmtErr e).replace " " "_"

/-- value of one field of a multi-field response: a panic is the bare token `panic` -/
def fmtMEp {β : Type} (f : β → String) : MErr β → String
  | .ok v => f v
  | .error (.panic _) => "panic"
  | .error (.err k) => "err:" ++ k

def fmtOptRange : Option (Nat × Nat) → String
  | some (s, e) => s!"{s},{e}"
  | none => "none"

def fmtPattern (i : Nat) (p : SPattern) : String :=
  let pre := s!"p{i}_"
  let t := p.sntree
  let sets := fun (k : String) (ss : Array VSet) =>
    s!"{pre}{k}_len={fmtNats (ss.map (·.size))} {pre}{k}={fmtNats (ss.toList.flatMap (·.toList)).toArray}"
  s!"{pre}oi={p.origIndex} {pre}ord={fmtNats p.ordering} {pre}ncl={t.nCliques} {sets "snode" t.snode} {sets "sep" t.separators} {pre}par={fmtNats t.snodeParent} {pre}spost={fmtNats t.snodePost} {pre}nblk={fmtNats (t.nblk.getD #[])}"

def fmtPatterns (ps : Array SPattern) : String :=
  " ".intercalate (s!"np={ps.size}" :: (List.range ps.size).map (fun i => fmtPattern i (ps.getD i default)))

/-- the table of `find_graph` results that the harness computed with the implementation (mask ↦
symbolic factor and ordering); a mask that is not in the table is an error of its own kind -/
def parseGraphTable (kv : KV) : Option (List (Array Bool × LPat × Array Nat)) := do
  let ng ← kv.nat "ng"
  (List.range ng).mapM (fun i => do
    let pre := s!"g{i}_"
    let mask ← kv.bools (pre ++ "mask")
    let n ← kv.nat (pre ++ "n")
    let colptr ← kv.nats (pre ++ "colptr")
    let rowval ← kv.nats (pre ++ "rowval")
    let ord ← kv.nats (pre ++ "ord")
    pure (mask, ({ n := n, colptr := colptr, rowval := rowval } : LPat), ord))

def findGraphFrom (tab : List (Array Bool × LPat × Array Nat)) (mask : Array Bool) : MErr (LPat × Array Nat) :=
  match tab.find? (fun e => e.1 == mask) with
  | some e => pure e.2
  | none => throw (.err "find_graph:mask-not-in-table")

def handle2 (ch : String) (kv : KV) : Option String :=
  match ch with
  | "info.counts" => some <|
    match parseInfo kv with
    | some ci =>
      let A : Csc Float := { m := ci.initDims.2, n := ci.initDims.1, colptr := Array.replicate (ci.initDims.1 + 1) 0,
                             rowval := #[], nzval := #[] }
      let n1 := fun (k : String) (r : MErr Nat) => s!"{k}={fmtMEp toString r}"
      " ".intercalate
        [ s!"dec={if ci.isDecomposed then 1 else 0}", s!"ic={ci.initConeCount}", s!"ipc={ci.initPsdConeCount}",
          s!"dcc={ci.decomposableConeCount}", n1 "fpa" ci.finalPsdConesAdded, n1 "ppa" ci.premergePsdConesAdded,
          n1 "fcc" ci.finalConeCount, n1 "fpc" ci.finalPsdConeCount, n1 "ppc" ci.premergePsdConeCount,
          n1 "lnb" ci.largestNblk, n1 "hcols" ci.findHColDimension,
          "adim=" ++ fmtMEp (fun (r : Nat × Nat × Nat) => s!"{r.1},{r.2.1},{r.2.2}") (ci.findADimension A),
          "hdr=" ++ fmtMEp (fun (c : Print.ChordalCounts) => s!"{c.initPsd},{c.decomposable},{c.premerge},{c.final}")
            ci.headerCounts ]
    | none => "bad-request"
  | "mask" => some <|
    match kv.csc "A", kv.floats "b" with
    | some A, some b => fmtME1 (fun (m : Array Bool) => s!"mask={fmtBools m}") (findAggregateSparsityMask A b)
    | _, _ => "bad-request"
  | "info.new" => some <|
    match kv.csc "A", kv.floats "b", parseCones kv "", kv.str "merge", parseGraphTable kv with
    | some A, some b, some cones, some merge, some tab =>
      fmtME1 (fun (ci : ChordalInfo) =>
        s!"dec={if ci.isDecomposed then 1 else 0} n={ci.initDims.1} m={ci.initDims.2} {fmtCones "" ci.initCones} {fmtPatterns ci.spatterns}")
        (ChordalInfo.new (findGraphFrom tab) A b cones merge)
    | _, _, _, _, _ => "bad-request"
  | "helper.altseq" => some <|
    match kv.nat "total", kv.nat "nstart" with
    | some t, some ns => s!"v={fmtFloats (alternatingSequence (α := Float) t ns)}"
    | _, _ => "bad-request"
  | "helper.extracols" => some <|
    match kv.nat "total", kv.nat "nstart", kv.nat "startval" with
    | some t, some ns, some sv => fmtME1 (fun (v : Array Nat) => s!"v={fmtNats v}") (extraColumns t ns sv)
    | _, _, _ => "bad-request"
  | "helper.rows" => some <|
    match kv.csc "A", kv.floats "b", kv.nat "col", kv.nat "rs", kv.nat "re" with
    | some A, some b, some col, some rs, some re =>
      let bInd := ((List.range b.size).filter (fun i => !(b.getD i 0 == 0))).toArray
      s!"mat={fmtMEp fmtOptRange (getRowsMat A col rs re)} vec={fmtOptRange (getRowsVec bInd rs re)}"
    | _, _, _, _, _ => "bad-request"
  | "helper.clique" => some <|
    match parseInfo kv, kv.nat "i" with
    | some ci, some i =>
      match ci.spatterns[0]? with
      | none => "panic:spatterns[0]"
      | some p => fmtME1 (fun (c : VSet) => s!"clique={fmtNats c}") (getCliqueByIndex p.sntree i)
    | _, _ => "bad-request"
  | "helper.dcone" => some <|
    match kv.nats "HI", parseCones kv "", parseCones kv "x", kv.nat "row" with
    | some HI, some cones, some xc, some row =>
      match xc[0]? with
      | none => "bad-request"
      | some cone =>
        let r := ChordalInfo.decomposeWithCone HI cones cone row
        s!"HI={fmtNats r.1} {fmtCones "" r.2}"
    | _, _, _, _ => "bad-request"
  | "helper.addcone" => some <|
    match kv.floats "ns", kv.floats "os", kv.floats "nz", kv.floats "oz", kv.nat "rs", kv.nat "re",
      parseCones kv "x", kv.nat "rp" with
    | some ns, some os, some nz, some oz, some rs, some re, some xc, some rp =>
      match xc[0]? with
      | none => "bad-request"
      | some cone =>
        fmtME1 (fun (r : Array Float × Array Float × Nat) => s!"s={fmtFloats r.1} z={fmtFloats r.2.1} rp={r.2.2}")
          (addBlocksWithCone ns os nz oz rs re cone rp)
    | _, _, _, _, _, _, _, _ => "bad-request"
  | "helper.noverlaps" => some <|
    match kv.csc "A" with
    | some A => fmtME1 (fun (r : Array Nat × Array Float) => s!"ri={fmtNats r.1} nov={fmtFloats r.2}")
        (numberOfOverlapsInRows A)
    | none => "bad-request"
  | _ => none

def handle (ch : String) (kv : KV) : String :=
  match handle2 ch kv with
  | some r => r
  | none =>
  match ch with
  | "psd_complete.data" =>
    match parseInfo kv, kv.nat "d", kv.floats "W", kv.floats "Wout" with
    | some ci, some d, some W, some Wout =>
      match ci.spatterns[0]? with
      | none => "panic:spatterns[0]"
      | some p =>
        match psdComplete (extFromOutput p d Wout) W d p with
        | .ok B => s!"W={fmtFloats B}"
        | .error e => (fmtErr e).replace " " "_"
    | _, _, _, _ => "bad-request"
  | "psd_complete.written" =>
    match parseInfo kv, kv.nat "d" with
    | some ci, some d =>
      match ci.spatterns[0]? with
      | none => "panic:spatterns[0]"
      | some p =>
        match psdCompleteChanged p d with
        | .ok l => s!"chg={fmtNats (sortDedup l).toArray}"
        | .error e => (fmtErr e).replace " " "_"   -- one token, as on the implementation side
    | _, _ => "bad-request"
  | "std.H" =>
    match parseInfo kv with
    | some ci => fmtME (fun (h : ChordalInfo.StdH) =>
        s!"rows={h.rows} lenH={h.lenH} HI={fmtNats h.HI} {fmtCones "" h.conesNew}") ci.findStandardHAndCones
    | none => "bad-request"
  | "std.augment" =>
    match parseInfo kv, kv.csc "P", kv.floats "q", kv.csc "A", kv.floats "b" with
    | some ci, some P, some q, some A, some b =>
      fmtME (fun (r : Csc Float × Array Float × Csc Float × Array Float × Array Cone × ChordalInfo.StdH) =>
        s!"{fmtCscP "P" r.1} q={fmtFloats r.2.1} {fmtCscP "A" r.2.2.1} b={fmtFloats r.2.2.2.1} {fmtCones "" r.2.2.2.2.1}")
        (ci.decompAugmentStandard P q A b)
    | _, _, _, _, _ => "bad-request"
  | "std.reverse" =>
    match parseInfo kv, kv.floats "s", kv.floats "z" with
    | some ci, some s, some z =>
      fmtME (fun (r : Array Float × Array Float) => s!"s={fmtFloats r.1} z={fmtFloats r.2} nx={ci.initDims.1}")
        (do let h ← ci.findStandardHAndCones
            decompReverseStandard h ci.initDims.2 s z)
    | _, _, _ => "bad-request"
  | "compact.Ab" =>
    match parseInfo kv, kv.csc "A", kv.floats "b" with
    | some ci, some A, some b =>
      fmtME (fun (r : Csc Float × Array Float × Array Cone × Array ConeMapEntry) =>
        s!"{fmtCscP "A" r.1} b={fmtFloats r.2.1} {fmtCones "" r.2.2.1} {fmtConeMaps r.2.2.2}")
        (findCompactAbAndCones ci A b)
    | _, _, _ => "bad-request"
  | "compact.augment" =>
    match parseInfo kv, kv.csc "P", kv.floats "q", kv.csc "A", kv.floats "b" with
    | some ci, some P, some q, some A, some b =>
      fmtME (fun (r : Csc Float × Array Float × Csc Float × Array Float × Array Cone × Array ConeMapEntry) =>
        s!"{fmtCscP "P" r.1} q={fmtFloats r.2.1} {fmtCscP "A" r.2.2.1} b={fmtFloats r.2.2.2.1} {fmtCones "" r.2.2.2.2.1} {fmtConeMaps r.2.2.2.2.2}")
        (decompAugmentCompact ci P q A b)
    | _, _, _, _, _ => "bad-request"
  | "compact.reverse" =>
    match parseInfo kv, parseConeMaps kv, parseCones kv "o", kv.floats "s", kv.floats "z" with
    | some ci, some cm, some oc, some s, some z =>
      fmtME (fun (r : Array Float × Array Float) => s!"s={fmtFloats r.1} z={fmtFloats r.2} nx={ci.initDims.1}")
        (decompReverseCompactFull ci cm oc s z)
    | _, _, _, _, _ => "bad-request"
  | _ => "unknown-channel"

end DriverC18

def main : IO Unit := runMain DriverC18.handle
