import Driver.CscIO
import Driver.ConeIO
import ClarabelModel.Json
import ClarabelModel.JsonLoad
import ClarabelModel.JsonCones

open Clarabel Driver Clarabel.Update Clarabel.Json Clarabel.JsonLoad
open Clarabel.JsonCones (JVal encodeCones decodeCones)

namespace C19Driver

def f64Max : Float := Float.ofBits 0x7fefffffffffffff
def f64Inf : Float := Float.ofBits 0x7ff0000000000000

def toTL (x : Float) : TimeLimit Float :=
  if x == f64Inf then .infinity else if x == f64Max then .maxValue else .other x

def ofTL : TimeLimit Float → Float
  | .infinity => f64Inf
  | .maxValue => f64Max
  | .other v => v

/-- serde_json writes non-finite numbers as `null` (text layer, not modelled further) -/
def fmtJsonFloats (xs : Array Float) : String :=
  ",".intercalate (xs.toList.map (fun x => if x.isFinite then fmtFloat x else "null"))

/-- the harness is built with `faer-sparse` and `sdp` -/
def features : Features := { faer := true, sdp := true }

/-- the settings fields a record carries, with key prefix `p` -/
def recSettings (kv : KV) (p : String) : Option (LSettings Float Unit) := do
  let dsm ← kv.str (p ++ "dsm")
  let mm ← kv.str (p ++ "mm")
  let tl ← kv.float (p ++ "tl")
  let pre ← kv.nat (p ++ "pre")
  let chord ← kv.nat (p ++ "chord")
  pure { timeLimit := toTL tl,
         rest := { directSolveMethod := dsm, mergeMethod := mm, presolveEnable := pre != 0,
                   chordalEnable := chord != 0, other := () } }

/-- `DefaultSettings::default()` (what `#[serde(default)] settings` gives a record without
the key) -/
def defaultSettings : LSettings Float Unit :=
  { timeLimit := .infinity,
    rest := { directSolveMethod := "auto", mergeMethod := "clique_graph", presolveEnable := true,
              chordalEnable := true, other := () } }

def fmtCscP (p : String) (M : Csc Float) : String :=
  s!"{p}m={M.m} {p}n={M.n} {p}colptr={fmtNats M.colptr} {p}rowval={fmtNats M.rowval} {p}nzval={fmtFloats M.nzval}"

def handleLoad (kv : KV) : String :=
  match kv.csc "P", kv.csc "A", kv.floats "q", kv.floats "b", kv.cones "cones", kv.nat "hasset", kv.nat "arg" with
  | some P, some A, some q, some b, some cones, some hasset, some arg =>
    let fileSettings? := if hasset != 0 then recSettings kv "" else some defaultSettings
    let argSettings? : Option (Option (LSettings Float Unit)) :=
      if arg != 0 then (recSettings kv "a").map some else some none
    match fileSettings?, argSettings? with
    | some fs, some argS =>
      let rec_ : Record Float Unit := { P, q, A, b, cones, settings := fs }
      match loadRecord features rec_ argS with
      | .error e => e.toString
      | .ok inp =>
        match buildFromInput inp (1e20 : Float) with
        | .error (.panic s) => "panic:" ++ s.map (fun c => if c == ' ' then '_' else c)
        | .error (.err k) => "err:" ++ k
        | .ok d =>
          let st := inp.settings
          let head := s!"ok=1 n={d.n} m={d.m} tl={fmtFloat (ofTL st.timeLimit)} dsm={st.rest.directSolveMethod} mm={st.rest.mergeMethod} pre={fmtBool st.rest.presolveEnable} chord={fmtBool st.rest.chordalEnable} cones={fmtCones d.cones}"
          -- the internal data is compared when the solver was built without equilibration
          if hasset != 0 || arg != 0 then
            s!"{head} {fmtCscP "P" d.P} q={fmtFloats d.q} {fmtCscP "A" d.A} b={fmtFloats d.b}"
          else head
    | _, _ => "bad-request"
  | _, _, _, _, _, _, _ => "bad-request"

/-! ### a tiny JSON reader / writer for the cone channels (strings without escapes) -/

def isWs (c : Char) : Bool := c == ' ' || c == '\n' || c == '\t' || c == '\r'

def skipWs (cs : List Char) : List Char := cs.dropWhile isWs

def isNumChar (c : Char) : Bool :=
  c.isDigit || c == '-' || c == '+' || c == '.' || c == 'e' || c == 'E'

/-- the characters of a string up to the closing quote (no escape sequences) -/
def parseStr : List Char → List Char → Option (String × List Char)
  | [], _ => none
  | '"' :: r, acc => some (String.ofList acc.reverse, r)
  | '\\' :: _, _ => none
  | c :: r, acc => parseStr r (c :: acc)

mutual
partial def parseVal (cs : List Char) : Option (JVal × List Char) :=
  match skipWs cs with
  | '{' :: rest =>
    match skipWs rest with
    | '}' :: r => some (.obj [], r)
    | r => (parseMembers r []).map (fun (kvs, r') => (.obj kvs, r'))
  | '[' :: rest =>
    match skipWs rest with
    | ']' :: r => some (.arr [], r)
    | r => (parseElems r []).map (fun (xs, r') => (.arr xs, r'))
  | '"' :: rest => (parseStr rest []).map (fun (s, r) => (.str s, r))
  | 't' :: 'r' :: 'u' :: 'e' :: r => some (.bool true, r)
  | 'f' :: 'a' :: 'l' :: 's' :: 'e' :: r => some (.bool false, r)
  | 'n' :: 'u' :: 'l' :: 'l' :: r => some (.null, r)
  | c :: rest =>
    if isNumChar c then
      some (.num (String.ofList ((c :: rest).takeWhile isNumChar)), (c :: rest).dropWhile isNumChar)
    else none
  | [] => none

partial def parseElems (cs : List Char) (acc : List JVal) : Option (List JVal × List Char) :=
  match parseVal cs with
  | none => none
  | some (v, r) =>
    match skipWs r with
    | ',' :: r' => parseElems r' (v :: acc)
    | ']' :: r' => some ((v :: acc).reverse, r')
    | _ => none

partial def parseMembers (cs : List Char) (acc : List (String × JVal)) :
    Option (List (String × JVal) × List Char) :=
  match skipWs cs with
  | '"' :: r =>
    match parseStr r [] with
    | some (k, r1) =>
      match skipWs r1 with
      | ':' :: r2 =>
        match parseVal r2 with
        | some (v, r3) =>
          match skipWs r3 with
          | ',' :: r4 => parseMembers r4 ((k, v) :: acc)
          | '}' :: r4 => some (((k, v) :: acc).reverse, r4)
          | _ => none
        | none => none
      | _ => none
    | none => none
  | _ => none
end

def parseJson (s : String) : Option JVal :=
  match parseVal s.toList with
  | some (v, r) => if (skipWs r).isEmpty then some v else none
  | none => none

/-- compact text, as `serde_json::to_string` writes it -/
partial def render : JVal → String
  | .null => "null"
  | .bool b => if b then "true" else "false"
  | .num t => t
  | .str s => "\"" ++ s ++ "\""
  | .arr xs => "[" ++ ",".intercalate (xs.map render) ++ "]"
  | .obj kvs => "{" ++ ",".intercalate (kvs.map (fun (k, v) => "\"" ++ k ++ "\":" ++ render v)) ++ "}"

/-- cone wire format with the float payloads as their JSON tokens (`p:0.4`, `g:0.3;0.7:2`) -/
def fmtConeTok : ConeT String → String
  | .zero n => s!"z{n}"
  | .nonneg n => s!"n{n}"
  | .soc n => s!"q{n}"
  | .exp => "e"
  | .pow a => "p:" ++ a
  | .genpow αs d => "g:" ++ ";".intercalate αs.toList ++ s!":{d}"
  | .psd n => s!"s{n}"

def parseConeTok (tok : String) : Option (ConeT String) :=
  match tok.toList with
  | ['e'] => some .exp
  | 'z' :: cs => (parseNatSuffix cs).map .zero
  | 'n' :: cs => (parseNatSuffix cs).map .nonneg
  | 'q' :: cs => (parseNatSuffix cs).map .soc
  | 's' :: cs => (parseNatSuffix cs).map .psd
  | 'p' :: ':' :: cs => some (.pow (String.ofList cs))
  | 'g' :: ':' :: cs =>
    match (String.ofList cs).splitOn ":" with
    | [as, d] => do
      let dim2 ← d.toNat?
      pure (.genpow (if as.isEmpty then [] else as.splitOn ";").toArray dim2)
    | _ => none
  | _ => none

def handleConeDec (kv : KV) : String :=
  match kv.str "text" with
  | some text =>
    match parseJson text with
    | some v =>
      match decodeCones (fun t => some t) true v with
      | some cs => "cones=" ++ ",".intercalate (cs.map fmtConeTok)
      | none => "err"
    | none => "err"
  | none => "bad-request"

def handleConeEnc (kv : KV) : String :=
  match kv.str "cones" with
  | some w =>
    match (splitList w).mapM parseConeTok with
    | some cs => "text=" ++ render (encodeCones id cs)
    | none => "bad-request"
  | none => "bad-request"

def handleSaveRec (kv : KV) : String :=
  match kv.csc "P", kv.csc "A", kv.floats "q", kv.floats "b", kv.floats "dinv", kv.floats "einv",
      kv.float "c", kv.cones "cones", kv.float "tl", recSettings kv "" with
  | some P, some A, some q, some b, some dinv, some einv, some c, some cones, some _, some st =>
    let state : State Float := { (default : State Float) with P := P, A := A, q := q, b := b, dinv := dinv, einv := einv, c := c }
    if !(P.rowval.size == P.nzval.size && A.rowval.size == A.nzval.size
         && P.rowval.all (fun r => decide (r < dinv.size)) && A.rowval.all (fun r => decide (r < einv.size))
         && P.colptr.size == dinv.size + 1 && A.colptr.size == dinv.size + 1
         && P.colptr.getD dinv.size 0 == P.nzval.size && A.colptr.getD dinv.size 0 == A.nzval.size
         && q.size == dinv.size && b.size == einv.size) then "panic:json.saverec-ill-formed"
    else
      let r := saveRecord ({ st := state, cones := cones, settings := st } : SaveState Float Unit)
      let tl := ofTL r.settings.timeLimit
      let tlTok := if tl.isFinite then fmtFloat tl else "null"
      s!"Pm={r.P.m} Pn={r.P.n} Pcolptr={fmtNats r.P.colptr} Prowval={fmtNats r.P.rowval} P={fmtJsonFloats r.P.nzval} q={fmtJsonFloats r.q} Am={r.A.m} An={r.A.n} Acolptr={fmtNats r.A.colptr} Arowval={fmtNats r.A.rowval} A={fmtJsonFloats r.A.nzval} b={fmtJsonFloats r.b} cones={fmtCones r.cones} tl={tlTok} dsm={r.settings.rest.directSolveMethod} mm={r.settings.rest.mergeMethod} pre={fmtBool r.settings.rest.presolveEnable} chord={fmtBool r.settings.rest.chordalEnable}"
  | _, _, _, _, _, _, _, _, _, _ => "bad-request"

def handle (ch : String) (kv : KV) : String :=
  match ch with
  | "json.load" => handleLoad kv
  | "json.saverec" => handleSaveRec kv
  | "json.conedec" => handleConeDec kv
  | "json.coneenc" => handleConeEnc kv
  | "json.save" =>
    match kv.csc "P", kv.csc "A", kv.floats "q", kv.floats "b", kv.floats "dinv", kv.floats "einv", kv.float "c" with
    | some P, some A, some q, some b, some dinv, some einv, some c =>
      let st : State Float := { (default : State Float) with P := P, A := A, q := q, b := b, dinv := dinv, einv := einv, c := c }
      -- index facts that `lrscale` / `hadamard` rely on
      if !(P.rowval.size == P.nzval.size && A.rowval.size == A.nzval.size
           && P.rowval.all (fun r => decide (r < dinv.size)) && A.rowval.all (fun r => decide (r < einv.size))
           && P.colptr.size == dinv.size + 1 && A.colptr.size == dinv.size + 1
           && P.colptr.getD dinv.size 0 == P.nzval.size && A.colptr.getD dinv.size 0 == A.nzval.size
           && q.size == dinv.size && b.size == einv.size) then "panic:json.save-ill-formed"
      else
        let u := saveData st
        s!"P={fmtJsonFloats u.P} q={fmtJsonFloats u.q} A={fmtJsonFloats u.A} b={fmtJsonFloats u.b}"
    | _, _, _, _, _, _, _ => "bad-request"
  | "json.sanitize" =>
    match kv.float "tl" with
    | some tl =>
      let s : Settings Float Unit := { timeLimit := toTL tl, rest := () }
      let s1 := sanitize s
      let s2 := desanitize s1
      let s3 := desanitize s
      s!"san={fmtFloat (ofTL s1.timeLimit)} back={fmtFloat (ofTL s2.timeLimit)} desan={fmtFloat (ofTL s3.timeLimit)}"
    | none => "bad-request"
  | _ => "unknown-channel"

end C19Driver

def main : IO Unit := runMain C19Driver.handle
