import Driver.CscIO
import ClarabelModel.Json

open Clarabel Driver Clarabel.Update Clarabel.Json

namespace C19Driver

def f64Max : Float := Float.ofBits 0x7fefffffffffffff
def f64Inf : Float := Float.ofBits 0x7ff0000000000000

def toTL (x : Float) : TimeLimit Float :=
  if x == f64Inf then .infinity else if x == f64Max then .maxValue else .other x

def ofTL : TimeLimit Float → Float
  | .infinity => f64Inf
  | .maxValue => f64Max
  | .other v => v

/-- serde_json writes non-finite numbers as `null` (text layer, not modelled further) -/
def fmtJsonFloats (xs : Array Float) : String :=
  ",".intercalate (xs.toList.map (fun x => if x.isFinite then fmtFloat x else "null"))

def handle (ch : String) (kv : KV) : String :=
  match ch with
  | "json.save" =>
    match kv.csc "P", kv.csc "A", kv.floats "q", kv.floats "b", kv.floats "dinv", kv.floats "einv", kv.float "c" with
    | some P, some A, some q, some b, some dinv, some einv, some c =>
      let st : State Float := { (default : State Float) with P := P, A := A, q := q, b := b, dinv := dinv, einv := einv, c := c }
      -- index facts that `lrscale` / `hadamard` rely on
      if !(P.rowval.size == P.nzval.size && A.rowval.size == A.nzval.size
           && P.rowval.all (fun r => decide (r < dinv.size)) && A.rowval.all (fun r => decide (r < einv.size))
           && P.colptr.size == dinv.size + 1 && A.colptr.size == dinv.size + 1
           && P.colptr.getD dinv.size 0 == P.nzval.size && A.colptr.getD dinv.size 0 == A.nzval.size
           && q.size == dinv.size && b.size == einv.size) then "panic:json.save-ill-formed"
      else
        let u := saveData st
        s!"P={fmtJsonFloats u.P} q={fmtJsonFloats u.q} A={fmtJsonFloats u.A} b={fmtJsonFloats u.b}"
    | _, _, _, _, _, _, _ => "bad-request"
  | "json.sanitize" =>
    match kv.float "tl" with
    | some tl =>
      let s : Settings Float Unit := { timeLimit := toTL tl, rest := () }
      let s1 := sanitize s
      let s2 := desanitize s1
      let s3 := desanitize s
      s!"san={fmtFloat (ofTL s1.timeLimit)} back={fmtFloat (ofTL s2.timeLimit)} desan={fmtFloat (ofTL s3.timeLimit)}"
    | none => "bad-request"
  | _ => "unknown-channel"

end C19Driver

def main : IO Unit := runMain C19Driver.handle
