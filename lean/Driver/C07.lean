import Driver.Common
import ClarabelModel.Loop
import ClarabelModel.StepK

open Clarabel Clarabel.Loop Clarabel.Loop.Step Driver

namespace Driver
def KV.config (kv : KV) : Option (Config Float) := Wire.config kv.nat kv.float kv.floats
def KV.oracles (kv : KV) : Option (List (PassOracle Float)) := Wire.oracles kv.floats kv.bools
end Driver

/-- `f64::MAX` -/
def f64Max : Float := Float.ofBits 0x7FEFFFFFFFFFFFFF

namespace DriverC07
open Clarabel.StepK

/-- fuel for the nonsymmetric cones' `backtrack_search` (exhaustion is reported) -/
def btFuel : Nat := 200000

/-- `γ` with its LAPACK status flag (`0` = `eigvals` failed) -/
def gammaOf (ok : Nat) (g : Float) : Option Float := if ok == 0 then none else some g

/-- the cone blocks of a `vars.step_k` request.  `kinds`: 0 zero, 1 nonnegative, 2 second-order,
3 exponential (`alphas[i] < 0`) / power, 4 PSD triangle (`dims` = matrix order), 5 generalised
power; flat `z s dz ds` in `rng_cones` order; per PSD block `n²` entries of `psdR`, `psdRinv` and
two entries of `psdg` / `psdok` (the LAPACK answers for `W Δz`, `W⁻ᵀ Δs`) -/
def blks (kv : KV) : Option (List (Blk Float)) := do
  let ks ← kv.nats "kinds"
  let ds ← kv.nats "dims"
  let z ← kv.floats "z"
  let s ← kv.floats "s"
  let dz ← kv.floats "dz"
  let dsv ← kv.floats "ds"
  let alphas ← kv.floats "alphas"
  let gpal ← kv.floats "gpal"
  let gpd1 ← kv.nats "gpd1"
  let pg ← kv.floats "psdg"
  let pok ← kv.nats "psdok"
  let pR ← kv.floats "psdR"
  let pRi ← kv.floats "psdRinv"
  if ks.size ≠ ds.size then none
  let rec go : List (Nat × Nat) → Nat → Nat → Nat → Nat → Nat → Nat → Option (List (Blk Float))
    | [], _, _, _, _, _, _ => some []
    | (k, n) :: rest, start, ia, ig, iga, ip, ir => do
      let len := if k == 4 then PsdIndex.triangularNumber n else n
      let zi := z.extract start (start + len)
      let si := s.extract start (start + len)
      let dzi := dz.extract start (start + len)
      let dsi := dsv.extract start (start + len)
      if zi.size ≠ len ∨ si.size ≠ len ∨ dzi.size ≠ len ∨ dsi.size ≠ len then none
      match k with
      | 0 => do
        let tl ← go rest (start + len) ia ig iga ip ir
        pure (.zero zi si dzi dsi :: tl)
      | 1 => do
        let tl ← go rest (start + len) ia ig iga ip ir
        pure (.nn zi si dzi dsi :: tl)
      | 2 => do
        let tl ← go rest (start + len) ia ig iga ip ir
        pure (.soc zi si dzi dsi :: tl)
      | 3 => do
        let al ← alphas[ia]?
        let z3 ← Nonsym.v3ofArray? zi
        let s3 ← Nonsym.v3ofArray? si
        let dz3 ← Nonsym.v3ofArray? dzi
        let ds3 ← Nonsym.v3ofArray? dsi
        let tl ← go rest (start + len) (ia + 1) ig iga ip ir
        pure ((if al < 0 then .exp z3 s3 dz3 ds3 else .pow al z3 s3 dz3 ds3) :: tl)
      | 4 => do
        let gz ← pg[2 * ip]?
        let gs ← pg[2 * ip + 1]?
        let okz ← pok[2 * ip]?
        let oks ← pok[2 * ip + 1]?
        let R := pR.extract ir (ir + n * n)
        let Ri := pRi.extract ir (ir + n * n)
        if R.size ≠ n * n ∨ Ri.size ≠ n * n then none
        let tl ← go rest (start + len) ia ig iga (ip + 1) (ir + n * n)
        pure (.psd ⟨n, #[], #[], R, Ri, #[]⟩ (gammaOf okz gz) (gammaOf oks gs) zi si dzi dsi :: tl)
      | 5 => do
        let d1 ← gpd1[ig]?
        let al := gpal.extract iga (iga + d1)
        if al.size ≠ d1 then none
        let tl ← go rest (start + len) ia (ig + 1) (iga + d1) ip ir
        pure (.genpow al zi si dzi dsi :: tl)
      | _ => none
  go (ks.toList.zip ds.toList) 0 0 0 0 0 0

def pt (kv : KV) : Option (Pt Float) := do
  let b ← blks kv
  pure { x := ← kv.floats "x", dx := ← kv.floats "dx", blks := b, τ := ← kv.float "tau",
         κ := ← kv.float "kappa", dτ := ← kv.float "dtau", dκ := ← kv.float "dkappa" }

def fmtE : ModelErr → String := fun e =>
  String.ofList ((fmtErr e).toList.map (fun c => if c == ' ' then '_' else c))

end DriverC07

def handleC07 (ch : String) (kv : KV) : String :=
  match ch with
  | "vars.calc_step_length" =>
    -- one nonnegative cone
    match kv.float "tau", kv.float "kappa", kv.float "dtau", kv.float "dkappa",
          kv.floats "z", kv.floats "dz", kv.floats "s", kv.floats "ds", kv.nat "combined", kv.float "msf" with
    | some tau, some kappa, some dtau, some dkappa, some z, some dz, some s, some ds, some comb, some msf =>
      let a := calcStepLength tau kappa dtau dkappa f64Max (nnStepLength z dz s ds) (comb != 0) msf
      s!"alpha={fmtFloat a} amax={fmtFloat (alphaMax tau kappa dtau dkappa f64Max)}"
    | _, _, _, _, _, _, _, _, _, _ => "bad-request"
  | "vars.add_step" =>
    match kv.floats "x", kv.floats "dx", kv.floats "sv", kv.floats "dsv", kv.floats "zv", kv.floats "dzv",
          kv.float "tau", kv.float "dtau", kv.float "kappa", kv.float "dkappa", kv.float "alpha" with
    | some x, some dx, some s, some ds, some z, some dz, some tau, some dtau, some kappa, some dkappa, some a =>
      s!"x={fmtFloats (addStepVec x dx a)} s={fmtFloats (addStepVec s ds a)} z={fmtFloats (addStepVec z dz a)} " ++
      s!"tau={fmtFloat (addStepScalar tau dtau a)} kappa={fmtFloat (addStepScalar kappa dkappa a)}"
    | _, _, _, _, _, _, _, _, _, _, _ => "bad-request"
  | "vars.step_k" =>
    -- calc_step_length over a composite of all cone kinds, then add_step with the value obtained
    match DriverC07.pt kv, kv.float "msf", kv.float "bstep", kv.float "bamin", kv.nat "combined" with
    | some p, some msf, some bstep, some bamin, some comb =>
      match Clarabel.StepK.calcStepLength f64Max ⟨bstep, bamin, DriverC07.btFuel⟩ p (comb != 0) msf with
      | .error e => DriverC07.fmtE e
      | .ok a =>
        let q := Clarabel.StepK.addStep p a
        s!"alpha={fmtFloat a} x={fmtFloats q.x} s={fmtFloats q.sFlat.toArray} z={fmtFloats q.zFlat.toArray} " ++
        s!"tau={fmtFloat q.τ} kappa={fmtFloat q.κ}"
    | _, _, _, _, _ => "bad-request"
  | "loop.prefix" =>
    -- the long run's oracle answers, replayed under every smaller iteration budget
    match kv.config, kv.oracles, kv.nats "ks" with
    | some cfg, some os, some ks =>
      let rs := ks.toList.map fun k => solve { cfg with maxIter := k } 0 os
      let f := fun (g : Result Float → String) => Wire.joinC (rs.map fun
        | .done r => g r
        | .exhausted _ => "exhausted"
        | .panic _ => "panic")
      s!"st={f fun r => r.status.toString} it={f fun r => toString r.iterations} ps={f fun r => toString r.passes}"
    | _, _, _ => "bad-request"
  | _ => "unknown-channel"

def main : IO Unit := runMain handleC07
