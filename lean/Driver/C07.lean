import Driver.Common
import ClarabelModel.Loop

open Clarabel Clarabel.Loop Clarabel.Loop.Step Driver

namespace Driver
def KV.config (kv : KV) : Option (Config Float) := Wire.config kv.nat kv.float kv.floats
def KV.oracles (kv : KV) : Option (List (PassOracle Float)) := Wire.oracles kv.floats kv.bools
end Driver

/-- `f64::MAX` -/
def f64Max : Float := Float.ofBits 0x7FEFFFFFFFFFFFFF

def handleC07 (ch : String) (kv : KV) : String :=
  match ch with
  | "vars.calc_step_length" =>
    -- one nonnegative cone
    match kv.float "tau", kv.float "kappa", kv.float "dtau", kv.float "dkappa",
          kv.floats "z", kv.floats "dz", kv.floats "s", kv.floats "ds", kv.nat "combined", kv.float "msf" with
    | some tau, some kappa, some dtau, some dkappa, some z, some dz, some s, some ds, some comb, some msf =>
      let a := calcStepLength tau kappa dtau dkappa f64Max (nnStepLength z dz s ds) (comb != 0) msf
      s!"alpha={fmtFloat a} amax={fmtFloat (alphaMax tau kappa dtau dkappa f64Max)}"
    | _, _, _, _, _, _, _, _, _, _ => "bad-request"
  | "vars.add_step" =>
    match kv.floats "x", kv.floats "dx", kv.floats "sv", kv.floats "dsv", kv.floats "zv", kv.floats "dzv",
          kv.float "tau", kv.float "dtau", kv.float "kappa", kv.float "dkappa", kv.float "alpha" with
    | some x, some dx, some s, some ds, some z, some dz, some tau, some dtau, some kappa, some dkappa, some a =>
      s!"x={fmtFloats (addStepVec x dx a)} s={fmtFloats (addStepVec s ds a)} z={fmtFloats (addStepVec z dz a)} " ++
      s!"tau={fmtFloat (addStepScalar tau dtau a)} kappa={fmtFloat (addStepScalar kappa dkappa a)}"
    | _, _, _, _, _, _, _, _, _, _, _ => "bad-request"
  | "loop.prefix" =>
    -- the long run's oracle answers, replayed under every smaller iteration budget
    match kv.config, kv.oracles, kv.nats "ks" with
    | some cfg, some os, some ks =>
      let rs := ks.toList.map fun k => solve { cfg with maxIter := k } 0 os
      let f := fun (g : Result Float → String) => Wire.joinC (rs.map fun
        | .done r => g r
        | .exhausted _ => "exhausted"
        | .panic _ => "panic")
      s!"st={f fun r => r.status.toString} it={f fun r => toString r.iterations} ps={f fun r => toString r.passes}"
    | _, _, _ => "bad-request"
  | _ => "unknown-channel"

def main : IO Unit := runMain handleC07
