import Driver.CscIO
import Driver.ConeIO
import ClarabelModel.Collapse
import ClarabelModel.Presolve
import ClarabelModel.ProblemData

open Clarabel Driver Presolve

def kvState (kv : KV) : Option (Presolver Float) := do
  let some_ ← kv.nat "some"
  let keep ← kv.bools "keep"
  let mfull ← kv.nat "mfull"
  let mreduced ← kv.nat "mreduced"
  let pinf ← kv.float "pinf"
  pure { keep := if some_ != 0 then some keep else none, mfull, mreduced, infbound := pinf }

def fmtState (p : Presolver Float) : String :=
  s!"some={fmtBool p.keep.isSome} keep={fmtBools (p.keep.getD #[])} mfull={p.mfull} mreduced={p.mreduced} pinf={fmtFloat p.infbound}"

def fmtCscP (p : String) (M : Csc Float) : String :=
  s!"{p}m={M.m} {p}n={M.n} {p}colptr={fmtNats M.colptr} {p}rowval={fmtNats M.rowval} {p}nzval={fmtFloats M.nzval}"

def fmtData (d : ProblemData Float) : String :=
  let base := s!"{fmtCscP "P" d.P} q={fmtFloats d.q} {fmtCscP "A" d.A} b={fmtFloats d.b} cones={fmtCones d.cones} n={d.n} m={d.m} d={fmtFloats d.equilibration.d} dinv={fmtFloats d.equilibration.dinv} e={fmtFloats d.equilibration.e} einv={fmtFloats d.equilibration.einv} c={fmtFloat d.equilibration.c} pres={fmtBool d.presolver.isSome}"
  match d.presolver with
  | some p => base ++ " " ++ fmtState p
  | none => base

/-- prefix every token of a response line (two data records in one response) -/
def prefixTokens (p : String) (line : String) : String :=
  " ".intercalate (((line.splitOn " ").filter (· ≠ "")).map (p ++ ·))

/-- `presolve.hand_reduced`: keep flags on the collapsed list, the hand reduction of the user's
data (`handReduce` on the ORIGINAL cone list), `new` (presolve on) of the user's problem and
`new` (presolve off) of the hand-reduced problem. -/
def runHandReduced (P : Csc Float) (q : Array Float) (A : Csc Float) (b : Array Float)
    (cones : List (ConeT Float)) (inf : Float) : MErr String := do
  let full ← ProblemData.new P q A b cones true false inf
  let keep ← keepFlags (threshold inf) (Cones.newCollapsed cones) b.toList
  let (A', b', cones') ← handReduce keep A b cones
  let red ← ProblemData.new P q A' b' cones' false false inf
  pure s!"keep={fmtBools keep.toArray} {fmtCscP "hA" A'} hb={fmtFloats b'} hcones={fmtCones cones'} {prefixTokens "f." (fmtData full)} {prefixTokens "r." (fmtData red)}"

def parseOps (s : String) : Option (List (InfOp Float)) :=
  ((s.splitOn ";").filter (· ≠ "")).mapM (fun tok =>
    if tok == "d" then some .default
    else if tok == "n" then some .new
    else match tok.toList with
      | 's' :: ':' :: cs => (parseFloat (String.ofList cs)).map .set
      | _ => none)

/-- `infbound.history`: every `new` builds problem data with the bound in force; after the
history each object restores the synthetic reduced vectors `s = 1,2,…`, `z = -1,-2,…`. -/
def runHistory (P : Csc Float) (q : Array Float) (A : Csc Float) (b : Array Float)
    (cones : List (ConeT Float)) (ops : List (InfOp Float)) : MErr String := do
  let w := InfWorld.run (1e20 : Float) ops
  let mut ms : Array Nat := #[]
  let mut bs : Array Float := #[]
  let mut rs : Array Float := #[]
  let mut rz : Array Float := #[]
  for inf in w.captured do
    let d ← ProblemData.new P q A b cones true false inf
    ms := ms.push d.m
    bs := bs ++ d.b
    let sv : Array Float := (Array.range d.m).map (fun k => Float.ofNat (k + 1))
    let zv : Array Float := (Array.range d.m).map (fun k => -(Float.ofNat (k + 1)))
    match d.presolver with
    | some p =>
      let z0 : Array Float := Array.replicate p.mfull 0.0
      let (_, s', z') ← p.reversePresolve (Array.replicate d.n 0.0) z0 z0 (Array.replicate d.n 0.0) sv zv
      rs := rs ++ s'
      rz := rz ++ z'
    | none =>
      rs := rs ++ sv
      rz := rz ++ zv
  pure s!"m={fmtNats ms} b={fmtFloats bs} s={fmtFloats rs} z={fmtFloats rz} final={fmtFloat w.current}"

def handleC09 (ch : String) (kv : KV) : String :=
  match ch with
  | "cones.new_collapsed" =>
    match kv.cones "cones" with
    | none => "bad-request"
    | some cs => "cones=" ++ fmtCones (Cones.newCollapsed cs)
  | "presolve.reduction_map" =>
    match kv.cones "cones", kv.floats "b", kv.float "inf" with
    | some cs, some b, some inf =>
      fmtME (fun (r : Option (Array Bool) × Nat) =>
        s!"some={fmtBool r.1.isSome} keep={fmtBools (r.1.getD #[])} mreduced={r.2}")
        (makeReductionMap cs b inf)
    | _, _, _ => "bad-request"
  | "presolve.reduce_cones" =>
    match kv.cones "cones", kvState kv with
    | some cs, some p => fmtME (fun r => "cones=" ++ fmtCones r) (p.reduceCones cs)
    | _, _ => "bad-request"
  | "presolve.presolve" =>
    match kv.cones "cones", kvState kv, kv.csc "A", kv.floats "b" with
    | some cs, some p, some A, some b =>
      fmtME (fun (r : Csc Float × Array Float × List (ConeT Float)) =>
        s!"{fmtCscP "A" r.1} b={fmtFloats r.2.1} cones={fmtCones r.2.2}") (p.presolve A b cs)
    | _, _, _, _ => "bad-request"
  | "presolve.reverse" =>
    match kvState kv, kv.nat "n", kv.floats "x", kv.floats "s", kv.floats "z" with
    | some p, some n, some x, some s, some z =>
      let z0 : Array Float := Array.replicate p.mfull 0.0
      -- `vars.s.copy_from_slice` etc. in the harness never fail: the vectors are sized from the request
      fmtME (fun (r : Array Float × Array Float × Array Float) =>
        s!"x={fmtFloats r.1} s={fmtFloats r.2.1} z={fmtFloats r.2.2}")
        (p.reversePresolve (Array.replicate n 0.0) z0 z0 x s z)
    | _, _, _, _, _ => "bad-request"
  | "problemdata.new" =>
    match kv.csc "P", kv.floats "q", kv.csc "A", kv.floats "b", kv.cones "cones", kv.nat "presolve", kv.float "inf" with
    | some P, some q, some A, some b, some cs, some pre, some inf =>
      -- optional key `chordal` (0/1, absent = 0): `chordal_decomposition_enable`
      fmtME fmtData (ProblemData.new P q A b cs (pre != 0) ((kv.nat "chordal").getD 0 != 0) inf)
    | _, _, _, _, _, _, _ => "bad-request"
  | "presolve.hand_reduced" =>
    match kv.csc "P", kv.floats "q", kv.csc "A", kv.floats "b", kv.cones "cones", kv.float "inf" with
    | some P, some q, some A, some b, some cs, some inf => fmtME id (runHandReduced P q A b cs inf)
    | _, _, _, _, _, _ => "bad-request"
  | "infbound.history" =>
    match kv.csc "P", kv.floats "q", kv.csc "A", kv.floats "b", kv.cones "cones", (kv.str "ops").bind parseOps with
    | some P, some q, some A, some b, some cs, some ops => fmtME id (runHistory P q A b cs ops)
    | _, _, _, _, _, _ => "bad-request"
  | _ => "unknown-channel"

def main : IO Unit := runMain handleC09
