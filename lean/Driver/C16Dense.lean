/-
  Channels `dense.*` of the C16 driver: the model of `src/algebra/dense/**`
  (`ClarabelModel/Dense.lean`) on request lines.

  operand `<p>`: `<p>m <p>n <p>d` (+ `<p>off <p>len` for an unchecked view of the parent
  buffer `<p>d`, + `<p>v` = `n` | `t` | `s` for the matrix, its `t()` or its `sym()` view).
-/
import Driver.Common
import ClarabelModel.Dense

open Clarabel Driver

namespace C16Dense

abbrev F := Float

def fmtM {β : Type} (f : β → String) : MErr β → String
  | .ok v => f v
  | .error (.panic s) => "panic:" ++ s.replace " " "_"
  | .error (.err k) => "err:" ++ k

def fmtMat (A : Dense F) : String := s!"m={A.m} n={A.n} d={fmtFloats A.data}"
def fmtD (d : Array F) : String := "d=" ++ fmtFloats d
def fmtV (d : Array F) : String := "v=" ++ fmtFloats d
def fmtVal (v : F) : String := "v=" ++ fmtFloat v

def parseView (s : Option String) : Option DView :=
  match s with
  | none => some .N
  | some "n" => some .N
  | some "t" => some .T
  | some "s" => some .S
  | _ => none

def KV.opnd (kv : KV) (p : String) : Option (Dense.Opnd F) := do
  let m ← kv.nat (p ++ "m")
  let n ← kv.nat (p ++ "n")
  let d ← kv.floats (p ++ "d")
  let shape ← parseView (kv.str (p ++ "v"))
  let view := match kv.nat (p ++ "off"), kv.nat (p ++ "len") with
    | some off, some len => some (off, len)
    | _, _ => none
  pure ⟨m, n, d, view, shape⟩

/-- read-only use of an operand -/
def withR {β : Type} (o : Dense.Opnd F) (f : DView → Dense F → MErr β) : MErr β := do
  let A ← o.load
  f o.shape A

/-- mutable receiver: the parent buffer afterwards -/
def withW (o : Dense.Opnd F) (f : Dense F → MErr (Dense F)) : MErr (Array F) := do
  let A ← o.load
  let A' ← f A
  pure (o.store A')

def parseRows (kv : KV) : Option (Array (Array F)) := do
  let k ← kv.nat "nrows"
  let rows ← (List.range k).mapM (fun i => kv.floats s!"r{i}")
  pure rows.toArray

def KV.mat (kv : KV) (p : String) : Option (Dense F) := do
  let m ← kv.nat (p ++ "m")
  let n ← kv.nat (p ++ "n")
  let d ← kv.floats (p ++ "d")
  pure ⟨m, n, d⟩

/-- owned matrix: `Matrix::new` asserts the size -/
def ownedOf (A : Dense F) : MErr (Dense F) := Dense.new A.m A.n A.data

def parseBlocks (kv : KV) : Option (List (List (Dense F))) := do
  let lens ← kv.nats "lens"
  lens.toList.zipIdx.mapM (fun (p : Nat × Nat) =>
    (List.range p.1).mapM (fun c => KV.mat kv s!"b{p.2}_{c}_"))

def fmtRes : Option FactErr → String
  | none => "r=ok"
  | some .incompatibleDimension => "r=IncompatibleDimension"
  | some (.eigen i) => s!"r=Eigen({i})"
  | some (.svd i) => s!"r=SVD({i})"
  | some (.cholesky i) => s!"r=Cholesky({i})"
  | some (.lu i) => s!"r=LU({i})"

def reduce (kv : KV) (f : Dense F → Array F → MErr (Array F)) : String :=
  match KV.mat kv "a", kv.floats "v" with
  | some A, some v => fmtM fmtV (do let A ← ownedOf A; f A v)
  | _, _ => "bad-request"

def handleCore (ch : String) (kv : KV) : Option String :=
  match ch with
  | "dense.new" | "dense.new_from_slice" =>
    some <| match kv.nat "m", kv.nat "n", kv.floats "d" with
    | some m, some n, some d => fmtM fmtMat (Dense.new m n d)
    | _, _, _ => "bad-request"
  | "dense.zeros" =>
    some <| match kv.nat "m", kv.nat "n" with
    | some m, some n => fmtMat (Dense.zeros m n)
    | _, _ => "bad-request"
  | "dense.identity" =>
    some <| match kv.nat "n" with
    | some n => fmtM fmtMat (Dense.identity n)
    | none => "bad-request"
  | "dense.from_rows" =>
    some <| match parseRows kv with
    | some rows => fmtM fmtMat (Dense.fromRows rows)
    | none => "bad-request"
  | "dense.resize" =>
    some <| match KV.mat kv "a", kv.nat "m2", kv.nat "n2" with
    | some A, some m2, some n2 => fmtM fmtMat (do let A ← ownedOf A; pure (Dense.resize A m2 n2))
    | _, _, _ => "bad-request"
  | "dense.size_shape" =>
    some <| match KV.opnd kv "a" with
    | some o => fmtM id (withR o (fun v A => pure
        s!"nrows={Dense.nrowsV v A} ncols={Dense.ncolsV v A} sq={fmtBool (Dense.isSquareV v A)} t={fmtBool (Dense.shapeIsT v)}"))
    | none => "bad-request"
  | "dense.index_linear" =>
    some <| match KV.opnd kv "a", kv.nat "i", kv.nat "j" with
    | some o, some i, some j => fmtM id (withR o (fun v A => pure s!"k={Dense.indexLinear v A i j}"))
    | _, _, _ => "bad-request"
  | "dense.index" =>
    some <| match KV.opnd kv "a", kv.nat "i", kv.nat "j" with
    | some o, some i, some j => fmtM fmtVal (withR o (fun v A => Dense.get v A i j))
    | _, _, _ => "bad-request"
  | "dense.index_mut" =>
    some <| match KV.opnd kv "a", kv.nat "i", kv.nat "j", kv.float "x" with
    | some o, some i, some j, some x => fmtM fmtD (withW o (fun A => Dense.set A i j x))
    | _, _, _, _ => "bad-request"
  | "dense.col_slice" =>
    some <| match KV.opnd kv "a", kv.nat "col" with
    | some o, some c => fmtM fmtV (withR o (fun _ A => Dense.colSlice A c))
    | _, _ => "bad-request"
  | "dense.col_slice_mut" =>
    some <| match KV.opnd kv "a", kv.nat "col", kv.floats "vals" with
    | some o, some c, some vals => fmtM fmtD (withW o (fun A => Dense.colSliceMutSet A c vals))
    | _, _, _ => "bad-request"
  | "dense.borrowed_index" =>
    some <| match kv.floats "d", kv.nat "m", kv.nat "n", kv.nat "i", kv.nat "j" with
    | some d, some m, some n, some i, some j => fmtM fmtVal (Dense.get .N (Dense.fromSlice d m n) i j)
    | _, _, _, _, _ => "bad-request"
  | "dense.borrowed_col_slice" =>
    some <| match kv.floats "d", kv.nat "m", kv.nat "n", kv.nat "col" with
    | some d, some m, some n, some c => fmtM fmtV (Dense.colSlice (Dense.fromSlice d m n) c)
    | _, _, _, _ => "bad-request"
  | "dense.set_identity" =>
    some <| match KV.opnd kv "a" with
    | some o => fmtM fmtD (withW o Dense.setIdentity)
    | none => "bad-request"
  | "dense.copy_from_slice" =>
    some <| match KV.opnd kv "a", kv.floats "src" with
    | some o, some src => fmtM fmtD (withW o (fun A => Dense.copyFromSlice A src))
    | _, _ => "bad-request"
  | "dense.is_triu" =>
    some <| match KV.opnd kv "a" with
    | some o => fmtM fmtBool (withR o (fun _ A => Dense.isTriu A))
    | none => "bad-request"
  | "dense.subsasgn" =>
    some <| match KV.opnd kv "a", kv.nats "rows", kv.nats "cols", KV.opnd kv "s" with
    | some o, some rows, some cols, some so =>
      fmtM fmtD (do
        -- the receiver is built first, then the source
        let A ← o.load
        let S ← so.load
        let A' ← Dense.subsasgn A rows cols so.shape S
        pure (o.store A'))
    | _, _, _, _ => "bad-request"
  | "dense.subsref" =>
    some <| match KV.opnd kv "a", kv.nats "rows", kv.nats "cols", KV.opnd kv "s" with
    | some o, some rows, some cols, some so =>
      fmtM fmtD (do
        let A ← o.load
        let S ← so.load
        let A' ← Dense.subsref A so.shape S rows cols
        pure (o.store A'))
    | _, _, _, _ => "bad-request"
  | "dense.pack_triu" => some <| reduce kv Dense.packTriu
  | "dense.type_markers" =>
    some <| match kv.nat "triu", kv.nat "t" with
    | some tr, some t =>
      let r := Dense.typeMarkers (tr != 0) (t != 0)
      s!"c={r.1},{r.2.1},{r.2.2.1},{r.2.2.2}"
    | _, _ => "bad-request"
  | _ => none

def fmtCat (r : MErr (Dense F)) : String := fmtM fmtMat r

def handleMath (ch : String) (kv : KV) : Option String :=
  match ch with
  | "dense.hcat" =>
    some <| match KV.mat kv "a", KV.mat kv "b" with
    | some A, some B => fmtCat (do let A ← ownedOf A; let B ← ownedOf B; Dense.hcat A B)
    | _, _ => "bad-request"
  | "dense.vcat" =>
    some <| match KV.mat kv "a", KV.mat kv "b" with
    | some A, some B => fmtCat (do let A ← ownedOf A; let B ← ownedOf B; Dense.vcat A B)
    | _, _ => "bad-request"
  | "dense.hvcat" =>
    some <| match parseBlocks kv with
    | some mats => fmtCat (do
        let mats ← mats.mapM (fun r => r.mapM ownedOf)
        Dense.hvcat mats)
    | none => "bad-request"
  | "dense.blockdiag" =>
    some <| match kv.nat "k" with
    | none => "bad-request"
    | some k =>
      match (List.range k).mapM (fun i => KV.mat kv s!"b{i}_") with
      | some mats => fmtCat (do let mats ← mats.mapM ownedOf; Dense.blockdiag mats)
      | none => "bad-request"
  | "dense.kron" =>
    some <| match KV.mat kv "k", KV.opnd kv "a", KV.opnd kv "b" with
    | some K, some oa, some ob => fmtM fmtD (do
        let K ← ownedOf K
        let A ← oa.load
        let B ← ob.load
        let K' ← Dense.kron K oa.shape A ob.shape B
        pure K'.data)
    | _, _, _ => "bad-request"
  | "dense.col_sums" => some <| reduce kv Dense.colSums
  | "dense.row_sums" => some <| reduce kv Dense.rowSums
  | "dense.col_norms" => some <| reduce kv Dense.colNorms
  | "dense.col_norms_no_reset" => some <| reduce kv Dense.colNormsNoReset
  | "dense.col_norms_sym" => some <| reduce kv Dense.colNormsSym
  | "dense.col_norms_sym_no_reset" => some <| reduce kv Dense.colNormsSymNoReset
  | "dense.row_norms" => some <| reduce kv Dense.rowNorms
  | "dense.row_norms_no_reset" => some <| reduce kv Dense.rowNormsNoReset
  | "dense.quad_form" =>
    some <| match KV.mat kv "a", kv.floats "y", kv.floats "x" with
    | some A, some y, some x => fmtM fmtVal (do let A ← ownedOf A; Dense.quadForm A y x)
    | _, _, _ => "bad-request"
  | "dense.scale" =>
    some <| match KV.mat kv "a", kv.float "c" with
    | some A, some c => fmtM fmtD (do let A ← ownedOf A; pure (Dense.scale A c).data)
    | _, _ => "bad-request"
  | "dense.negate" =>
    some <| match KV.mat kv "a" with
    | some A => fmtM fmtD (do let A ← ownedOf A; pure (Dense.negate A).data)
    | none => "bad-request"
  | "dense.lscale" =>
    some <| match KV.mat kv "a", kv.floats "l" with
    | some A, some l => fmtM fmtD (do let A ← ownedOf A; let R ← Dense.lscale A l; pure R.data)
    | _, _ => "bad-request"
  | "dense.rscale" =>
    some <| match KV.mat kv "a", kv.floats "r" with
    | some A, some r => fmtM fmtD (do let A ← ownedOf A; let R ← Dense.rscale A r; pure R.data)
    | _, _ => "bad-request"
  | "dense.lrscale" =>
    some <| match KV.mat kv "a", kv.floats "l", kv.floats "r" with
    | some A, some l, some r => fmtM fmtD (do let A ← ownedOf A; let R ← Dense.lrscale A l r; pure R.data)
    | _, _, _ => "bad-request"
  | "dense.symmetric_part" =>
    some <| match KV.opnd kv "a" with
    | some o => fmtM fmtD (withW o Dense.symmetricPart)
    | none => "bad-request"
  | "dense.svec_to_mat" =>
    some <| match KV.opnd kv "a", kv.floats "x" with
    | some o, some x => fmtM fmtD (withW o (fun A => Dense.svecToMat A x))
    | _, _ => "bad-request"
  | "dense.mat_to_svec" =>
    some <| match KV.opnd kv "a", kv.floats "x" with
    | some o, some x => fmtM fmtV (withR o (fun v A => Dense.matToSvec x v A))
    | _, _ => "bad-request"
  | _ => none

def handleBlas (ch : String) (kv : KV) : Option String :=
  match ch with
  | "dense.mul" =>
    some <| match KV.opnd kv "c", KV.opnd kv "a", KV.opnd kv "b", kv.float "alpha", kv.float "beta" with
    | some oc, some oa, some ob, some al, some be => fmtM fmtD (do
        let C ← oc.load
        let A ← oa.load
        let B ← ob.load
        let C' ← Dense.mul C oa.shape A ob.shape B al be
        pure (oc.store C'))
    | _, _, _, _, _ => "bad-request"
  | "dense.gemv" =>
    some <| match KV.opnd kv "a", kv.floats "x", kv.floats "y", kv.float "alpha", kv.float "beta" with
    | some oa, some x, some y, some al, some be =>
      fmtM fmtV (withR oa (fun v A => Dense.gemv v A x y al be))
    | _, _, _, _, _ => "bad-request"
  | "dense.symv" =>
    some <| match KV.mat kv "a", kv.floats "x", kv.floats "y", kv.float "alpha", kv.float "beta" with
    | some A, some x, some y, some al, some be =>
      fmtM fmtV (do let A ← ownedOf A; Dense.symv A x y al be)
    | _, _, _, _, _ => "bad-request"
  | "dense.syrk" =>
    some <| match KV.mat kv "c", KV.opnd kv "a", kv.float "alpha", kv.float "beta" with
    | some C, some oa, some al, some be => fmtM fmtD (do
        let C ← ownedOf C
        let A ← oa.load
        let C' ← Dense.syrk C oa.shape A al be
        pure C'.data)
    | _, _, _, _ => "bad-request"
  | "dense.syr2k" =>
    some <| match KV.opnd kv "c", KV.opnd kv "a", KV.opnd kv "b", kv.float "alpha", kv.float "beta" with
    | some oc, some oa, some ob, some al, some be => fmtM fmtD (do
        let C ← oc.load
        let A ← oa.load
        let B ← ob.load
        let C' ← Dense.syr2k C A B al be
        pure (oc.store C'))
    | _, _, _, _, _ => "bad-request"
  | _ => none

def handleLapack (ch : String) (kv : KV) : Option String :=
  match ch with
  | "dense.chol_factor" =>
    some <| match KV.mat kv "l", KV.opnd kv "a", kv.int "info", kv.floats "lap" with
    | some L, some oa, some info, some lap => fmtM id (do
        let L ← ownedOf L
        let A ← oa.load
        let (L', r) ← Dense.cholFactor L A (Dense.potrfObserved L.m info lap)
        pure s!"{fmtRes r} l={fmtFloats L'.data} a={fmtFloats (oa.store A)}")
    | _, _, _, _ => "bad-request"
  | "dense.chol_solve" =>
    some <| match KV.mat kv "l", KV.opnd kv "b", kv.floats "lap" with
    | some L, some ob, some lap => fmtM fmtD (do
        let L ← ownedOf L
        let B ← ob.load
        let B' ← Dense.cholSolve L B (fun _ => lap)
        pure (ob.store B'))
    | _, _, _ => "bad-request"
  | "dense.chol_logdet" =>
    some <| match KV.mat kv "l" with
    | some L => fmtM fmtVal (do let L ← ownedOf L; Dense.cholLogdet L)
    | none => "bad-request"
  | "dense.eig" =>
    some <| match kv.floats "lam0", kv.nat "hasv", kv.floats "v0", kv.nats "lens", KV.opnd kv "a", kv.nat "want",
        kv.int "info", kv.floats "la", kv.floats "lw", kv.floats "lz", kv.nat "lwork", kv.nat "liwork" with
    | some lam0, some hasv, some v0, some lens, some oa, some want, some info, some la, some lw, some lz,
        some lwork, some liwork => fmtM id (do
        let n := lam0.size
        let E : Dense.EigEngine F := ⟨lam0, if hasv != 0 then some ⟨n, n, v0⟩ else none,
          lens.getD 0 0, lens.getD 1 0, lens.getD 2 0⟩
        let A ← oa.load
        let (E', A', r) ← Dense.eigSyevr E A (want != 0) (fun _ => ⟨info, la, lw, lz, lwork, liwork⟩)
        let vs := match E'.V with
          | some V => s!"hasv=1 vm={V.m} vn={V.n} v={fmtFloats V.data}"
          | none => "hasv=0 vm=0 vn=0 v="
        pure s!"{fmtRes r} lam={fmtFloats E'.lam} {vs} a={fmtFloats (oa.store A')} lens={E'.isuppzLen},{E'.workLen},{E'.iworkLen}")
    | _, _, _, _, _, _, _, _, _, _, _, _ => "bad-request"
  | "dense.svd_factor" =>
    some <| match kv.nat "em", kv.nat "en", kv.nat "rs", kv.nat "rm", kv.nat "rn", kv.nat "qr", KV.opnd kv "a",
        kv.int "info", kv.floats "la", kv.floats "ls", kv.floats "lu", kv.floats "lvt", kv.nat "lwork" with
    | some em, some en, some rs, some rm, some rn, some qr, some oa, some info, some la, some ls, some lu,
        some lvt, some lwork => fmtM id (do
        let E : Dense.SvdEngine F := Dense.svdNew em en
        let E := if rs != 0 then Dense.svdResize E rm rn else E
        let E := { E with qr := qr != 0 }
        let A ← oa.load
        let (E', A', r) ← Dense.svdFactor E A (fun _ => ⟨info, la, ls, lu, lvt, lwork⟩)
        pure s!"{fmtRes r} s={fmtFloats E'.s} um={E'.U.m} un={E'.U.n} u={fmtFloats E'.U.data} vm={E'.Vt.m} vn={E'.Vt.n} vt={fmtFloats E'.Vt.data} a={fmtFloats (oa.store A')} lens={E'.workLen},{E'.iworkLen}")
    | _, _, _, _, _, _, _, _, _, _, _, _, _ => "bad-request"
  | "dense.svd_solve" =>
    some <| match kv.floats "s", KV.mat kv "u", KV.mat kv "vt", KV.opnd kv "b" with
    | some s, some U, some Vt, some ob => fmtM fmtD (do
        let U ← ownedOf U
        let Vt ← ownedOf Vt
        let E : Dense.SvdEngine F := ⟨s, U, Vt, false, 1, 1⟩
        let B ← ob.load
        let B' ← Dense.svdSolve E B
        pure (ob.store B'))
    | _, _, _, _ => "bad-request"
  | "dense.lu" =>
    some <| match KV.mat kv "a", KV.mat kv "b", kv.nat "prev", kv.int "info", kv.floats "la", kv.floats "lb",
        kv.ints "lipiv" with
    | some A, some B, some prev, some info, some la, some lb, some lipiv => fmtM id (do
        let A ← ownedOf A
        let B ← ownedOf B
        let ipiv0 : Array Int := ((List.range prev).map (fun i => Int.ofNat i + 1)).toArray
        let (A', B', ipiv, r) ← Dense.luSolve A B ipiv0 (fun _ _ => ⟨info, la, lb, lipiv⟩)
        pure s!"{fmtRes r} a={fmtFloats A'.data} b={fmtFloats B'.data} ipiv={fmtInts ipiv}")
    | _, _, _, _, _, _, _ => "bad-request"
  | _ => none

def handle (ch : String) (kv : KV) : String :=
  match handleCore ch kv with
  | some r => r
  | none =>
    match handleMath ch kv with
    | some r => r
    | none =>
      match handleBlas ch kv with
      | some r => r
      | none =>
        match handleLapack ch kv with
        | some r => r
        | none => "unknown-channel"

end C16Dense
