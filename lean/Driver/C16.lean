import Driver.CscIO
import ClarabelModel.CscMath
import ClarabelModel.Cones.Nonsym
import Driver.C16Dense

open Clarabel Driver

namespace C16Driver

def fmtFE (r : Except Csc.FormatError (Csc Float)) : String :=
  match r with
  | .ok A => fmtCsc A
  | .error e => "err:" ++ e.toString

def fmtCE (r : Except Csc.ConcatError (Csc Float)) : String :=
  match r with
  | .ok A => fmtCsc A
  | .error _ => "err:IncompatibleDimension"

/-- panic sites contain blanks; the comparator only looks at the class -/
def fmtM {β : Type} (f : β → String) : MErr β → String
  | .ok v => f v
  | .error (.panic s) => "panic:" ++ s.replace " " "_"
  | .error (.err k) => "err:" ++ k

def fmtVec (k : String) (v : Array Float) : String := k ++ "=" ++ fmtFloats v
def fmtVal (v : Float) : String := "v=" ++ fmtFloat v

def posInf : Float := 1.0 / 0.0
def negInf : Float := -1.0 / 0.0

/-- one-matrix channels -/
def withA (kv : KV) (f : Csc Float → String) : String :=
  match kv.csc "" with
  | none => "bad-request"
  | some A => f A

def withAV (kv : KV) (k : String) (f : Csc Float → Array Float → String) : String :=
  match kv.csc "", kv.floats k with
  | some A, some v => f A v
  | _, _ => "bad-request"

def gemvLike (kv : KV) (f : Csc Float → Array Float → Array Float → Float → Float → MErr (Array Float)) : String :=
  match kv.csc "", kv.floats "y", kv.floats "x", kv.float "a", kv.float "b" with
  | some A, some y, some x, some a, some b => fmtM (fmtVec "y") (f A y x a b)
  | _, _, _, _, _ => "bad-request"

def parseRows (kv : KV) : Option (Array (Array Float)) := do
  let k ← kv.nat "nrows"
  let rows ← (List.range k).mapM (fun i => kv.floats s!"r{i}")
  pure rows.toArray

def parseBlocks (kv : KV) : Option (List (List (Csc Float))) := do
  let lens ← kv.nats "lens"
  lens.toList.zipIdx.mapM (fun (p : Nat × Nat) =>
    (List.range p.1).mapM (fun c => kv.csc s!"b{p.2}_{c}_"))

def vec1 (kv : KV) (f : Array Float → String) : String :=
  match kv.floats "x" with
  | some x => f x
  | none => "bad-request"

def vec2 (kv : KV) (f : Array Float → Array Float → String) : String :=
  match kv.floats "x", kv.floats "y" with
  | some x, some y => f x y
  | _, _ => "bad-request"

/-- the closures the `scalarop` / `scalarop_from` channels pass (same table in the harness) -/
def scalarOpOf (op : Nat) : Float → Float :=
  match op with
  | 0 => fun v => v + 1.5
  | 1 => fun v => v * v
  | 2 => fun v => 0.0 - v
  | 3 => fun _ => 2.0
  | _ => fun v => v / 3.0

def handleVec (ch : String) (kv : KV) : String :=
  match ch with
  | "vec.dot" => vec2 kv (fun x y => fmtVal (Vec.dot x y))
  | "vec.sumsq" => vec1 kv (fun x => fmtVal (Vec.sumsq x))
  | "vec.sum" => vec1 kv (fun x => fmtVal (Vec.sum x))
  | "vec.norm" => vec1 kv (fun x => fmtVal (Vec.norm x))
  | "vec.norm_inf" => vec1 kv (fun x => fmtVal (Vec.normInf x))
  | "vec.norm_one" => vec1 kv (fun x => fmtVal (Vec.normOne x))
  | "vec.norm_scaled" => vec2 kv (fun x y => fmtM fmtVal (Vec.normScaledE x y))
  | "vec.norm_inf_scaled" => vec2 kv (fun x y => fmtM fmtVal (Vec.normInfScaledE x y))
  | "vec.norm_one_scaled" => vec2 kv (fun x y => fmtVal (Vec.normOneScaled x y))
  | "vec.norm_inf_diff" => vec2 kv (fun x y => fmtVal (Vec.normInfDiff x y))
  | "vec.dist" => vec2 kv (fun x y => fmtVal (Vec.dist x y))
  | "scalar.logsafe" => vec1 kv (fun x => fmtVec "x" (x.map Nonsym.logsafe))
  | "scalar.clip" =>
    match kv.float "v", kv.float "lo", kv.float "hi" with
    | some v, some lo, some hi => fmtVal (Vec.clip v lo hi)
    | _, _, _ => "bad-request"
  | "vec.is_finite" => vec1 kv (fun x => fmtBool (Vec.isFinite x))
  | "vec.normalize" => vec1 kv (fun x => let r := Vec.normalize x; fmtVal r.1 ++ " " ++ fmtVec "x" r.2)
  | "vec.copy_from" => vec2 kv (fun x y => fmtM (fmtVec "x") (Vec.copyFrom x y))
  | "vec.set" =>
    match kv.floats "x", kv.float "c" with
    | some x, some c => fmtVec "x" (Vec.setAll x c)
    | _, _ => "bad-request"
  | "vec.scalarop_from" =>
    match kv.floats "x", kv.floats "y", kv.nat "op" with
    | some x, some y, some op => fmtVec "x" (Vec.scalaropFrom x (scalarOpOf op) y)
    | _, _, _ => "bad-request"
  | "vec.scalarop" =>
    match kv.floats "x", kv.nat "op" with
    | some x, some op => fmtVec "x" (Vec.scalarop x (scalarOpOf op))
    | _, _ => "bad-request"
  | "vec.mean" => vec1 kv (fun x => fmtVal (Vec.mean x))
  | "vec.minimum" => vec1 kv (fun x => fmtVal ((Vec.minimum? x).getD posInf))
  | "vec.maximum" => vec1 kv (fun x => fmtVal ((Vec.maximum? x).getD negInf))
  | "vec.negate" => vec1 kv (fun x => fmtVec "x" (Vec.negate x))
  | "vec.recip" => vec1 kv (fun x => fmtVec "x" (Vec.recip x))
  | "vec.sqrt" => vec1 kv (fun x => fmtVec "x" (Vec.vsqrt x))
  | "vec.rsqrt" => vec1 kv (fun x => fmtVec "x" (Vec.rsqrt x))
  | "vec.hadamard" => vec2 kv (fun x y => fmtVec "x" (Vec.hadamardFull x y))
  | "vec.scale" =>
    match kv.floats "x", kv.float "c" with
    | some x, some c => fmtVec "x" (Vec.scale x c)
    | _, _ => "bad-request"
  | "vec.translate" =>
    match kv.floats "x", kv.float "c" with
    | some x, some c => fmtVec "x" (Vec.translate x c)
    | _, _ => "bad-request"
  | "vec.clip" =>
    match kv.floats "x", kv.float "lo", kv.float "hi" with
    | some x, some lo, some hi => fmtVec "x" (Vec.vclip x lo hi)
    | _, _, _ => "bad-request"
  | "vec.select" =>
    match kv.floats "x", kv.bools "idx" with
    | some x, some idx => fmtM (fmtVec "x") (Vec.selectE x idx)
    | _, _ => "bad-request"
  | "vec.axpby" =>
    match kv.float "a", kv.floats "x", kv.float "b", kv.floats "y" with
    | some a, some x, some b, some y => fmtM (fmtVec "y") (Vec.axpbyE a x b y)
    | _, _, _, _ => "bad-request"
  | "vec.waxpby" =>
    match kv.float "a", kv.floats "x", kv.float "b", kv.floats "y" with
    | some a, some x, some b, some y =>
      fmtM (fmtVec "w") (Vec.waxpbyE ((kv.nat "wlen").getD x.size) a x b y)
    | _, _, _, _ => "bad-request"
  | "vec.dot_shifted" =>
    match kv.floats "z", kv.floats "s", kv.floats "dz", kv.floats "ds", kv.float "a" with
    | some z, some s, some dz, some ds, some a => fmtM fmtVal (Vec.dotShiftedE z s dz ds a)
    | _, _, _, _, _ => "bad-request"
  | _ => C16Dense.handle ch kv

def handleMath (ch : String) (kv : KV) : String :=
  match ch with
  | "csc.gemv_n" => gemvLike kv Csc.gemvN
  | "csc.gemv_t" => gemvLike kv Csc.gemvT
  | "csc.symv" => gemvLike kv Csc.symv
  | "csc.quad_form" =>
    match kv.csc "", kv.floats "y", kv.floats "x" with
    | some A, some y, some x => fmtM fmtVal (A.quadForm y x)
    | _, _, _ => "bad-request"
  | "csc.col_sums" => withAV kv "v" (fun A v => fmtM (fmtVec "v") (A.colSums v))
  | "csc.row_sums" => withAV kv "v" (fun A v => fmtM (fmtVec "v") (A.rowSums v))
  | "csc.col_norms" => withAV kv "v" (fun A v => fmtM (fmtVec "v") (A.colNorms v))
  | "csc.col_norms_no_reset" => withAV kv "v" (fun A v => fmtM (fmtVec "v") (A.colNormsNoReset v))
  | "csc.col_norms_sym" => withAV kv "v" (fun A v => fmtM (fmtVec "v") (A.colNormsSym v))
  | "csc.col_norms_sym_no_reset" => withAV kv "v" (fun A v => fmtM (fmtVec "v") (A.colNormsSymNoReset v))
  | "csc.row_norms" => withAV kv "v" (fun A v => fmtM (fmtVec "v") (A.rowNorms v))
  | "csc.row_norms_no_reset" => withAV kv "v" (fun A v => fmtM (fmtVec "v") (A.rowNormsNoReset v))
  | "csc.scale" =>
    match kv.csc "", kv.float "c" with
    | some A, some c => fmtCsc (A.scale c)
    | _, _ => "bad-request"
  | "csc.negate" => withA kv (fun A => fmtCsc A.negate)
  | "csc.lscale" => withAV kv "l" (fun A l => fmtM fmtCsc (A.lscale l))
  | "csc.rscale" => withAV kv "r" (fun A r => fmtM fmtCsc (A.rscale r))
  | "csc.lrscale" =>
    match kv.csc "", kv.floats "l", kv.floats "r" with
    | some A, some l, some r => fmtM fmtCsc (A.lrscale l r)
    | _, _, _ => "bad-request"
  | "csc.hcat" =>
    match kv.csc "a", kv.csc "b" with
    | some A, some B => fmtCE (Csc.hcat A B)
    | _, _ => "bad-request"
  | "csc.vcat" =>
    match kv.csc "a", kv.csc "b" with
    | some A, some B => fmtCE (Csc.vcat A B)
    | _, _ => "bad-request"
  | "csc.blockdiag" =>
    match kv.nat "k" with
    | none => "bad-request"
    | some k =>
      match (List.range k).mapM (fun i => kv.csc s!"b{i}_") with
      | some mats => fmtCE (Csc.blockdiag mats)
      | none => "bad-request"
  | "csc.hvcat" =>
    match parseBlocks kv with
    | some mats => fmtCE (Csc.hvcat mats)
    | none => "bad-request"
  | _ => handleVec ch kv

def handleC16 (ch : String) (kv : KV) : String :=
  match ch with
  | "csc.check_format" =>
    withA kv (fun A => match A.checkFormat with
      | .ok () => "ok"
      | .error e => "err:" ++ e.toString)
  | "csc.to_triu" => withA kv (fun A => fmtM fmtCsc A.toTriu)
  | "csc.is_triu" => withA kv (fun A => fmtBool A.isTriu)
  | "csc.select_rows" =>
    match kv.csc "", kv.bools "keep" with
    | some A, some keep => fmtM fmtCsc (A.selectRows keep)
    | _, _ => "bad-request"
  | "csc.transpose" => withA kv (fun A => fmtCsc A.transpose)
  | "csc.from_rows" =>
    match parseRows kv with
    | some rows => fmtM fmtCsc (Csc.fromRows rows)
    | none => "bad-request"
  | "csc.new_from_triplets" =>
    match kv.nat "m", kv.nat "n", kv.nats "I", kv.nats "J", kv.floats "V" with
    | some m, some n, some I, some J, some V => fmtM fmtCsc (Csc.newFromTriplets m n I J V)
    | _, _, _, _, _ => "bad-request"
  | "csc.spalloc" =>
    match kv.nat "m", kv.nat "n", kv.nat "nnz" with
    | some m, some n, some nnz => fmtCsc (Csc.spalloc m n nnz)
    | _, _, _ => "bad-request"
  | "csc.zeros" =>
    match kv.nat "m", kv.nat "n" with
    | some m, some n => fmtCsc (Csc.zeros m n)
    | _, _ => "bad-request"
  | "csc.identity" =>
    match kv.nat "n" with
    | some n => fmtCsc (Csc.identity n)
    | none => "bad-request"
  | "csc.dropzeros" => withA kv (fun A => fmtCsc A.dropzeros)
  | "csc.findnz" =>
    withA kv (fun A =>
      let (I, J, V) := A.findnz
      s!"I={fmtNats I} J={fmtNats J} V={fmtFloats V}")
  | "csc.canonicalize" => withA kv (fun A => fmtFE A.canonicalize)
  | "csc.is_equal_sparsity" =>
    match kv.csc "a", kv.csc "b" with
    | some A, some B => fmtBool (A.isEqualSparsity B)
    | _, _ => "bad-request"
  | "csc.check_equal_sparsity" =>
    match kv.csc "a", kv.csc "b" with
    | some A, some B => match A.checkEqualSparsity B with
      | .ok () => "ok"
      | .error e => "err:" ++ e.toString
    | _, _ => "bad-request"
  | "csc.new" =>
    withA kv (fun A => fmtM fmtCsc (Csc.new A.m A.n A.colptr A.rowval A.nzval))
  | "csc.eq" =>
    match kv.csc "a", kv.csc "b" with
    | some A, some B => fmtBool (A.isEqual B)
    | _, _ => "bad-request"
  | "csc.shape" =>
    withA kv (fun A => fmtM (fun nnz => s!"nrows={A.m} ncols={A.n} sq={fmtBool A.isSquare} nnz={nnz}") A.nnzE)
  | "csc.get_entry" =>
    match kv.csc "", kv.nat "row", kv.nat "col" with
    | some A, some r, some c => fmtM (fun o => match o with
      | some v => "some=" ++ fmtFloat v
      | none => "none") (A.getEntry r c)
    | _, _, _ => "bad-request"
  | "csc.set_entry" =>
    match kv.csc "", kv.nat "row", kv.nat "col", kv.float "v" with
    | some A, some r, some c, some v => fmtM fmtCsc (A.setEntry r c v)
    | _, _, _, _ => "bad-request"
  | "csc.index_to_coord" =>
    match kv.csc "", kv.nat "idx" with
    | some A, some idx => fmtM (fun (p : Nat × Nat) => s!"row={p.1} col={p.2}") (A.indexToCoord idx)
    | _, _ => "bad-request"
  | _ => handleMath ch kv

end C16Driver

def main : IO Unit := runMain C16Driver.handleC16
