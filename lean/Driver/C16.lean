import Driver.CscIO

open Clarabel Driver

def handleC16 (ch : String) (kv : KV) : String :=
  match ch with
  | "csc.check_format" =>
    match kv.csc "" with
    | none => "bad-request"
    | some A => match A.checkFormat with
      | .ok () => "ok"
      | .error e => "err:" ++ e.toString
  | "csc.to_triu" =>
    match kv.csc "" with
    | none => "bad-request"
    | some A => fmtM fmtCsc A.toTriu
  | "csc.is_triu" =>
    match kv.csc "" with
    | none => "bad-request"
    | some A => fmtBool A.isTriu
  | "csc.select_rows" =>
    match kv.csc "", kv.bools "keep" with
    | some A, some keep => fmtM fmtCsc (A.selectRows keep)
    | _, _ => "bad-request"
  | "csc.transpose" =>
    match kv.csc "" with
    | none => "bad-request"
    | some A => fmtCsc A.transpose
  | _ => "unknown-channel"

def main : IO Unit := runMain handleC16
