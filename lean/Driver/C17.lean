import Driver.Common
import ClarabelModel.Chordal.Dsu
import ClarabelModel.Chordal.TriIndex
import ClarabelModel.Chordal.PostOrder
import ClarabelModel.Chordal.SuperNode
import ClarabelModel.Chordal.MergePC
import ClarabelModel.Chordal.MergeCG
import ClarabelModel.Chordal.Valid
import ClarabelModel.Chordal.Filled
import ClarabelModel.Chordal.CGCheck

open Clarabel Clarabel.Chordal Driver

namespace DriverC17

/-- sets travel as `<k>_len=l1,l2,..` and `<k>=` the concatenation -/
def fmtSets (k : String) (s : Array VSet) : String :=
  s!"{k}_len={fmtNats (s.map (·.size))} {k}={fmtNats (s.foldl (· ++ ·) #[])}"

def splitByLens (flat : List Nat) : List Nat → Option (List (Array Nat))
  | [] => if flat.isEmpty then some [] else none
  | l :: ls =>
    if flat.length < l then none else do
      let rest ← splitByLens (flat.drop l) ls
      pure ((flat.take l).toArray :: rest)

def parseSets (kv : KV) (k : String) : Option (Array VSet) := do
  let lens ← kv.nats (k ++ "_len")
  let flat ← kv.nats k
  let l ← splitByLens flat.toList lens.toList
  pure l.toArray

def fmtTree (t : SuperNodeTree) : String :=
  let nb := match t.nblk with
    | none => "hasnblk=0 nblk="
    | some v => s!"hasnblk=1 nblk={fmtNats v}"
  s!"ncl={t.nCliques} {fmtSets "snode" t.snode} {fmtSets "sep" t.separators} par={fmtNats t.snodeParent} {fmtSets "ch" t.snodeChildren} spost={fmtNats t.snodePost} post={fmtNats t.post} {nb}"

def fmtME {β : Type} (f : β → String) : MErr β → String
  | .ok v => f v
  | .error e => fmtErr e

def parseLPat (kv : KV) : Option LPat := do
  let n ← kv.nat "n"
  let colptr ← kv.nats "colptr"
  let rowval ← kv.nats "rowval"
  pure { n, colptr, rowval }

def parseOps (kv : KV) : Option (List Dsu.Op) := do
  let kind ← kv.nats "kind"
  let a ← kv.nats "a"
  let b ← kv.nats "b"
  if kind.size != a.size || kind.size != b.size then none else
  (List.range kind.size).mapM (fun i =>
    match kind.getD i 0 with
    | 0 => some (Dsu.Op.union (a.getD i 0) (b.getD i 0))
    | 1 => some (Dsu.Op.same (a.getD i 0) (b.getD i 0))
    | 2 => some (Dsu.Op.root (a.getD i 0))
    | _ => none)

/-- the pattern edges `(ei[k], ej[k])` of an analysis request (original coordinates) -/
def parseEdges (kv : KV) : Option (List (Nat × Nat)) := do
  let ei ← kv.nats "ei"
  let ej ← kv.nats "ej"
  if ei.size != ej.size then none else pure (ei.toList.zip ej.toList)

/-- channels `analysis` / `analysis.cg`: the model's clique tree and ordering, followed by
    `valid=<0|1>` = the machine-checked validity predicate `validCliqueTreeB` evaluated on the
    MODEL's output for the request's pattern (`n`, `ei`, `ej`).  The second component is a
    diagnostic for stderr: the first failing clause when `valid=0`. -/
def analysis (kv : KV) : String × Option String :=
  match parseLPat kv, kv.nats "ordering", kv.str "merge", parseEdges kv with
  | some L, some ordering, some merge, some edges =>
    match sparsityPatternNewAll L ordering merge with
    | .ok r =>
      -- `validCliqueTreeB L.n edges r.1 r.2 = why.isNone` by definition (evaluated once)
      let why := validCliqueTreeWhy L.n edges r.1 r.2
      (s!"{fmtTree r.1} ordering={fmtNats r.2} valid={fmtBool why.isNone}",
       why.map (fun w => s!"cm_c17: model clique tree INVALID, first failing clause: {w}"))
    | .error e => (fmtErr e, none)
  | _, _, _, _ => ("bad-request", none)

/-- a clique tree in the wire format of `fmtTree` -/
def parseTree (kv : KV) : Option SuperNodeTree := do
  let snode ← parseSets kv "snode"
  let separators ← parseSets kv "sep"
  let snodeParent ← kv.nats "par"
  let snodeChildren ← parseSets kv "ch"
  let snodePost ← kv.nats "spost"
  let post ← kv.nats "post"
  let has ← kv.nat "hasnblk"
  let nb ← kv.nats "nblk"
  let nCliques ← kv.nat "ncl"
  pure { snode, snodePost, snodeParent, snodeChildren, post, separators,
         nblk := if has != 0 then some nb else none, nCliques }

/-- channel `tree.valid`: verdict of `validCliqueTreeB` on a given (typically corrupted) tree;
    second component: the first failing clause, for stderr -/
def treeValid (kv : KV) : String × Option String :=
  match kv.nat "n", parseEdges kv, parseTree kv, kv.nats "ordering" with
  | some n, some edges, some t, some ordering =>
    let why := validCliqueTreeWhy n edges t ordering
    (s!"valid={fmtBool why.isNone}", why.map (fun w => s!"cm_c17: tree.valid: first failing clause: {w}"))
  | _, _, _, _ => ("bad-request", none)

/-- channel `hyp.analysis`: the hypotheses of the pipeline theorems (`C17.analysis_none`,
    `C17.analysis_parent_child`, …) evaluated on the request: `filled` = `LPat.filledB L`
    (⇔ `LPat.Filled`), `perm` = `ordering` is a permutation of `0..n`, `edges` = every pattern
    entry is an entry of `L` at the positions of its endpoints in `ordering`
    (`LPat.edgesInB`) -/
def analysisHyp (kv : KV) : String :=
  match parseLPat kv, kv.nats "ordering", parseEdges kv with
  | some L, some ordering, some edges =>
    s!"filled={fmtBool L.filledB} perm={fmtBool (clOrderingPerm L.n ordering)} edges={fmtBool (L.edgesInB ordering edges)}"
  | _, _, _ => "bad-request"

/-- channel `cg.trace`: the clique-graph strategy pass by pass on the tree of `L`:
    `initialise`, then every pass of the loop of `merge_cliques`.  Per state: the merge candidate
    (`cr`,`cc`; `noParent` when none), `dm` = merged?, `ncl`, `nnz`, `dg` = digest of the whole
    state (edge matrix, `p`, adjacency table, clique sets), `inv` = index of the first failing
    clause of the loop invariant `CGInv` (`0` = holds).  Finally `rip` = the supernodes of the
    tree returned by `merge_cliques` are pairwise disjoint (`cgRipB`) and `ne` = the live ones are
    not empty (`cgNonemptyB`): the two tested hypotheses of
    `C17.analysis_clique_graph_valid_partial` -/
def cgTrace (kv : KV) : String :=
  match parseLPat kv with
  | some L =>
    match SuperNodeTree.new L with
    | .error e => fmtErr e
    | .ok t0 =>
      if t0.nCliques ≤ 1 then s!"steps=0 rip={fmtBool (cgRipB L)} ne={fmtBool (cgNonemptyB L)}" else
      match CGStrategy.mergeTrace t0 with
      | .error e => fmtErr e
      | .ok (_, _, tr) =>
        let N := t0.snode.size
        let cr := tr.map (fun x => match x.cand with | some c => c.1 | none => noParent)
        let cc := tr.map (fun x => match x.cand with | some c => c.2 | none => noParent)
        let dm := tr.map (fun x => x.doMerge)
        let ncl := tr.map (fun x => x.t.nCliques)
        let nnz := tr.map (fun x => x.s.edges.nzval.size)
        let dg := tr.map (fun x => x.digest.toNat)
        let inv := tr.map (fun x =>
          match (cgInvClauses N L.n x.s x.t).findIdx? (fun p => !p.2) with
          | some i => i + 1
          | none => 0)
        s!"steps={tr.size} cr={fmtNats cr} cc={fmtNats cc} dm={fmtBools dm} ncl={fmtNats ncl} nnz={fmtNats nnz} dg={fmtNats dg} inv={fmtNats inv} rip={fmtBool (cgRipB L)} ne={fmtBool (cgNonemptyB L)}"
  | none => "bad-request"

def handle (ch : String) (kv : KV) : String :=
  match ch with
  | "dsu.ops" =>
    match kv.nat "n", parseOps kv with
    | some n, some ops =>
      fmtME (fun (r : Dsu × List (Option Nat)) =>
        let ans : List Int := r.2.map (fun o => match o with | none => (-1 : Int) | some v => Int.ofNat v)
        s!"ans={fmtInts ans.toArray} parents={fmtNats r.1.parents} ranks={fmtNats r.1.ranks}")
        (Dsu.runOps (Dsu.new n) ops)
    | _, _ => "bad-request"
  | "post_order" =>
    match kv.nats "parent", parseSets kv "ch", kv.nat "nc" with
    | some parent, some ch, some nc =>
      fmtME (fun (r : Array Nat × Array VSet) => s!"post={fmtNats r.1} {fmtSets "ch" r.2}")
        (postOrder parent ch nc)
    | _, _, _ => "bad-request"
  | "children_from_parent" =>
    match kv.nats "parent" with
    | some parent => fmtME (fun r => fmtSets "ch" r) (childrenFromParent parent)
    | _ => "bad-request"
  | "tri.batch" =>
    match kv.nat "lo", kv.nat "hi" with
    | some lo, some hi =>
      let ks := List.range' lo (hi - lo)
      let rc := ks.map upperTriangularIndexToCoord
      let small := decide (hi ≤ 2147483648)
      let tn := if small then ks.map triangularNumber else []
      let ti := if small then ks.map triangularIndex else []
      let back := rc.map coordToUpperTriangularIndex
      let backT := rc.map (fun p => coordToUpperTriangularIndex (p.2, p.1))
      s!"tn={fmtNats tn.toArray} ti={fmtNats ti.toArray} row={fmtNats (rc.map (·.1)).toArray} col={fmtNats (rc.map (·.2)).toArray} back={fmtNats back.toArray} backt={fmtNats backT.toArray}"
    | _, _ => "bad-request"
  | "split_cliques" =>
    match parseSets kv "snode", parseSets kv "sep", kv.nats "par", kv.nats "spost", kv.nat "nc" with
    | some sn, some sp, some par, some post, some nc =>
      fmtME (fun (r : Array VSet × Array VSet) => s!"{fmtSets "snode" r.1} {fmtSets "sep" r.2}")
        (splitCliques sn sp par post nc)
    | _, _, _, _, _ => "bad-request"
  | "sntree.new" =>
    match parseLPat kv with
    | some L => fmtME fmtTree (SuperNodeTree.new L)
    | none => "bad-request"
  | "analysis" => (analysis kv).1
  | "analysis.cg" => (analysis kv).1
  | "tree.valid" => (treeValid kv).1
  | "hyp.analysis" => analysisHyp kv
  | "cg.trace" => cgTrace kv
  | _ => "unknown-channel"

end DriverC17

/-- `Driver.loop` plus a stderr diagnostic (the first failing clause) whenever the validity
    checker rejects a tree; stdout is exactly `handle`'s response -/
partial def DriverC17.loopLog (h out err : IO.FS.Stream) : IO Unit := do
  let line ← h.getLine
  if line.isEmpty then return ()
  let (ch, kv) := parseLine line
  if ch == "" then
    out.putStrLn "empty"
  else
    if ch == "analysis" || ch == "analysis.cg" || ch == "tree.valid" then
      let r := if ch == "tree.valid" then DriverC17.treeValid kv else DriverC17.analysis kv
      out.putStrLn r.1
      match r.2 with
      | some msg => err.putStrLn msg
      | none => pure ()
    else
      out.putStrLn (DriverC17.handle ch kv)
  DriverC17.loopLog h out err

def main : IO Unit := do
  let stdin ← IO.getStdin
  let stdout ← IO.getStdout
  let stderr ← IO.getStderr
  DriverC17.loopLog stdin stdout stderr
  stdout.flush

