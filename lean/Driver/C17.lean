import Driver.Common
import ClarabelModel.Chordal.Dsu
import ClarabelModel.Chordal.TriIndex
import ClarabelModel.Chordal.PostOrder
import ClarabelModel.Chordal.SuperNode
import ClarabelModel.Chordal.MergePC
import ClarabelModel.Chordal.MergeCG

open Clarabel Clarabel.Chordal Driver

namespace DriverC17

/-- sets travel as `<k>_len=l1,l2,..` and `<k>=` the concatenation -/
def fmtSets (k : String) (s : Array VSet) : String :=
  s!"{k}_len={fmtNats (s.map (·.size))} {k}={fmtNats (s.foldl (· ++ ·) #[])}"

def splitByLens (flat : List Nat) : List Nat → Option (List (Array Nat))
  | [] => if flat.isEmpty then some [] else none
  | l :: ls =>
    if flat.length < l then none else do
      let rest ← splitByLens (flat.drop l) ls
      pure ((flat.take l).toArray :: rest)

def parseSets (kv : KV) (k : String) : Option (Array VSet) := do
  let lens ← kv.nats (k ++ "_len")
  let flat ← kv.nats k
  let l ← splitByLens flat.toList lens.toList
  pure l.toArray

def fmtTree (t : SuperNodeTree) : String :=
  let nb := match t.nblk with
    | none => "hasnblk=0 nblk="
    | some v => s!"hasnblk=1 nblk={fmtNats v}"
  s!"ncl={t.nCliques} {fmtSets "snode" t.snode} {fmtSets "sep" t.separators} par={fmtNats t.snodeParent} {fmtSets "ch" t.snodeChildren} spost={fmtNats t.snodePost} post={fmtNats t.post} {nb}"

def fmtME {β : Type} (f : β → String) : MErr β → String
  | .ok v => f v
  | .error e => fmtErr e

def parseLPat (kv : KV) : Option LPat := do
  let n ← kv.nat "n"
  let colptr ← kv.nats "colptr"
  let rowval ← kv.nats "rowval"
  pure { n, colptr, rowval }

def parseOps (kv : KV) : Option (List Dsu.Op) := do
  let kind ← kv.nats "kind"
  let a ← kv.nats "a"
  let b ← kv.nats "b"
  if kind.size != a.size || kind.size != b.size then none else
  (List.range kind.size).mapM (fun i =>
    match kind.getD i 0 with
    | 0 => some (Dsu.Op.union (a.getD i 0) (b.getD i 0))
    | 1 => some (Dsu.Op.same (a.getD i 0) (b.getD i 0))
    | 2 => some (Dsu.Op.root (a.getD i 0))
    | _ => none)

def handle (ch : String) (kv : KV) : String :=
  match ch with
  | "dsu.ops" =>
    match kv.nat "n", parseOps kv with
    | some n, some ops =>
      fmtME (fun (r : Dsu × List (Option Nat)) =>
        let ans : List Int := r.2.map (fun o => match o with | none => (-1 : Int) | some v => Int.ofNat v)
        s!"ans={fmtInts ans.toArray} parents={fmtNats r.1.parents} ranks={fmtNats r.1.ranks}")
        (Dsu.runOps (Dsu.new n) ops)
    | _, _ => "bad-request"
  | "post_order" =>
    match kv.nats "parent", parseSets kv "ch", kv.nat "nc" with
    | some parent, some ch, some nc =>
      fmtME (fun (r : Array Nat × Array VSet) => s!"post={fmtNats r.1} {fmtSets "ch" r.2}")
        (postOrder parent ch nc)
    | _, _, _ => "bad-request"
  | "children_from_parent" =>
    match kv.nats "parent" with
    | some parent => fmtME (fun r => fmtSets "ch" r) (childrenFromParent parent)
    | _ => "bad-request"
  | "tri.batch" =>
    match kv.nat "lo", kv.nat "hi" with
    | some lo, some hi =>
      let ks := List.range' lo (hi - lo)
      let rc := ks.map upperTriangularIndexToCoord
      let small := decide (hi ≤ 2147483648)
      let tn := if small then ks.map triangularNumber else []
      let ti := if small then ks.map triangularIndex else []
      let back := rc.map coordToUpperTriangularIndex
      let backT := rc.map (fun p => coordToUpperTriangularIndex (p.2, p.1))
      s!"tn={fmtNats tn.toArray} ti={fmtNats ti.toArray} row={fmtNats (rc.map (·.1)).toArray} col={fmtNats (rc.map (·.2)).toArray} back={fmtNats back.toArray} backt={fmtNats backT.toArray}"
    | _, _ => "bad-request"
  | "split_cliques" =>
    match parseSets kv "snode", parseSets kv "sep", kv.nats "par", kv.nats "spost", kv.nat "nc" with
    | some sn, some sp, some par, some post, some nc =>
      fmtME (fun (r : Array VSet × Array VSet) => s!"{fmtSets "snode" r.1} {fmtSets "sep" r.2}")
        (splitCliques sn sp par post nc)
    | _, _, _, _, _ => "bad-request"
  | "sntree.new" =>
    match parseLPat kv with
    | some L => fmtME fmtTree (SuperNodeTree.new L)
    | none => "bad-request"
  | "analysis" =>
    match parseLPat kv, kv.nats "ordering", kv.str "merge" with
    | some L, some ordering, some merge =>
      fmtME (fun (r : SuperNodeTree × Array Nat) => s!"{fmtTree r.1} ordering={fmtNats r.2}")
        (sparsityPatternNewAll L ordering merge)
    | _, _, _ => "bad-request"
  | "analysis.cg" =>
    match parseLPat kv, kv.nats "ordering", kv.str "merge" with
    | some L, some ordering, some merge =>
      fmtME (fun (r : SuperNodeTree × Array Nat) => s!"{fmtTree r.1} ordering={fmtNats r.2}")
        (sparsityPatternNewAll L ordering merge)
    | _, _, _ => "bad-request"
  | _ => "unknown-channel"

end DriverC17

def main : IO Unit := runMain DriverC17.handle
