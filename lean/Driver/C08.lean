import Driver.CscIO
import Driver.C08Solve
import ClarabelModel.Update
import ClarabelModel.SolverUpdate

open Clarabel Driver Clarabel.Update

namespace C08Driver

def parseFloats (s : String) : Option (Array Float) := do
  let xs ← (splitList s).mapM parseFloat
  pure xs.toArray

def parseNats (s : String) : Option (Array Nat) := do
  let xs ← (splitList s).mapM String.toNat?
  pure xs.toArray

/-- `e` | `s:<floats>` | `p:<idx>:<vals>` -/
def parseVecArg (s : String) : Option (VecArg Float) :=
  match s.splitOn ":" with
  | ["e"] => some .empty0
  | ["s", v] => do pure (.slice (← parseFloats v))
  | ["p", i, v] => do pure (.pairs (← parseNats i) (← parseFloats v))
  | _ => none

/-- `e` | `s:<floats>` | `m:<m>:<n>:<colptr>:<rowval>:<nzval>` | `p:<idx>:<vals>` -/
def parseMatArg (s : String) : Option (MatArg Float) :=
  match s.splitOn ":" with
  | ["e"] => some .empty0
  | ["s", v] => do pure (.slice (← parseFloats v))
  | ["p", i, v] => do pure (.pairs (← parseNats i) (← parseFloats v))
  | ["m", m, n, cp, rv, nz] => do
    pure (.matrix { m := ← m.toNat?, n := ← n.toNat?, colptr := ← parseNats cp,
                    rowval := ← parseNats rv, nzval := ← parseFloats nz })
  | _ => none

def dropPrefix (s : String) (n : Nat) : String := String.ofList (s.toList.drop n)

def parseOp (s : String) : Option (Op Float) :=
  if s == "S1" then some (.solve true)
  else if s == "S0" then some (.solve false)
  else if s == "N" then some .norms
  else if s.startsWith "P:" then (parseMatArg (dropPrefix s 2)).map .updateP
  else if s.startsWith "A:" then (parseMatArg (dropPrefix s 2)).map .updateA
  else if s.startsWith "Q:" then (parseVecArg (dropPrefix s 2)).map .updateQ
  else if s.startsWith "B:" then (parseVecArg (dropPrefix s 2)).map .updateB
  else if s.startsWith "D:" then
    match (dropPrefix s 2).splitOn ";" with
    | [p, q, a, b] => do
      pure (.updateData (← parseMatArg p) (← parseVecArg q) (← parseMatArg a) (← parseVecArg b))
    | _ => none
  else none

/-- operations of channel `upd.solve` (whole solver object): the update forms of `parseOp`, and
`S` for a `solve()` -/
def parseUOp (s : String) : Option (Clarabel.Solver.UOp Float) :=
  if s == "S" then some .solve
  else if s.startsWith "P:" then (parseMatArg (dropPrefix s 2)).map .updateP
  else if s.startsWith "A:" then (parseMatArg (dropPrefix s 2)).map .updateA
  else if s.startsWith "Q:" then (parseVecArg (dropPrefix s 2)).map .updateQ
  else if s.startsWith "B:" then (parseVecArg (dropPrefix s 2)).map .updateB
  else if s.startsWith "D:" then
    match (dropPrefix s 2).splitOn ";" with
    | [p, q, a, b] => do
      pure (.updateData (← parseMatArg p) (← parseVecArg q) (← parseMatArg a) (← parseVecArg b))
    | _ => none
  else none

def parseOptFloat (kv : KV) (k : String) : Option (Option Float) := do
  let s ← kv.get? k
  if s == "none" then pure none else do pure (some (← parseFloat s))

def parseState (kv : KV) : Option (State Float) := do
  let P ← kv.csc "P"
  let A ← kv.csc "A"
  pure {
    P := P, q := ← kv.floats "q", A := A, b := ← kv.floats "b",
    d := ← kv.floats "d", dinv := ← kv.floats "dinv",
    e := ← kv.floats "e", einv := ← kv.floats "einv", c := ← kv.float "c",
    normq := ← parseOptFloat kv "normq", normb := ← parseOptFloat kv "normb",
    presolved := (← kv.nat "presolved") != 0, decomposed := (← kv.nat "decomposed") != 0,
    kkt := ← kv.floats "kkt", mapP := ← kv.nats "mapP", mapA := ← kv.nats "mapA",
    diagFull := ← kv.nats "diag", ldl := ← kv.floats "ldl", atoPAPt := ← kv.nats "atop",
    ldlDiagShifted := (← kv.nat "shifted") != 0 }

def fmtOpt : Option Float → String
  | none => "none"
  | some v => fmtFloat v

def fmtRes : Res → String
  | .ok () => "ok"
  | .error e => e.toString

/-- the observed part of a state (same selection as the harness) -/
def render (i : Nat) (st : State Float) (r : Res) : String :=
  let pick (arr : Array Float) (ix : Array Nat) : Array Float := ix.map (fun j => arr.getD j 0)
  let ldlAt (ix : Array Nat) : Array Float := ix.map (fun j => st.ldl.getD (st.atoPAPt.getD j 0) 0)
  let isDiag (j : Nat) : Bool := st.diagFull.contains j
  let pOff := st.mapP.filter (fun j => !isDiag j)
  let pDiag := st.mapP.filter isDiag
  let lpd := if st.ldlDiagShifted then "shifted" else fmtFloats (ldlAt pDiag)
  s!"r{i}={fmtRes r} P{i}={fmtFloats st.P.nzval} q{i}={fmtFloats st.q} A{i}={fmtFloats st.A.nzval} " ++
  s!"b{i}={fmtFloats st.b} nq{i}={fmtOpt st.normq} nb{i}={fmtOpt st.normb} " ++
  s!"kP{i}={fmtFloats (pick st.kkt st.mapP)} kA{i}={fmtFloats (pick st.kkt st.mapA)} " ++
  s!"lPo{i}={fmtFloats (ldlAt pOff)} lPd{i}={lpd} lA{i}={fmtFloats (ldlAt st.mapA)}"

def runSeq (st : State Float) (ops : List (Op Float)) : String := Id.run do
  let mut s := st
  let mut out : List String := []
  let mut i := 0
  for op in ops do
    match stepChecked s op with
    | .error e => return fmtErr e
    | .ok (s', r) =>
      s := s'
      out := render i s' r :: out
      i := i + 1
  return " ".intercalate out.reverse

def handle (ch : String) (kv : KV) : String :=
  match ch with
  | "upd.seq" =>
    match parseState kv, kv.nat "nops" with
    | some st, some n =>
      match (List.range n).mapM (fun i => (kv.get? s!"op{i}").bind parseOp) with
      | some ops => runSeq st ops
      | none => "bad-request"
    | _, _ => "bad-request"
  | "upd.solve" =>
    C08Solve.handleSolve kv ((kv.nat "nops").bind (fun n =>
      (List.range n).mapM (fun i => (kv.get? s!"op{i}").bind parseUOp)))
  | "upd.index_to_coord" =>
    match kv.nats "colptr", kv.nats "rowval", kv.nat "k" with
    | some cp, some rv, some k =>
      if k < rv.size then s!"row={rv.getD k 0} col={colOf cp k}" else "panic:index_to_coord"
    | _, _, _ => "bad-request"
  | _ => "unknown-channel"

end C08Driver

def main : IO Unit := runMain C08Driver.handle
