/-
  C08, channel `upd.solve`: a history of `update_P / update_q / update_A / update_b / update_data`
  interleaved with `solve()` on the WHOLE solver object (`ClarabelModel/SolverUpdate.lean`:
  `Solver.new` then `Solver.runU`), run at `Float`.

  Request: the problem `P* q A* b cones`, the ordering `perm`, every setting (same keys as
  `Driver/Solver.lean`), `nops`, `op0 … op{k-1}` (parsed in `Driver/C08.lean`, which owns the
  argument-form parsers).

  Response: per operation `r{i}=<Result>` (update) or the whole record of the solve — every token
  of `fmtFull` with its key prefixed by `s{i}.` —, then the state data updating touches:
  `P q A b` (internal values), `nq nb` (what `get_normq()/get_normb()` answer now), `kP kA` (KKT
  values at `map.P / map.A`), `lPo lA` (QDLDL's permuted copy at the off-diagonal `map.P`
  positions and at `map.A`).

  `parseSettings … fmtFull` are copies of the definitions of `Driver/Solver.lean` (that file
  defines `main` and cannot be imported).
-/
import Driver.CscIO
import Driver.ConeIO
import ClarabelModel.SolverUpdate

open Clarabel Driver Clarabel.Solver

namespace C08Solve

def mkTols (xs : Array Float) : Option (Info.Tols Float) :=
  if xs.size != 6 then none else
  some { gap_abs := xs[0]!, gap_rel := xs[1]!, feas := xs[2]!, infeas_abs := xs[3]!,
         infeas_rel := xs[4]!, ktratio := xs[5]! }

def parseSettings (kv : KV) : Option (Settings Float) := do
  let maxiter ← kv.nat "maxiter"
  let full ← (kv.floats "tols") >>= mkTols
  let reduced ← (kv.floats "rtols") >>= mkTols
  let msf ← kv.float "msf"
  let minterm ← kv.float "minterm"
  let eq ← kv.nat "eq"
  let eqit ← kv.nat "eqit"
  let eqmin ← kv.float "eqmin"
  let eqmax ← kv.float "eqmax"
  let sreg ← kv.nat "sreg"
  let sregc ← kv.float "sregc"
  let sregp ← kv.float "sregp"
  let dyneps ← kv.float "dyneps"
  let dyndelta ← kv.float "dyndelta"
  let ir ← kv.nat "ir"
  let irrel ← kv.float "irrel"
  let irabs ← kv.float "irabs"
  let irit ← kv.nat "irit"
  let irstop ← kv.float "irstop"
  let presolve ← kv.nat "presolve"
  let inf ← kv.float "inf"
  let maxval ← kv.float "maxval"
  pure {
    info := { full, reduced, max_iter := maxiter }
    maxStepFraction := msf
    minTerminateStepLength := minterm
    equil := { enable := eq != 0, maxIter := eqit, minScaling := eqmin, maxScaling := eqmax }
    lin := { staticRegEnable := sreg != 0, staticRegConstant := sregc, staticRegProportional := sregp,
             dynRegEps := dyneps, dynRegDelta := dyndelta, irEnable := ir != 0, irReltol := irrel,
             irAbstol := irabs, irMaxIter := irit, irStopRatio := irstop }
    presolveEnable := presolve != 0
    infbound := inf
    maxValue := maxval }

structure Request where
  P : Csc Float
  q : Array Float
  A : Csc Float
  b : Array Float
  cones : List (ConeT Float)
  perm : Array Nat
  st : Settings Float

def parseRequest (kv : KV) : Option Request := do
  let P ← kv.csc "P"
  let q ← kv.floats "q"
  let A ← kv.csc "A"
  let b ← kv.floats "b"
  let cones ← kv.cones "cones"
  let perm ← kv.nats "perm"
  let st ← parseSettings kv
  pure { P, q, A, b, cones, perm, st }

def fmtOptF : Option Float → String
  | some v => fmtFloat v
  | none => "xnan"

def cat (xs : List (Array Float)) : Array Float := xs.foldl (· ++ ·) #[]

def optList {β : Type} (xs : List (Option β)) : List β := xs.filterMap id

def fmtFull (r : SolveResult Float) (perm : Array Nat) : String :=
  let t := r.traj
  let fl (f : PassRec Float → Float) : String := fmtFloats (t.map f).toArray
  let sol := r.S.solution
  -- an insufficient-progress verdict of `check_termination` rolls the iterate back by one pass
  let rb : Nat := match t.getLast? with
    | some l => if l.isdone && l.status == .insufficientProgress then 1 else 0
    | none => 0
  s!"np={t.length} px={fmtFloats (cat (t.map (·.vars.x)))} ps={fmtFloats (cat (t.map (·.vars.s)))} " ++
  s!"pz={fmtFloats (cat (t.map (·.vars.z)))} ptau={fl (·.vars.τ)} pkap={fl (·.vars.κ)} " ++
  s!"pmu={fl (·.mu)} psig={fl (·.sigma)} pstep={fl (·.stepLength)} " ++
  s!"pit={fmtNats (t.map (·.info.iterations)).toArray} " ++
  s!"pcp={fl (·.info.cost_primal)} pcd={fl (·.info.cost_dual)} prp={fl (·.info.res_primal)} " ++
  s!"prd={fl (·.info.res_dual)} prpi={fl (·.info.res_primal_inf)} prdi={fl (·.info.res_dual_inf)} " ++
  s!"pga={fl (·.info.gap_abs)} pgr={fl (·.info.gap_rel)} pkt={fl (·.info.ktratio)} " ++
  s!"pdbz={fl (·.dotBz)} pdqx={fl (·.dotQx)} " ++
  s!"pdone={fmtBools (t.map (·.isdone)).toArray} pst={fmtNats (t.map (·.status.toNat)).toArray} " ++
  s!"pss={fmtBools (optList (t.map (·.scalingSuccess))).toArray} " ++
  s!"pks={fmtBools (optList (t.map (·.kktSuccess))).toArray} " ++
  s!"aaff={fmtFloats (optList (t.map (·.alphaAff))).toArray} " ++
  s!"sig={fmtFloats (optList (t.map (·.sigmaNew))).toArray} " ++
  s!"alpha={fmtFloats (optList (t.map (·.alpha))).toArray} " ++
  s!"status={sol.status.toNat} iterations={sol.iterations} " ++
  s!"x={fmtFloats sol.x} s={fmtFloats sol.s} z={fmtFloats sol.z} " ++
  s!"obj={fmtOptF sol.obj_val} objd={fmtOptF sol.obj_val_dual} rp={fmtOptF sol.r_prim} rd={fmtOptF sol.r_dual} " ++
  s!"imu={fmtFloat r.S.st.infoMu} isig={fmtFloat r.S.st.infoSigma} istep={fmtFloat r.S.st.infoStepLength} " ++
  s!"perm={fmtNats perm} prov={rb} rb={rb}"

/-- same strings as `C08Driver.fmtRes` / the harness's `res_str` -/
def fmtRes : Update.Res → String
  | .ok () => "ok"
  | .error e => e.toString

/-- every `key=value` token of a solve record with its key prefixed by `s{i}.` -/
def prefixTokens (i : Nat) (rec : String) : List String :=
  ((rec.splitOn " ").filter (· != "")).map (fun t => s!"s{i}." ++ t)

/-- the state data updating touches, at the end of a history -/
def fmtState (S : Solver Float) : MErr String := do
  let d := S.st.data
  let eq := d.equilibration
  let K := S.st.kktsystem.kktsolver
  let nq ← Info.getNormq d.normq d.q eq.dinv eq.c
  let nb ← Info.getNormb d.normb d.b eq.einv
  let pick (ix : Array Nat) : Array Float := ix.map (fun j => K.KKT.nzval.getD j 0)
  let ldlAt (ix : Array Nat) : Array Float :=
    ix.map (fun j => K.ldl.triuA.nzval.getD (K.ldl.AtoPAPt.getD j 0) 0)
  let isDiag (j : Nat) : Bool := K.map.diag_full.contains j
  let pOff := K.map.P.filter (fun j => !isDiag j)
  pure (s!"P={fmtFloats d.P.nzval} q={fmtFloats d.q} A={fmtFloats d.A.nzval} b={fmtFloats d.b} " ++
    s!"nq={fmtFloat nq} nb={fmtFloat nb} kP={fmtFloats (pick K.map.P)} kA={fmtFloats (pick K.map.A)} " ++
    s!"lPo={fmtFloats (ldlAt pOff)} lA={fmtFloats (ldlAt K.map.A)}")

/-- `DefaultSolver::new`, then the history -/
def runHistory (r : Request) (ops : List (UOp Float)) : MErr String := do
  let S ← Solver.new r.P r.q r.A r.b r.cones r.st r.perm
  let res ← Solver.runU r.st S ops
  let toks : List String := (res.2.zipIdx.map (fun p =>
    match p.1 with
    | .res x => [s!"r{p.2}={fmtRes x}"]
    | .solved sr => prefixTokens p.2 (fmtFull sr r.perm))).flatten
  let fin ← fmtState res.1
  pure (" ".intercalate (toks ++ [fin]))

def handleSolve (kv : KV) (ops : Option (List (UOp Float))) : String :=
  match parseRequest kv, ops with
  | some r, some ops => fmtME id (runHistory r ops)
  | _, _ => "bad-request"

end C08Solve
