import Driver.Common
import ClarabelModel.Cones.Composite
import ClarabelModel.Cones.Exp
import ClarabelModel.Cones.Pow
import ClarabelModel.Cones.GenPow
import ClarabelModel.Cones.PsdStep
import ClarabelModel.Cones.PsdBarrier

open Clarabel Driver

namespace DriverC15

def fmtM {β : Type} (f : β → String) : MErr β → String
  | .ok v => f v
  | .error e => String.ofList ((fmtErr e).toList.map (fun c => if c == ' ' then '_' else c))

def fv (k : String) (v : Array Float) : String := k ++ "=" ++ fmtFloats v
def fpair (r : Float × Float) : String := s!"az={fmtFloat r.1} as={fmtFloat r.2}"

/-- `f64::INFINITY` / `f64::MAX` for `none` -/
def inf : Float := 1.0 / 0.0
def maxValue : Float := Float.ofBits 0x7FEFFFFFFFFFFFFF

def fmtMargins (noneAs : Float) (r : Option Float × Float) : String :=
  s!"a={fmtFloat (r.1.getD noneAs)} b={fmtFloat r.2}"

def specOf (k n : Nat) : Option Composite.Spec :=
  match k with
  | 0 => some (.zero n)
  | 1 => some (.nonneg n)
  | 2 => some (.soc n)
  | 4 => some (.psd n)
  | _ => none

def specs (kv : KV) : Option (List Composite.Spec) := do
  let ks ← kv.nats "kinds"
  let ds ← kv.nats "dims"
  if ks.size ≠ ds.size then none
  (ks.toList.zip ds.toList).mapM (fun p => specOf p.1 p.2)

/-- split a `2`-terminated flat list of accept flags into one sequence per cone -/
def splitSeqs (xs : List Nat) : List (List Bool) :=
  let rec go : List Nat → List Bool → List (List Bool)
    | [], _ => []
    | 2 :: rest, cur => cur.reverse :: go rest []
    | x :: rest, cur => go rest ((x != 0) :: cur)
  go xs []

def seqPred (sq : List Bool) : Nat → Array Float → Bool := fun k _ => sq.getD k false

/-- builds the per-cone step-length functions of a composite request -/
def coneFns (kv : KV) : Option (List (Composite.ConeFn Float)) := do
  let ks ← kv.nats "kinds"
  let ds ← kv.nats "dims"
  let z ← kv.floats "z"
  let s ← kv.floats "s"
  let dz ← kv.floats "dz"
  let dsv ← kv.floats "ds"
  let bstep ← kv.float "bstep"
  let bamin ← kv.float "bamin"
  let sz := splitSeqs (← kv.nats "nsz").toList
  let ss := splitSeqs (← kv.nats "nss").toList
  if ks.size ≠ ds.size then none
  let rec go : List (Nat × Nat) → Nat → Nat → Option (List (Composite.ConeFn Float))
    | [], _, _ => some []
    | (k, n) :: rest, start, ins => do
      let zi := z.extract start (start + n)
      let si := s.extract start (start + n)
      let dzi := dz.extract start (start + n)
      let dsi := dsv.extract start (start + n)
      if zi.size ≠ n ∨ si.size ≠ n ∨ dzi.size ≠ n ∨ dsi.size ≠ n then none
      match k with
      | 0 => do
        let tl ← go rest (start + n) ins
        pure (⟨true, fun a => pure (Zero.stepLength a)⟩ :: tl)
      | 1 => do
        let tl ← go rest (start + n) ins
        pure (⟨true, fun a => Nonneg.stepLength dzi dsi zi si a⟩ :: tl)
      | 2 => do
        let tl ← go rest (start + n) ins
        pure (⟨true, fun a => Soc.stepLength dzi dsi zi si a⟩ :: tl)
      | 3 => do
        -- nonsymmetric 3-d cone: two back-tracking searches driven by the recorded answers
        let qz := sz.getD ins []
        let qs := ss.getD ins []
        let tl ← go rest (start + n) (ins + 1)
        pure (⟨false, fun a => do
          let rz ← Backtrack.backtrackSearch dzi zi a bamin bstep (seqPred qz) 3 (qz.length + 1)
          let rs ← Backtrack.backtrackSearch dsi si a bamin bstep (seqPred qs) 3 (qs.length + 1)
          pure (rz.1, rs.1)⟩ :: tl)
      | _ => none
  go (ks.toList.zip ds.toList) 0 0


/-- fuel for the nonsymmetric cones' `backtrack_search` (exhaustion is reported) -/
def btFuel : Nat := 200000

def v3? (kv : KV) (k : String) : Option (V3 Float) := do
  let a ← kv.floats k
  Nonsym.v3ofArray? a

/-- `γ` with its LAPACK status flag (`0` = `eigvals` failed) -/
def gammaOf (ok : Nat) (g : Float) : Option Float := if ok == 0 then none else some g

/-- one eigenvalue entry per cone from the flat encoding (`neig[k]` entries for cone `k`;
`eok[k] = 0` marks a LAPACK failure); non-PSD cones get `none` (ignored by the model) -/
def eigEntries (ks : Array Nat) (neig eok : Array Nat) (eigs : Array Float) :
    List (Option (Array Float)) :=
  let rec go : List (Nat × Nat × Nat) → Nat → List (Option (Array Float))
    | [], _ => []
    | (k, n, ok) :: rest, start =>
      (if k == 4 && ok != 0 then some (eigs.extract start (start + n)) else none) :: go rest (start + n)
  go (ks.toList.zip (neig.toList.zip eok.toList)) 0

/-- per-cone step-length functions of a `composite.step_length_full` request: every cone runs
its own model (`Exp/Pow/GenPow.stepLength` with the model's feasibility predicates; PSD with
the recorded LAPACK eigenvalues) -/
def coneFnsFull (kv : KV) : Option (List (Composite.ConeFn Float)) := do
  let ks ← kv.nats "kinds"
  let ds ← kv.nats "dims"
  let z ← kv.floats "z"
  let s ← kv.floats "s"
  let dz ← kv.floats "dz"
  let dsv ← kv.floats "ds"
  let bstep ← kv.float "bstep"
  let bamin ← kv.float "bamin"
  let alphas ← kv.floats "alphas"
  let gpal ← kv.floats "gpal"
  let gpd1 ← kv.nats "gpd1"
  let pg ← kv.floats "psdg"
  let pok ← kv.nats "psdok"
  if ks.size ≠ ds.size then none
  let rec go : List (Nat × Nat) → Nat → Nat → Nat → Nat → Nat → Option (List (Composite.ConeFn Float))
    | [], _, _, _, _, _ => some []
    | (k, n) :: rest, start, ia, ig, iga, ip => do
      let len := if k == 4 then PsdIndex.triangularNumber n else n
      let zi := z.extract start (start + len)
      let si := s.extract start (start + len)
      let dzi := dz.extract start (start + len)
      let dsi := dsv.extract start (start + len)
      if zi.size ≠ len ∨ si.size ≠ len ∨ dzi.size ≠ len ∨ dsi.size ≠ len then none
      match k with
      | 0 => do
        let tl ← go rest (start + len) ia ig iga ip
        pure (⟨true, fun a => pure (Zero.stepLength a)⟩ :: tl)
      | 1 => do
        let tl ← go rest (start + len) ia ig iga ip
        pure (⟨true, fun a => Nonneg.stepLength dzi dsi zi si a⟩ :: tl)
      | 2 => do
        let tl ← go rest (start + len) ia ig iga ip
        pure (⟨true, fun a => Soc.stepLength dzi dsi zi si a⟩ :: tl)
      | 3 => do
        let al ← alphas[ia]?
        let z3 ← Nonsym.v3ofArray? zi
        let s3 ← Nonsym.v3ofArray? si
        let dz3 ← Nonsym.v3ofArray? dzi
        let ds3 ← Nonsym.v3ofArray? dsi
        let tl ← go rest (start + len) (ia + 1) ig iga ip
        pure (⟨false, fun a =>
          if al < 0 then Exp.stepLength dz3 ds3 z3 s3 bstep bamin a btFuel
          else Pow.stepLength al dz3 ds3 z3 s3 bstep bamin a btFuel⟩ :: tl)
      | 4 => do
        let gz ← pg[2 * ip]?
        let gs ← pg[2 * ip + 1]?
        let okz ← pok[2 * ip]?
        let oks ← pok[2 * ip + 1]?
        let tl ← go rest (start + len) ia ig iga (ip + 1)
        pure (⟨true, fun a => pure (PsdStep.stepLengthPsdComponent dzi (gammaOf okz gz) a,
                                    PsdStep.stepLengthPsdComponent dsi (gammaOf oks gs) a)⟩ :: tl)
      | 5 => do
        let d1 ← gpd1[ig]?
        let al := gpal.extract iga (iga + d1)
        if al.size ≠ d1 then none
        let tl ← go rest (start + len) ia (ig + 1) (iga + d1) ip
        pure (⟨false, fun a => GenPow.stepLength al dzi dsi zi si bstep bamin a btFuel⟩ :: tl)
      | _ => none
  go (ks.toList.zip ds.toList) 0 0 0 0 0

def eigsOf (kv : KV) : Option (List (Option (Array Float))) := do
  let ks ← kv.nats "kinds"
  let neig ← kv.nats "neig"
  let eok ← kv.nats "eok"
  let e ← kv.floats "eigs"
  if neig.size ≠ ks.size ∨ eok.size ≠ ks.size then none
  pure (eigEntries ks neig eok e)

def handle2 (ch : String) (kv : KV) : String :=
  match ch with
  | "nonsym.step_length" =>
    match v3? kv "z", v3? kv "s", v3? kv "dz", v3? kv "ds", kv.float "bstep", kv.float "bamin",
          kv.float "amax", kv.float "alpha" with
    | some z, some s, some dz, some ds, some step, some amin, some amax, some al =>
      fmtM fpair (if al < 0 then Exp.stepLength dz ds z s step amin amax btFuel
                  else Pow.stepLength al dz ds z s step amin amax btFuel)
    | _, _, _, _, _, _, _, _ => "bad-request"
  | "genpow.step_length" =>
    match kv.floats "al", kv.floats "z", kv.floats "s", kv.floats "dz", kv.floats "ds",
          kv.float "bstep", kv.float "bamin", kv.float "amax" with
    | some al, some z, some s, some dz, some ds, some step, some amin, some amax =>
      fmtM fpair (GenPow.stepLength al dz ds z s step amin amax btFuel)
    | _, _, _, _, _, _, _, _ => "bad-request"
  | "psd.step_length_component" =>
    match kv.floats "d", kv.float "gamma", kv.nat "gok", kv.float "amax" with
    | some d, some g, some ok, some a =>
      s!"a={fmtFloat (PsdStep.stepLengthPsdComponent d (gammaOf ok g) a)}"
    | _, _, _, _ => "bad-request"
  | "psd.scaled_direction" =>
    match kv.nat "n", kv.floats "d", kv.floats "lisqrt" with
    | some n, some d, some l => fv "m" (PsdStep.scaledDirData n d l)
    | _, _, _ => "bad-request"
  | "psd.margins" =>
    match kv.floats "z", kv.floats "eigs", kv.nat "eok" with
    | some z, some e, some ok =>
      fmtM (fmtMargins maxValue) (PsdStep.margins z (if ok == 0 then none else some e))
    | _, _, _ => "bad-request"
  | "psd.step_length" =>
    match kv.nat "n", kv.floats "R", kv.floats "Rinv", kv.floats "dz", kv.floats "ds",
          kv.float "gz", kv.float "gs", kv.nat "gzok", kv.nat "gsok", kv.float "amax", kv.nat "usok" with
    | some n, some R, some Ri, some dz, some ds, some gz, some gs, some okz, some oks, some a, some us =>
      if us == 0 then "update_scaling=false"
      else
        let K : PsdTri.Cone Float := ⟨n, #[], #[], R, Ri, #[]⟩
        fmtM fpair (PsdStep.stepLength K dz ds (gammaOf okz gz) (gammaOf oks gs) a)
    | _, _, _, _, _, _, _, _, _, _, _ => "bad-request"
  | "psd.barrier_matrix" =>
    match kv.nat "n", kv.floats "x", kv.floats "dx", kv.float "a" with
    | some n, some x, some dx, some a => fv "m" (PsdBarrier.barrierMatData n x dx a)
    | _, _, _, _ => "bad-request"
  | "psd.logdet_barrier" =>
    match kv.nat "n", kv.floats "x", kv.floats "dx", kv.float "a", kv.nat "ok", kv.floats "L" with
    | some n, some x, some dx, some a, some ok, some L =>
      fmtM (fun v => s!"v={fmtFloat v}")
        (PsdBarrier.logdetBarrier n x dx a (if ok == 0 then none else some L))
    | _, _, _, _, _, _ => "bad-request"
  | "psd.compute_barrier" =>
    match kv.nat "n", kv.floats "z", kv.floats "s", kv.floats "dz", kv.floats "ds", kv.float "a",
          kv.nat "okz", kv.floats "Lz", kv.nat "oks", kv.floats "Ls" with
    | some n, some z, some s, some dz, some ds, some a, some okz, some Lz, some oks, some Ls =>
      fmtM (fun v => s!"v={fmtFloat v}")
        (PsdBarrier.computeBarrier n z s dz ds a (if okz == 0 then none else some Lz)
          (if oks == 0 then none else some Ls))
    | _, _, _, _, _, _, _, _, _, _ => "bad-request"
  | "psdcomp.margins" =>
    match specs kv, kv.floats "z", eigsOf kv with
    | some sp, some z, some e => fmtM (fmtMargins maxValue) (Composite.marginsE sp z e)
    | _, _, _ => "bad-request"
  | "psdcomp.shift_to_cone_interior" =>
    match specs kv, kv.floats "z", kv.nat "primal", eigsOf kv with
    | some sp, some z, some p, some e => fmtM (fv "z") (Composite.shiftToConeInteriorE sp z (p != 0) e)
    | _, _, _, _ => "bad-request"
  | "composite.step_length_full" =>
    match coneFnsFull kv, kv.float "msf", kv.float "amax" with
    | some fns, some msf, some a => fmtM fpair (Composite.stepLength fns msf a)
    | _, _, _ => "bad-request"
  | _ => "unknown-channel"

def handle (ch : String) (kv : KV) : String :=
  match ch with
  | "nn.step_length" =>
    match kv.floats "dz", kv.floats "ds", kv.floats "z", kv.floats "s", kv.float "amax" with
    | some dz, some ds, some z, some s, some a => fmtM fpair (Nonneg.stepLength dz ds z s a)
    | _, _, _, _, _ => "bad-request"
  | "soc.step_length" =>
    match kv.floats "dz", kv.floats "ds", kv.floats "z", kv.floats "s", kv.float "amax" with
    | some dz, some ds, some z, some s, some a => fmtM fpair (Soc.stepLength dz ds z s a)
    | _, _, _, _, _ => "bad-request"
  | "zero.step_length" =>
    match kv.float "amax" with
    | some a => fpair (Zero.stepLength a)
    | _ => "bad-request"
  | "soc.step_length_component" =>
    match kv.floats "x", kv.floats "y", kv.float "amax" with
    | some x, some y, some a => fmtM (fun r => s!"a={fmtFloat r}") (Soc.stepLengthComponent x y a)
    | _, _, _ => "bad-request"
  | "nn.margins" =>
    match kv.floats "z" with
    | some z => fmtMargins inf (Nonneg.margins z)
    | _ => "bad-request"
  | "soc.margins" =>
    match kv.floats "z" with
    | some z => fmtM (fun (r : Float × Float) => s!"a={fmtFloat r.1} b={fmtFloat r.2}") (Soc.margins z)
    | _ => "bad-request"
  | "zero.margins" =>
    match kv.floats "z" with
    | some z => fmtMargins maxValue (Zero.margins z)
    | _ => "bad-request"
  | "nn.scaled_unit_shift" =>
    match kv.floats "z", kv.float "a" with
    | some z, some a => fv "z" (Nonneg.scaledUnitShift z a)
    | _, _ => "bad-request"
  | "soc.scaled_unit_shift" =>
    match kv.floats "z", kv.float "a" with
    | some z, some a => fmtM (fv "z") (Soc.scaledUnitShift z a)
    | _, _ => "bad-request"
  | "zero.scaled_unit_shift" =>
    match kv.floats "z", kv.float "a", kv.nat "primal" with
    | some z, some a, some p => fv "z" (Zero.scaledUnitShift z a (p != 0))
    | _, _, _ => "bad-request"
  | "psd.scaled_unit_shift" =>
    match kv.floats "z", kv.float "a", kv.nat "n" with
    | some z, some a, some n => fmtM (fv "z") (PsdIndex.scaledUnitShift n z a)
    | _, _, _ => "bad-request"
  | "nn.unit_initialization" =>
    match kv.floats "z", kv.floats "s" with
    | some z, some s => let r := Nonneg.unitInitialization z s; s!"z={fmtFloats r.1} s={fmtFloats r.2}"
    | _, _ => "bad-request"
  | "zero.unit_initialization" =>
    match kv.floats "z", kv.floats "s" with
    | some z, some s => let r := Zero.unitInitialization z s; s!"z={fmtFloats r.1} s={fmtFloats r.2}"
    | _, _ => "bad-request"
  | "soc.unit_initialization" =>
    match kv.floats "z", kv.floats "s" with
    | some z, some s =>
      fmtM (fun (r : Array Float × Array Float) => s!"z={fmtFloats r.1} s={fmtFloats r.2}")
        (Soc.unitInitialization z s)
    | _, _ => "bad-request"
  | "psd.unit_initialization" =>
    match kv.floats "z", kv.floats "s", kv.nat "n" with
    | some z, some s, some n =>
      fmtM (fun (r : Array Float × Array Float) => s!"z={fmtFloats r.1} s={fmtFloats r.2}")
        (PsdIndex.unitInitialization n z s)
    | _, _, _ => "bad-request"
  | "backtrack.search" =>
    match kv.floats "dq", kv.floats "q", kv.float "ainit", kv.float "amin", kv.float "step",
          kv.nats "acc", kv.nat "worklen" with
    | some dq, some q, some ai, some am, some st, some acc, some wl =>
      let sq := acc.toList.map (· != 0)
      fmtM (fun (r : Float × Nat) => s!"a={fmtFloat r.1} k={r.2}")
        (Backtrack.backtrackSearch dq q ai am st (seqPred sq) wl (sq.length + 1))
    | _, _, _, _, _, _, _ => "bad-request"
  | "composite.step_length" =>
    match coneFns kv, kv.float "msf", kv.float "amax" with
    | some fns, some msf, some a => fmtM fpair (Composite.stepLength fns msf a)
    | _, _, _ => "bad-request"
  | "composite.margins" =>
    match specs kv, kv.floats "z" with
    | some sp, some z => fmtM (fmtMargins maxValue) (Composite.margins sp z)
    | _, _ => "bad-request"
  | "composite.scaled_unit_shift" =>
    match specs kv, kv.floats "z", kv.float "a", kv.nat "primal" with
    | some sp, some z, some a, some p => fmtM (fv "z") (Composite.scaledUnitShift sp z a (p != 0))
    | _, _, _, _ => "bad-request"
  | "composite.unit_initialization" =>
    match specs kv, kv.floats "z", kv.floats "s" with
    | some sp, some z, some s =>
      fmtM (fun (r : Array Float × Array Float) => s!"z={fmtFloats r.1} s={fmtFloats r.2}")
        (Composite.unitInitialization sp z s)
    | _, _, _ => "bad-request"
  | "composite.shift_to_cone_interior" =>
    match specs kv, kv.floats "z", kv.nat "primal" with
    | some sp, some z, some p => fmtM (fv "z") (Composite.shiftToConeInterior sp z (p != 0))
    | _, _, _ => "bad-request"
  | _ => handle2 ch kv

end DriverC15

def main : IO Unit := Driver.runMain DriverC15.handle
