//! Public-API demonstration of KF-C05-stale-start-after-failed-init (integration test: copy to
//! `<clarabel>/tests/c05_stale_start.rs` and run `cargo test --test c05_stale_start`).
//!
//! `solve(); solve()` on ONE solver object must give the same answer twice.  The right-hand side
//! 1e301 on the equality row makes the initial KKT solve of `default_start` fail (iterative
//! refinement meets non-finite numbers); `default_start` does not look at the flag and shifts
//! whatever `solve_initial_point` left in `variables` into the cone.  With `max_iter = 0` the first
//! solve stops right there (status MaxIterations, finite `x, s, z`).  Before the fix (/repo 7c1c881)
//! the second solve started from the UN-SCALED RESULT of the first one instead of zeros and
//! returned another `s, z`; a fresh solver object always returned the first answer.
#![allow(non_snake_case)]

use clarabel::algebra::*;
use clarabel::solver::*;

fn bits(v: &[f64]) -> Vec<u64> {
    v.iter().map(|x| x.to_bits()).collect()
}

fn problem() -> DefaultSolver<f64> {
    // minimise  ½|x|² + x₀ + x₁   s.t.  x₀ = 1e301,  x₁ = 2e301,  x₀ + x₁ = −3e301,  −8x₀ ≤ 1,  −x₁/16 ≤ 1
    // (three equalities no x satisfies: the regularised KKT solve overflows)
    let P = CscMatrix::new(2, 2, vec![0, 1, 2], vec![0, 1], vec![1.0, 1.0]);
    let q = vec![1.0, 1.0];
    let A = CscMatrix::new(
        5,
        2,
        vec![0, 3, 6],
        vec![0, 2, 3, 1, 2, 4],
        vec![1.0, 1.0, -8.0, 1.0, 1.0, -0.0625],
    );
    let b = vec![1.0e301, 2.0e301, -3.0e301, 1.0, 1.0];
    let cones = [ZeroConeT(3), NonnegativeConeT(2)];
    let settings = DefaultSettingsBuilder::default()
        .verbose(false)
        .max_iter(0)
        .build()
        .unwrap();
    DefaultSolver::new(&P, &q, &A, &b, &cones, settings)
}

#[test]
fn second_solve_repeats_the_first() {
    let mut solver = problem();
    solver.solve();
    let first = solver.solution.clone_figures();
    solver.solve();
    let second = solver.solution.clone_figures();
    // the premise: an ordinary status with finite figures
    assert_eq!(first.0, SolverStatus::MaxIterations);
    assert!(first.1.iter().chain(&first.2).chain(&first.3).all(|v| v.is_finite()));
    assert_eq!(first.0, second.0, "status of the second solve");
    assert_eq!(bits(&first.1), bits(&second.1), "x of the second solve");
    assert_eq!(bits(&first.2), bits(&second.2), "s of the second solve");
    assert_eq!(bits(&first.3), bits(&second.3), "z of the second solve");
    // and a fresh solver object agrees with both
    let mut fresh = problem();
    fresh.solve();
    let third = fresh.solution.clone_figures();
    assert_eq!(bits(&first.2), bits(&third.2), "s of a fresh solver");
    assert_eq!(bits(&first.3), bits(&third.3), "z of a fresh solver");
}

trait Figures {
    fn clone_figures(&self) -> (SolverStatus, Vec<f64>, Vec<f64>, Vec<f64>);
}
impl Figures for DefaultSolution<f64> {
    fn clone_figures(&self) -> (SolverStatus, Vec<f64>, Vec<f64>, Vec<f64>) {
        (self.status, self.x.clone(), self.s.clone(), self.z.clone())
    }
}
