#!/bin/sh
# Build the whole framework from files on disk (offline): Lean model + proofs + drivers,
# then the Rust harness against /repo's current tree with the verif-hooks feature.
set -e
cd "$(dirname "$0")"
export CARGO_NET_OFFLINE=true
( cd lean && lake build )
( cd harness && cargo build --release --offline --bins )
echo "setup ok"
