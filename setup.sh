#!/bin/sh
# Build the framework from files on disk (offline): for every check claimed in
# MANIFEST.json the Lean theorems + compiled model driver, and the Rust harness binary
# against /repo's current tree with the verif-hooks feature.
set -e
cd "$(dirname "$0")"
export CARGO_NET_OFFLINE=true
IDS=$(python3 -c "import json;print(' '.join(c['property_id'] for c in json.load(open('MANIFEST.json'))['checks']))")
LEAN_TARGETS="ClarabelProofs.AuditTool cm_solver cm_solverns"
BINS="--bin solver --bin solverns"
for id in $IDS; do
  low=$(echo "$id" | tr 'A-Z' 'a-z')
  LEAN_TARGETS="$LEAN_TARGETS ClarabelProofs.Props.$id cm_$low"
  BINS="$BINS --bin $low"
done
( cd lean && lake build $LEAN_TARGETS )
( cd harness && cargo build --release --offline $BINS )
echo "setup ok: $IDS"
